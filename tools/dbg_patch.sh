#!/bin/bash
# usage: dbg_patch.sh <dir with patch.diff> <check ids...>   -> applies the patch in /tmp/wt/dbg, runs the checks, prints violation lines
d=$(realpath $1); shift
git -C /repo worktree remove --force /tmp/wt/dbg 2>/dev/null
git -C /repo worktree add -q --detach /tmp/wt/dbg HEAD && git -C /tmp/wt/dbg apply $d/patch.diff || exit 2
for c in "$@"; do
  VERIF_REPO=/tmp/wt/dbg VERIF_OUT=/tmp/wt/dbg_out /verif/check $c 2>&1 | grep -v "^  rule\|^VIOLATION\|^KNOWN\|^facts" | cut -c1-${COLS:-330}
done
