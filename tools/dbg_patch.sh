#!/bin/bash
# usage: dbg_patch.sh <dir with patch.diff> <check ids...>   -> applies the patch in /tmp/wt/dbg2, runs the checks, prints violation lines
d=$(realpath $1); shift
git -C /repo worktree remove --force /tmp/wt/dbg2 2>/dev/null
git -C /repo worktree add -q --detach /tmp/wt/dbg2 HEAD && git -C /tmp/wt/dbg2 apply $d/patch.diff || exit 2
for c in "$@"; do
  VERIF_REPO=/tmp/wt/dbg2 VERIF_OUT=/tmp/wt/dbg2_out $(dirname $0)/../check $c 2>&1 | grep -v "^  rule\|^VIOLATION\|^KNOWN\|^facts" | cut -c1-${COLS:-330}
done
