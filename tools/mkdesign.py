#!/usr/bin/env python3
"""Assemble /verif/DESIGN.md: the plan (docs/DESIGN_plan.md, written before the code) followed by the as-built report
(docs/DESIGN_asbuilt.md) with the tables generated from evidence/ and seeded/RESULTS*.json."""
import json
import os
import subprocess
import sys

V = os.path.dirname(os.path.dirname(os.path.abspath(__file__)))


def run(tool):
    return subprocess.run([sys.executable, os.path.join(V, "tools", tool)], stdout=subprocess.PIPE, text=True, check=True).stdout.strip()


plan = open(os.path.join(V, "docs", "DESIGN_plan.md")).read().rstrip("\n")
built = open(os.path.join(V, "docs", "DESIGN_asbuilt.md")).read()
built = built.replace("PROPERTY_TABLE_PLACEHOLDER", run("mktable.py"))
matrix = run("mkmatrix.py")
built = built.replace("DETECTION_MATRIX_PLACEHOLDER", matrix)
R = json.load(open(os.path.join(V, "seeded", "RESULTS.json")))
def alarmed(v):
    return sorted(c for c, x in v.items() if isinstance(x, dict) and x.get("exit") == 1)


own = {k: v for k, v in R.items() if k.startswith("benign") and not k.startswith("benign_rf_")}
rf = {k: v for k, v in R.items() if k.startswith("benign_rf_")}
rf_al = {k: alarmed(v) for k, v in rf.items() if alarmed(v)}
txt = "own edits: %d x 20 checks, %d alarms; independent refactorings: %d, of which %d still raise an alarm: %s" % (
    len(own), sum(1 for v in own.values() if alarmed(v)), len(rf), len(rf_al), ", ".join("%s (%s)" % (k[10:], " ".join(c)) for k, c in sorted(rf_al.items())) or "none")
built = built.replace("REFACTOR_RESULT_PLACEHOLDER", txt).replace("BENIGN_RESULT_PLACEHOLDER", txt)
open(os.path.join(V, "DESIGN.md"), "w").write(plan + "\n" + built)
print("DESIGN.md written (%d lines)" % (plan.count("\n") + built.count("\n")))
