#!/usr/bin/env python3
"""Assemble /verif/DESIGN.md: the plan (docs/DESIGN_plan.md, written before the code) followed by the as-built report
(docs/DESIGN_asbuilt.md) with the tables generated from evidence/ and seeded/RESULTS*.json."""
import json
import os
import subprocess
import sys

V = os.path.dirname(os.path.dirname(os.path.abspath(__file__)))


def run(tool):
    return subprocess.run([sys.executable, os.path.join(V, "tools", tool)], stdout=subprocess.PIPE, text=True, check=True).stdout.strip()


plan = open(os.path.join(V, "docs", "DESIGN_plan.md")).read().rstrip("\n")
built = open(os.path.join(V, "docs", "DESIGN_asbuilt.md")).read()
built = built.replace("PROPERTY_TABLE_PLACEHOLDER", run("mktable.py"))
matrix = run("mkmatrix.py")
built = built.replace("DETECTION_MATRIX_PLACEHOLDER", matrix)
R = json.load(open(os.path.join(V, "seeded", "RESULTS.json")))
ben = {k: v for k, v in R.items() if k.startswith("benign")}
alarms = sum(1 for v in ben.values() if any(isinstance(c, dict) and c.get("exit") == 1 for c in v.values()))
built = built.replace("BENIGN_RESULT_PLACEHOLDER", "%d edits x 20 checks, %d alarms" % (len(ben), alarms))
open(os.path.join(V, "DESIGN.md"), "w").write(plan + "\n" + built)
print("DESIGN.md written (%d lines)" % (plan.count("\n") + built.count("\n")))
