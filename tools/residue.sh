#!/bin/bash
# Regenerate the list of undischarged E1 obligations (input of tools/mkjust.py) from every check that reports E1
# obligations, in both tiers. usage: tools/residue.sh <out-file>   (run with specs/justifications.txt as it should be
# seen by the engine: empty for a from-scratch bootstrap, current for an incremental round)
out=${1:-/tmp/residue_all.txt}
rm -f "$out" "$out.raw"
cd "$(dirname "$0")/.."
for c in C02 C03 C06 C07 C08 C10 C11 C12 C14 C15 C16 C17 C20; do
  for t in quick thorough; do
    ( VERIF_RESIDUE="$out.raw" VERIF_OUT=/tmp/residue_out_$c$t ./check $c --tier $t >/dev/null 2>&1; rm -rf /tmp/residue_out_$c$t ) &
  done
done
wait
sort -u "$out.raw" > "$out"; rm -f "$out.raw"
wc -l "$out"
