#!/usr/bin/env python3
"""One-off helper that wrote specs/justifications.txt: attaches the reviewed reason to each undischarged E1
obligation. Every rule below names one function (and obligation kind / operand pattern) that was read by hand;
anything not matched stays unjustified and is reported by the checks. The output file, not this script, is what
the checks read; entries are exact (function | kind | description) keys."""
import re
import sys

R = []


def rule(fn, kind, desc_re, reason):
    R.append((re.compile(fn), kind, re.compile(desc_re), reason))


ASCII = "the bytes before the offset were matched against ASCII constants (or a `char`'s own len_utf8 / a str prefix), so the offset is a char boundary"

# ---- format::strftime ---------------------------------------------------------------------------
rule(r"^format::strftime::StrftimeItems::<'a>::parse_next_item$", "str-index", r"index\(&remainder,Range(From|To)\)",
     "offsets are 1 after a matched '%', c.len_utf8() of the char just read by chars().next(), the length of a matched ASCII prefix (starts_with), or the result of find() on the same string (nextspec > 0 asserted): always inside the string and on a char boundary")
rule(r"^format::strftime::StrftimeItems::<'a>::parse_next_item$", "panic", r"nextspec > 0",
     "the first char of remainder is neither '%' nor white space (resp. is white space) in this arm, so find() of the complementary class cannot return 0")
rule(r"^format::strftime::StrftimeItems::<'a>::parse_next_item$", "bounds", r"index\((&const,RangeFrom|0)\)",
     "indexing the non-empty static item lists D_FMT / D_T_FMT / T_FMT / T_FMT_AMPM at 0 and [1..] (their lengths are checked by C12's composite-expansion rule)")
rule(r"^format::strftime::StrftimeItems::<'a>::error$", "str-index", r"index\(&original,",
     "error_len is 1 ('%') plus the len_utf8 of every char consumed from `original` by next!(), minus the len_utf8 of the last one in lenient mode: a char boundary inside `original`")
rule(r"^format::strftime::StrftimeItems::<'a>::error$", "overflow", r"Sub\(error_len,len_utf8\(c\)\)",
     "error_len already includes c.len_utf8() (c is the last char consumed by next!())")
# ---- sites that were first reached below a documented panicker and surfaced when the summaries got their context bit --------------------
rule(r"^naive::date::cycle_to_yo$", "overflow", r"Sub\(year_mod_400,1\)",
     "the decrement is taken only when ordinal0 < YEAR_DELTAS[year_mod_400]; YEAR_DELTAS[0] == 0 (table verified cell by cell by the YEAR_DELTAS rule of C01), so year_mod_400 >= 1 there")
rule(r"^naive::date::yo_to_cycle$", "overflow", r"Sub\(Add\(Add\(_,_\)\.0,ordinal\)\.0,1\)",
     "ordinal is the ordinal of a NaiveDate (1..=366, type invariant of the packed field; every caller passes self.ordinal()), so the sum is >= 1")
rule(r"^naive::internals::YearFlags::from_year_mod_400$", "bounds", r"index\(year as usize\)",
     "callers pass year.rem_euclid(400), a div_mod_floor remainder by 400, or cycle_to_yo's adjusted year_mod_400 (400 only before the adjustment: cycle / 365 == 400 implies cycle % 365 <= 96 < YEAR_DELTAS[400] == 97, so it is decremented); "
     "the value map CYCLE.* of C01 folds every one of these callers over all year classes and both range ends")
rule(r"^offset::local::tz_info::parser::Cursor::<'a>::read_be_u32$", "bounds", r"copy_from_slice\(",
     "read_exact(4) returns remaining.get(..4), a slice of exactly 4 bytes, or an error that is propagated before the copy")
rule(r"^offset::local::tz_info::parser::Cursor::<'a>::read_exact$", "overflow", r"Add\(self\.1,count\)",
     "read_count is the number of bytes already consumed from the input and count <= remaining.len() on this arm (get(..count) is Some): the sum is at most the input length, which fits usize")
rule(r"^offset::local::tz_info::timezone::TimeZoneName::new$", "lossy-cast", r"len\(&input\) as u8", "input.len() was tested to lie in 3..=7 a few lines above (the same slice, not modified in between)")
rule(r"^offset::local::tz_info::timezone::TimeZoneName::as_bytes$", "panic", r"unreachable",
     "bytes[0] is the length 3..=7 written by TimeZoneName::new, the only constructor (private field; who-may-construct checked by C16 SITES)")
rule(r"^offset::local::tz_info::timezone::TimeZoneRef::<'a>::validate$", "bounds", r"index\(0\)", "guarded by !self.leap_seconds.is_empty() (short-circuit ||) on the same slice")
rule(r"^offset::local::tz_info::timezone::TimeZoneRef::<'a>::validate$", "bounds", r"index\(Add\((i_transition|i_leap_second),1\)\.0\)",
     "guarded by the preceding `i + 1 < len` test of the same slice (short-circuit && resp. enclosing if); the sum is recomputed from the unchanged counter")
rule(r"^offset::local::tz_info::timezone::TimeZoneRef::<'a>::validate$", "bounds", r"index\(last_transition\.1\)",
     "the loop above rejected every transition whose local_time_type_index >= local_time_types.len() (counting loop recognised by C16 COVER.validate); last_transition is an element of the same slice")
# ---- format::scan ------------------------------------------------------------------------------
rule(r"^format::scan::number$", "str-(index|boundary)", r"index\(&s,RangeFrom\)",
     "i (resp. min(max, len)) counts bytes that are all ASCII digits, taken from the same string: within the string and on a char boundary")
rule(r"^format::scan::number::\{closure#0\}$", "overflow", r"Sub\(arg1\.0,48\)", "c passed is_ascii_digit(), so c >= b'0'")
rule(r"^format::scan::nanosecond$", "overflow", r"Sub\(origlen,len", "s returned by number() is a suffix of the original string")
rule(r"^format::scan::nanosecond$", "bounds", r"index\(consumed\)", "number(s, 1, 9) consumes between 1 and 9 bytes, SCALE has 10 entries")
rule(r"^format::scan::char$", "str-index", r"index\(&s,RangeFrom\)", "first byte equals c1, which is an ASCII literal at every call site (checked by rule CALL.scan_char): offset 1 is a char boundary")
rule(r"^format::scan::short_(month0|weekday)$", "str-boundary", r"index\(&s,RangeFrom\)", "the three bytes matched ASCII letters (after |32): offset 3 is a char boundary")
rule(r"^format::scan::short_or_long_(month0|weekday)$", "(str-index|bounds)", r"index\(&(s|as_bytes\(&s\)),Range(From|To)\)",
     "guarded by s.len() >= suffix.len(); the prefix equals an ASCII suffix ignoring case, so the offset is a char boundary")
rule(r"^format::scan::timezone_offset$", "str-index", r"index\(&s,RangeFrom\)", "offsets follow a matched 'Z'/'z', the len_utf8 of the matched sign char, two matched ASCII digits, or a matched ':' / len >= 2 guard: " + ASCII)
rule(r"^format::scan::timezone_offset::digits$", "bounds", r"index\((0|1)\)", "guarded by b.len() < 2 => Err")
rule(r"^format::scan::timezone_offset_2822$", "(str-index|bounds)", r"index\(&(arg1|as_bytes\(&arg1\)),Range(From|To)\)", "upto is the position of the first non-ASCII-alphabetic byte (or len): within the string, all bytes before it ASCII")
rule(r"^format::scan::comment_2822$", "str-index", r"index\(&s,RangeFrom\)", "byte i is the ASCII ')' just matched, so i + 1 <= len and is a char boundary")
rule(r"^format::scan::comment_2822$", "overflow", r"Add\(i,1\)", "i < s.len() <= isize::MAX")
rule(r"^format::scan::comment_2822$", "overflow", r"Add\(tuple\.0\.0,1\)", "nesting depth is at most the number of bytes read (< isize::MAX)")
rule(r"^format::scan::comment_2822$", "overflow", r"Sub\(tuple\.0\.0,1\)", "the arm (Next(1), b')') is matched first, and Next(0) is never constructed: depth >= 2 here")
# ---- format::parse -----------------------------------------------------------------------------
rule(r"^format::parse::parse_internal$", "str-index", r"index\(&s,RangeFrom\)",
     "offsets are prefix.len() after starts_with(prefix) with the length checked, 1 after a matched '+'/'-' sign, or 2 after two bytes matched against ASCII 'am'/'pm' with s.len() >= 2 checked: " + ASCII)
rule(r"^format::parse::parse_internal$", "str-boundary", r"index\(&s,RangeFrom\)", "two bytes matched ASCII 'a'/'p' and 'm' (after |32)")
rule(r"^format::parse::parse_internal$", "bounds", r"index\((0|1)\)", "guarded by s.len() < 2 => Err(TOO_SHORT)")
rule(r"^format::parse::parse_rfc2822$", "str-index", r"index\(&short_weekday", "s_ starts with ',' (checked): offset 1 is a char boundary")
rule(r"^format::parse::parse_rfc2822$", "overflow", r"Sub\(prevlen,len", "s returned by scan::number is a suffix of the previous s")
rule(r"^format::parse::parse_rfc2822$", "overflow", r"Add\(year,(2000|1900)\)", "yearlen is 2 or 3 in these arms, so year < 1000 (the 2-digit arms match 0..=99)")
rule(r"^format::parse::parse_rfc3339$", "str-index", r"index\(&s,RangeFrom\)", "first byte matched ASCII 't'/'T'/' ' resp. starts_with('.')")
rule(r"^format::parse::parse_rfc3339_relaxed$", "str-(index|boundary)", r"index\(&arg2,RangeFrom\)", "first byte matched ASCII 't'/'T'/' '; resp. s.len() >= 3 and the first three bytes equal \"UTC\" ignoring ASCII case")
rule(r"^format::parse::parse_rfc3339_relaxed$", "bounds", r"index\(&as_bytes\(&arg2\),RangeTo\)", "guarded by s.len() >= 3 (short-circuit &&)")
rule(r"^format::parsed::Parsed::to_naive_datetime_with_offset$", "panic", r"entered unreachable code", "the final `else` is entered only when `date` or `time` is an Err (the two preceding arms cover Ok/Ok and the timestamp case), so `date?` or `time?` returns before the unreachable!() is evaluated")
rule(r"^format::parsed::Parsed::to_naive_date::\{closure#2\}::\{closure#[01]\}$", "lossy-cast", r"v as i32", "v is week_from_sun / week_from_mon <= 53 by the setters; for a hand-built Parsed a wrapped value only fails the equality test that follows")
# ---- naive::date / internals (packed invariants; tables checked by C01) -------------------------
rule(r"^naive::date::NaiveDate::from_yof$", "(panic|invariant)", r".*", "callers pass yof built from a valid (year, ordinal in 1..=366, YearFlags): ordinal-leap lane > 1, <= MAX_OL, flags != 0; checked by the debug assertions in every test run and by C01's layout rules")
rule(r"^naive::date::NaiveDate::from_ordinal_and_flags$", "panic", r"YearFlags::from_year", "every caller computes flags as YearFlags::from_year(year) (or from_year_mod_400 of the same year)")
rule(r"^naive::date::NaiveDate::with_mdf$", "panic", r"year_flags", "callers build mdf from self.mdf().with_*(), which keeps the flags")
rule(r"^naive::date::NaiveDate::year_flags$", "invariant", r"YearFlags\.0=", "the flags lane of a NaiveDate is one of the 14 year classes (never 0 or 8): from_yof asserts it")
rule(r"^naive::internals::Mdf::year_flags$", "invariant", r"YearFlags\.0=", "the flags lane of an Mdf comes from a YearFlags")
rule(r"^naive::internals::Mdf::from_ol$", "(panic|invariant)", r".*", "ol is the ordinal-leap lane of a valid NaiveDate (2..=MAX_OL); ol + OL_TO_MDL[ol] <= MAX_MDL is checked by C01 (TBL.mdl_ol_side)")
rule(r"^naive::internals::Mdf::new$", "invariant", r"Mdf\.0=", "month <= 12, day <= 31, flags <= 15 are checked just before: the OR of disjoint lanes is <= MAX")
rule(r"^naive::internals::Mdf::ordinal$", "overflow", r"Sub\(mdl,", "MDL_TO_OL[mdl] <= mdl for every valid cell (C01 TBL.mdl_ol: the offset is mdl - ol with ol >= 2)")
rule(r"^naive::internals::YearFlags::from_year_mod_400$", "bounds", r"index\(year as usize\)", "callers pass year.rem_euclid(400) or the year_mod_400 of cycle_to_yo, both in 0..400")
rule(r"^naive::date::cycle_to_yo$", "overflow", r"Sub\(year_mod_400,1\)", "ordinal0 < YEAR_DELTAS[year_mod_400] implies year_mod_400 >= 1 because YEAR_DELTAS[0] = 0 (C01 TBL.year_deltas)")
rule(r"^naive::date::yo_to_cycle$", "overflow", r"Sub\(Add\(Add", "ordinal >= 1 for every valid date")
rule(r"^naive::time::NaiveTime::overflowing_add_signed$", "(overflow|invariant)", r".*frac,frac_to_add.*", "in this branch frac >= 10^9, secs_to_add == 0 and not (frac_to_add > 0 && frac >= 2*10^9 - frac_to_add): the upper bound frac + frac_to_add < 2*10^9 comes from that comparison, the lower bound > 0 from subsec_nanos() > -10^9")
# ---- time_delta -------------------------------------------------------------------------------
rule(r"^time_delta::TimeDelta::checked_div$", "(overflow|lossy-cast|invariant)", r".*", "|secs / rhs| <= |secs| and |carry * 10^9 / rhs| < 10^9, so the sum of the two nanosecond terms stays within (-10^9, 10^9) before the single +-1 s normalisation, which restores 0 <= nanos < 10^9 and |secs| within the range")
rule(r"^time_delta::TimeDelta::from_std$", "lossy-cast", r"as_secs", "as_secs() > MAX.secs is rejected just above (Duration::as_secs is pure)")
rule(r"^time_delta::TimeDelta::neg$", "invariant", r".*", "-secs - 1 with nanos = 10^9 - nanos when nanos != 0 (else -secs, 0): within the symmetric range because MIN = -MAX")
# ---- operators reached from the rounding helpers -----------------------------------------------
rule(r"^<(naive::datetime::NaiveDateTime|datetime::DateTime<Tz>) as std::ops::(Add|Sub)<time_delta::TimeDelta>>::(add|sub)$", "unwrap", r"expect\(checked_(add|sub)_signed",
     "documented panicking operator; reached from round::duration_round/_trunc/_round_up with |delta| < span <= i64::MAX ns around a timestamp inside the i64-nanosecond window (1677..2262), far inside the date range")
rule(r"^round::duration_round_up$", "overflow", r"Sub\(span,delta_down\)", "Ordering::Greater arm: 0 < delta_down < span")
rule(r"^datetime::DateTime::<Tz>::to_rfc3339(_opts)?$", "unwrap", r"expect\(write_rfc3339", "writing into a String cannot fail; write_rfc3339 has no other error source")
# ---- weekday set -----------------------------------------------------------------------------
rule(r"^weekday_set::WeekdaySet::(first|last)$", "(overflow|invariant)", r".*", "guarded by is_empty(): a non-empty 7-bit set has trailing_zeros <= 6 and leading_zeros in 1..=7 (C19 checks the full finite map)")
rule(r"^<weekday_set::WeekdaySetIter as std::iter::(DoubleEndedIterator|Iterator)>::next(_back)?$", "unwrap", r"expect\((first|last)\(days\)\)", "self.days is non-empty (checked first) and split_at partitions it, so the chosen half is non-empty (C19 MAP.set_iter)")
rule(r"^traits::Datelike::quarter$", "overflow", r"Sub\(month", "Datelike::month() is documented to return 1..=12 (trait contract for foreign implementations; in-crate impls are range-checked)")
# ---- local time zone --------------------------------------------------------------------------
rule(r"^offset::LocalResult::<T>::unwrap$", "panic", r"panic_fmt", "documented panicker, reached only from documented panickers / with Single results")
rule(r"^offset::local::inner::Cache::offset$", "unwrap", r"expect\(find_local_time_type", "lookup fails only for years outside i32 +- 2, impossible for a NaiveDateTime; accepted zones are validated (C16)")
rule(r"^offset::local::inner::offset::\{closure#0\}$", "borrow", r"borrow_mut", "TZ_INFO is thread-local and the closure does not re-enter Local (C18)")
rule(r"^offset::local::tz_info::rule::AlternateTime::find_local_time_type_from_local$", "overflow", r".*", "current_year is a NaiveDateTime year (|year| < 2^18), so |unix_time| < 2^44 and the offsets/times are < 2^31")
rule(r"^offset::local::tz_info::rule::RuleDay::transition_date$", "(overflow|bounds)", r".*", "month is validated to 1..=12 by RuleDay::month_weekday; binary_search on CUMUL_DAY_IN_MONTHS (first cell 0) never returns Err(0)")
rule(r"^offset::local::tz_info::rule::days_since_unix_epoch$", "(overflow|bounds)", r".*", "month is validated to 1..=12 by the callers")
rule(r"^offset::local::tz_info::timezone::TimeZoneRef::<'a>::unix_time_to_unix_leap_time$", "bounds", r".*",
     "the index i is guarded by the loop condition `i < self.leap_seconds.len()` of the enclosing while loop")
rule(r"^offset::local::tz_info::timezone::TimeZoneRef::<'a>::(find_local_time_type|find_local_time_type_from_local)$", "bounds", r".*",
     "indices were validated by TimeZoneRef::validate when the zone was built (local_time_types non-empty, every transition index < len, leap seconds sorted); binary_search results are < len")
# ---- serde config -----------------------------------------------------------------------------
rule(r"^datetime::DateTime::<Tz>::timestamp_(micros|millis)$", "overflow", r".*", "|timestamp()| <= 8.3 * 10^12 s for every representable date (year within +-262143), so the product fits i64")
rule(r"^time_delta::serde::<impl serde::Deserialize<'de> for time_delta::TimeDelta>::deserialize$", "lossy-cast", r"nanos as u32", "a negative or oversized nanos becomes >= 10^9 after the cast and is rejected by TimeDelta::new")


# ---- tz_info (C16 roots) ------------------------------------------------------------------------
T = r"^offset::local::tz_info::"
rule(T + r"parser::Cursor::<'a>::read_be_u32$", "bounds", r"copy_from_slice", "read_exact(4) returns exactly 4 bytes on success")
rule(T + r"parser::Cursor::<'a>::read_exact$", "overflow", r"Add\(self\.1,count\)", "read_count counts bytes consumed from a slice, so read_count + count <= len <= isize::MAX")
rule(T + r"parser::parse$", "bounds", r".*", "chunks_exact(n) yields slices of exactly n bytes (time_size is 4 or 8; local time types are 6 bytes; leap records time_size + 4); name offsets are checked against the names block (`char_index..` followed by position(), errors otherwise)")
rule(T + r"rule::UtcDateTime::from_timespec$", "(bounds|lossy-cast)", r".*", "month counts at most 12 steps of the 12-entry cumulative table before remaining_days is exhausted; year is range-checked against i32 just above; month_day is < 31 after the loop")
rule(T + r"timezone::TimeZoneName::as_bytes$", "panic", r"unreachable", "bytes[0] holds the length 3..=7 written by TimeZoneName::new (the only constructor)")
rule(T + r"timezone::TimeZoneName::new$", "(lossy-cast|bounds)", r".*", "len is checked to be 3..=7 first; i < len = input.len()")
rule(T + r"timezone::TimeZoneRef::<'a>::unix_leap_time_to_unix_time$", "bounds", r"index\(Sub\(index,1\)", "Err(0) / Ok(_) arms: index >= 1 in this arm and index <= len (binary_search)")
rule(T + r"timezone::TimeZoneRef::<'a>::validate$", "(bounds|overflow)", r".*", "loop indices are guarded by `i < len` / `i + 1 < len` in the loop conditions; [0] is guarded by !is_empty(); last_transition's type index was checked in the first loop")

# ---- thorough tier: infallible public functions (root set I) ---------------------------------------
rule(r"^<T as round::SubsecRound>::round_subsecs$", "overflow", r"Sub\(span,delta_down\)", "delta_down = nanosecond() % span < span")
rule(r"^<format::ParseError as std::fmt::Display>::fmt$", "panic", r"unreachable", "ParseErrorKind::__Nonexhaustive is never constructed")
rule(r"^<naive::date::NaiveDate as std::default::Default>::default$", "unwrap", r"from_ymd_opt\(1970,1,1\)", "constant, valid date (C01 CYCLE.from_ymd covers its year class)")
rule(r"^<naive::date::NaiveDate(Days|Weeks)Iterator as std::iter::Iterator>::size_hint$", "lossy-cast", r"exact_size as usize", "for a date within NaiveDate::MIN..=MAX the distance to MAX is >= 0. (A date beyond MAX can only be obtained by a foreign TimeZone implementation that keeps the possibly out-of-range wall-clock argument chrono hands to offset_from_local_datetime; for such a value the hint wraps to usize::MAX without panicking. No clause of C03/C15 covers size_hint on such a value.)")
rule(r"^<naive::internals::Mdf as std::fmt::Debug>::fmt$", "invariant", r"YearFlags", "debug output only; the flags lane of an Mdf comes from a YearFlags")
rule(r"^<time_delta::TimeDelta as std::fmt::Display>::fmt$", "overflow", r"Sub\(figures,1\)", "abs.nanos in 1..10^9 has at most 8 trailing zeros, so figures stays >= 1")
rule(r"^<time_delta::TimeDelta as std::ops::Add>::add$", "unwrap", r"checked_add", "documented panicking operator (reached from impl Sum, which inherits operator semantics)")
rule(r"^<time_delta::TimeDelta as std::ops::Neg>::neg$", "invariant", r".*", "range is symmetric (MIN = -MAX): -secs - 1 with nanos = 10^9 - nanos when nanos != 0")
rule(r"^time_delta::TimeDelta::abs$", "invariant", r".*", "|secs| within the symmetric range; the secs < 0 && nanos != 0 case is normalised first")
rule(r"^datetime::DateTime::<Tz>::naive_local$", "unwrap", r"checked_add_offset", "documented panicker; reached here only from NaiveDateTime::default() on UNIX_EPOCH with offset 0")
rule(r"^datetime::DateTime::<offset::utc::Utc>::from_timestamp_nanos$", "unwrap", r"from_timestamp", "every i64 nanosecond count lies within 1677..2262, inside the supported range; nsecs < 10^9 from rem_euclid")
rule(r"^naive::isoweek::IsoWeek::week0$", "overflow", r"Sub\(", "ISO week numbers are 1..=53 (C01 CYCLE.dates checks iso_week for every year class)")
rule(r"^offset::local::tz_info::rule::parse_offset$", "overflow", r"Mul\(sign,", "sign is -1 or 1")
rule(r"^offset::local::tz_info::rule::TransitionRule::from_tz_string$", "overflow", r".*", "offsets come from parse_offset: |value| <= 24*3600 + 59*60 + 59")
rule(r"^time_delta::TimeDelta::num_milliseconds$", "overflow", r".*", "|secs| <= i64::MAX / 1000 by the type invariant, and the sub-second part keeps the sum within i64 (MAX is exactly i64::MAX ms)")
rule(r"^weekday_set::WeekdaySet::from_array$", "bounds", r"index\(idx\)", "loop guard idx < days.len()")
rule(r"^datetime::<impl std::convert::From<datetime::DateTime<Tz>> for std::time::SystemTime>::from$", "overflow", r"SystemTime", "|timestamp| <= 8.3 * 10^12 s is within the platform's SystemTime range (i64 seconds on the analysed target)")
rule(r"^<naive::date::NaiveDate as traits::Datelike>::(day0|month0|ordinal0)$", "overflow", r"Sub\(", "month, day and ordinal of a valid date are >= 1 (C01 CYCLE.dates)")
rule(r"^traits::Datelike::(num_days_from_ce|year_ce|num_days_in_month)$", "(overflow|lossy-cast|unwrap)", r".*", "default method of the Datelike trait: every in-crate implementor returns a year within NaiveDate::MIN..=MAX (|year| <= 262143), month 1..=12 and ordinal 1..=366, for which the arithmetic fits i32; assumption: a foreign implementor of Datelike does the same (year() documents no range, and e.g. year() = 1_500_000 would overflow here)")
rule(r"^traits::Timelike::num_seconds_from_midnight$", "overflow", r".*", "default method of the Timelike trait: relies on the trait contract hour < 24, minute < 60, second < 60")

# ---- calls into documented panickers (kind doc-panic): the panic condition is excluded at the call site -------------
ROUND_RANGE = ("timestamp_nanos_opt() succeeded, so the wall-clock reading lies in 1677-09-21..2262-04-11, and 0 <= delta < span <= i64::MAX ns (292.3 years): "
               "the result is within 585 years of 1970, far inside NaiveDate::MIN..=MAX, so the operator's overflow panic is unreachable (|offset| < 1 day for DateTime<Tz>)")
rule(r"^round::duration_(round|trunc|round_up)$", "doc-panic", r"as std::ops::(Add|Sub)<time_delta::TimeDelta>>::(add|sub)\(original,nanoseconds\(", ROUND_RANGE)
rule(r"^<T as round::SubsecRound>::(round|trunc)_subsecs$", "doc-panic", r"as std::ops::Sub<time_delta::TimeDelta>>::sub\(self,nanoseconds\(into\(delta_down\)\)\)",
     "delta_down = self.nanosecond() % span <= self.nanosecond(): the result is not before the start of self's own second, which is representable")
rule(r"^<naive::datetime::NaiveDateTime as std::default::Default>::default$", "doc-panic", r"naive_local\(&const\)",
     "the receiver is the constant DateTime::UNIX_EPOCH with the zero offset Utc: its local reading is 1970-01-01T00:00:00")
rule(r"^<time_delta::TimeDelta as std::fmt::Display>::fmt$", "doc-panic", r"Neg>::neg\(self\)",
     "TimeDelta.secs >= -i64::MAX / 1000 (type invariant, C06 CTOR rules): negation and the borrow of one second cannot overflow")
# ---- unstable-locales configuration ------------------------------------------------------------------------------
rule(r"^format::strftime::StrftimeItems::<'a>::(parse_next_item|error)$", "str-boundary", r"index\(&(remainder|original),Range(From|To)\)",
     "same offsets as the str-index obligation of this site (1 after '%', len_utf8 of chars just read, matched ASCII prefix, find() result): a char boundary; in this configuration the string may also be a locale format string, which is scanned by the same code")
rule(r"^format::strftime::StrftimeItems::<'a>::parse_next_item$", "unwrap", r"unwrap\(self\.4\)", "guarded by self.locale.is_some() && (short-circuit) in the same condition")
LOCALE_DATA = ("assumption on the pure-rust-locales tables: d_fmt / d_t_fmt / t_fmt are non-empty and contain none of %c %x %X %r "
               "(so no nested switch happens while locale_str is pending), and t_fmt_ampm is used only when non-empty")
rule(r"^format::strftime::StrftimeItems::<'a>::switch_to_locale_str$", "panic", r"locale_str\.is_empty", LOCALE_DATA)
rule(r"^format::strftime::StrftimeItems::<'a>::switch_to_locale_str$", "unwrap", r"unwrap\(parse_next_item", LOCALE_DATA)
# ---- SystemTime: platform range ----------------------------------------------------------------------------------
rule(r"^offset::utc::Utc::now$", "lossy-cast", r"as_secs\(&now\) as i64", "on the analysed target (unix) SystemTime stores seconds as i64, so a duration since the epoch is <= i64::MAX s; assumption: targets whose SystemTime is a u64 Duration (wasm32-unknown-unknown, sgx, uefi) are out of scope")
rule(r"^<datetime::DateTime<offset::utc::Utc> as std::convert::From<std::time::SystemTime>>::from$", "lossy-cast", r"as_secs\(&duration_since\(_,UNIX_EPOCH\)\.0\) as i64",
     "on the analysed target (unix) SystemTime stores seconds as i64, so a duration since the epoch is <= i64::MAX s; assumption: targets whose SystemTime is a u64 Duration (wasm32-unknown-unknown, sgx, uefi) are out of scope")

out = []
todo = []
seen = set()
sites = {}
for path in sys.argv[1:]:
    for line in open(path):
        m = re.match(r"^(.*?) \| (\S+) \| (.*?) :: TODO.*?@(\d+)\s*$", line)
        if m:
            sites.setdefault(m.group(1, 2, 3), set()).add(m.group(4))
for path in sys.argv[1:]:
    for line in open(path):
        m = re.match(r"^(.*?) \| (\S+) \| (.*?) :: TODO", line)
        if not m:
            continue
        fn, kind, desc = m.groups()
        if (fn, kind, desc) in seen:
            continue
        seen.add((fn, kind, desc))
        for rf, rk, rd, reason in R:
            if rf.match(fn) and re.fullmatch(rk, kind) and rd.search(desc):
                out.append("%s | %s | %s :: %s #sites=%d" % (fn, kind, desc, reason, len(sites.get((fn, kind, desc), {0}))))
                break
        else:
            todo.append(line.strip())
print("# Reviewed discharge of obligations the interval domain cannot prove (DESIGN 3.5). One named site each:")
print("# <function> | <kind> | <operation as described by the engine> :: <reason> #sites=<number of source lines with this description when reviewed>")
print("# A site whose operands change gets a different description and is reported again; so is an additional site with the same description.")
for l in sorted(out):
    print(l)
sys.stderr.write("%d justified, %d left\n" % (len(out), len(todo)))
for l in todo:
    sys.stderr.write("LEFT " + l[:200] + "\n")
