#!/bin/bash
# confirm every seed directory given as argument, sequentially; log to stdout
for d in "$@"; do [ -f $d/patch.diff ] && echo "$d: $(/verif/tools/confirm_seed.sh $d 2>&1 | tail -1)"; done
