#!/usr/bin/env python3
"""Print the per-property table of DESIGN.md section 11.4 from evidence/*.json (rule names and instance counts of the last run)
and the hand-written decided / not-decided columns below."""
import json
import os

V = os.path.dirname(os.path.dirname(os.path.abspath(__file__)))
TEXT = {
    "C01": ("every table cell, class function, layout constant, range end, derive; `Mdf::new` gate; constructors, month/day/weekday/ISO week/successor/predecessor/day numbers as finite maps over the 14 year classes (thorough: all 400 years of the cycle and a negative cycle) plus both range ends, with the periodicity lemma USES.year", "dates outside the enumerated representatives only through the periodicity lemma (year enters only via YearFlags::from_year, `<< 13`, the range test and checked +-1)"),
    "C02": ("epoch constant, floor-not-truncate, D*M = 10^9, i32 guard before the cast, wrappers decide nothing on their own, no wrap", "equality of both directions, SystemTime interop (seed C02d missed)"),
    "C03": ("operator = checked form, offset independence, iterator steps and size units, no wrap / lossy `as i32`", "numeric exactness of carry/cycle arithmetic"),
    "C04": ("the whole shape of \"one instant, many wall clocks\": offset never read by Eq/Ord/Hash/arith, range filter after re-resolution", "value-level round-trip identities"),
    "C05": ("**narrow**: fold candidates ordered earliest first; contract glue; month tables of the rule-day arithmetic; wall-clock vs UTC coordinates never compared; a transition counts at its own instant (two idioms)", "gap/fold classification on the exact second, hemisphere branches, n-th weekday arithmetic"),
    "C06": ("range, constructor box, unit pairing, invariant at every site, Sum siblings, no wrap", "exactness of results, < 2 ns bound"),
    "C07": ("accepted combinations, field replacement, accessors, offset shifts keep the fraction, every operator delegates to the core function of its own direction/kind, date-times go through the time-of-day core", "leap-second stepping rules, difference of two times (seed C07b missed)"),
    "C08": ("clamp table of the target year, one-component replacement, checked +1, both operands read, week bounds at the range ends and year crossings (finite maps)", "n-th weekday values; week bounds in the middle of a year only in the thorough tier"),
    "C09": ("**narrow**: writer/reader skeleton agreement, sign arms, tested fraction = printed fraction; 1 known finding", "the round trip for concrete values"),
    "C10": ("**narrow**: reader = ABNF field sequence, no scanned field dropped; writer skeleton, plain year exactly 0..=9999, leap fold at 10^9, truncation", "language equality, values, round trip"),
    "C11": ("**narrow**: zone table vs RFC, year rule, widths, no scanned field dropped, writer structure incl. four-digit year", "optional parts, comments, white space, values"),
    "C12": ("the whole specifier table, expansions, modifiers, narrowing/digit domains, one base value for fraction and offset splits", "rendered text per value (week formulas, names lookup)"),
    "C13": ("**narrow**: reader/writer agree per item on width, sign, field; no scanned field dropped; one white-space predicate", "the round trip; white-space / case perturbations"),
    "C14": ("no Ok path skips a supplied field; each consistency check reads exactly its own field group; the candidate returned is the one whose offset check held; setter ranges and targets", "success exactly on the documented combinations; error classification (seed C14b missed)"),
    "C15": ("panic-, wrap-, hang-freedom of every fallible entry point (thorough: of every public function outside the documented panickers), modulo the justified sites; byte offsets never from char counts; invariant types closed", "allocation failure, stack depth"),
    "C16": ("survive-everything half; read order; record layouts tile; rule ranges; validation not bypassed and covering every transition", "conforming files decode to exactly what was written (value level)"),
    "C17": ("**narrow**: failure classification on the unmodified span, guards, digit table, safe basis, unchanged exactly for multiples", "which multiple, ties, idempotence (seed C17a missed)"),
    "C18": ("**narrow**: structure of the reload decision (staleness test before both lookups) and selection order", "timing, file system, histories, threads"),
    "C19": ("the full algebra on the finite domains; FromStr consumes the whole input; from_iter folds everything", "parsing arbitrary strings beyond the tables"),
    "C20": ("helper agreement incl. the primitive requested from the data format, error mapping, delegation, no panic", "round trip through concrete data formats"),
}
print("| id | rules (instances on today's tree) | decided | explicitly not decided |")
print("|---|---|---|---|")
for i in range(1, 21):
    pid = "C%02d" % i
    ev = json.load(open(os.path.join(V, "evidence", pid + ".json")))
    rules = ev["coverage"]["rules"]
    rs = ", ".join("%s %d" % (k, v["instances"]) for k, v in rules.items())
    d, nd = TEXT[pid]
    print("| %s | %s | %s | %s |" % (pid, rs, d, nd))
