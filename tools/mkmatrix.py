#!/usr/bin/env python3
"""Print the detection matrix (markdown) from seeded/RESULTS.json (+ RESULTS_thorough.json) and the seeds' meta.json."""
import json
import os

V = os.path.dirname(os.path.dirname(os.path.abspath(__file__)))
R = json.load(open(os.path.join(V, "seeded", "RESULTS.json")))
T = {}
p = os.path.join(V, "seeded", "RESULTS_thorough.json")
if os.path.exists(p):
    T = json.load(open(p))


def caught(res):
    return sorted(c for c, v in res.items() if isinstance(v, dict) and v.get("exit") == 1)


def first_key(res, c):
    k = (res.get(c) or {}).get("keys") or []
    return k[0] if k else ""


rows = []
for name in sorted(R):
    res = R[name]
    d = os.path.join(V, "seeded" if not name.startswith(("revert", "benign")) else "selftest", name)
    summary = ""
    prop = ""
    m = os.path.join(d, "meta.json")
    if os.path.exists(m):
        mm = json.load(open(m))
        summary = mm.get("summary", "")
        prop = mm.get("property", "")
    elif os.path.exists(os.path.join(d, "what.txt")):
        summary = open(os.path.join(d, "what.txt")).read().strip()
    c = caught(res)
    tc = caught(T.get(name, {})) if name in T else []
    own = prop in c if prop else bool(c)
    key = first_key(res, prop if prop in c else (c[0] if c else ""))
    rows.append((name, prop, c, tc, own, key, summary))

print("| change | what it does | caught by (quick) | first reported instance |")
print("|---|---|---|---|")
for name, prop, c, tc, own, key, summary in rows:
    if name.startswith("benign"):
        continue
    extra = ""
    if not c and tc:
        extra = " thorough: " + " ".join(tc)
    print("| %s | %s | %s%s | %s |" % (name, summary.replace("|", "/")[:230], " ".join(c) or "**none**", extra, ("`%s`" % key.replace("|", "¦")[:110]) if key else ""))
seeds = [r for r in rows if not r[0].startswith(("revert", "benign"))]
print()
print("seeded changes: %d, caught by at least one check: %d, caught by the check of their own property: %d" % (
    len(seeds), sum(1 for r in seeds if r[2]), sum(1 for r in seeds if r[4])))
rev = [r for r in rows if r[0].startswith("revert")]
print("fix reverts: %d, caught (quick or thorough): %d" % (len(rev), sum(1 for r in rev if r[2] or r[3])))
ben = [r for r in rows if r[0].startswith("benign") and not r[0].startswith("benign_rf_")]
print("own behaviour-preserving edits: %d, alarms: %d" % (len(ben), sum(1 for r in ben if r[2])))
rf = [r for r in rows if r[0].startswith("benign_rf_")]
print("independent refactorings: %d, alarms: %d" % (len(rf), sum(1 for r in rf if r[2])))
