#!/bin/bash
# usage: confirm_seed.sh <seed dir with patch.diff demo.rs meta.json> -> prints CONFIRMED / REJECTED <reason>
# Works in a scratch worktree of /repo under /tmp (created on demand, shared between calls, remove with
# `git -C /repo worktree remove --force /tmp/wt/confirm`).
set -u
S=$(realpath "$1")
W=${CONFIRM_WT:-/tmp/wt/confirm}
L=/tmp/$(basename $W)
if [ ! -d $W ]; then git -C /repo worktree add -q --detach $W HEAD || exit 2; fi
cd $W && git checkout -q --detach $(git -C /repo rev-parse HEAD) && git checkout -- . && rm -f tests/seed_demo.rs
FEAT=$(python3 -c "import json,sys; print(json.load(open('$S/meta.json')).get('features','') or '')")
FARG=""; [ -n "$FEAT" ] && FARG="--features $FEAT"
export CARGO_NET_OFFLINE=true
git apply --check $S/patch.diff || { echo "REJECTED patch does not apply"; exit 1; }
cp $S/demo.rs tests/seed_demo.rs
# 1. unmodified: demo passes
cargo test --offline $FARG --test seed_demo >$L.demo0.log 2>&1 || { echo "REJECTED demo fails on the unmodified tree"; rm -f tests/seed_demo.rs; exit 1; }
# 2. modified: builds (default + serde), suite passes, demo fails
git apply $S/patch.diff
cargo build --offline --features serde >$L.build.log 2>&1 || { echo "REJECTED does not build with serde"; git checkout -- .; rm -f tests/seed_demo.rs; exit 1; }
cargo test --offline --lib >$L.lib.log 2>&1 || { echo "REJECTED lib tests fail with the change"; git checkout -- .; rm -f tests/seed_demo.rs; exit 1; }
cargo test --offline --test dateutils >$L.du.log 2>&1 || { echo "REJECTED dateutils tests fail with the change"; git checkout -- .; rm -f tests/seed_demo.rs; exit 1; }
if cargo test --offline $FARG --test seed_demo >$L.demo1.log 2>&1; then echo "REJECTED demo passes with the change"; git checkout -- .; rm -f tests/seed_demo.rs; exit 1; fi
git checkout -- . ; rm -f tests/seed_demo.rs
echo "CONFIRMED $(grep -c '^test .* ok' $L.lib.log) lib tests ok, demo fails with change: $(grep -E '^test result' $L.demo1.log | head -1)"
