#!/bin/bash
# usage: try_seed.sh <dir with patch.diff> <Cxx> [Cyy ...]   : apply the change to /repo, run the checks, undo it
set -u
S=$(realpath "$1"); shift
cd /repo && git diff --quiet || { echo "/repo is dirty"; exit 2; }
git -C /repo apply $S/patch.diff || exit 2
for c in "$@"; do
  out=$(cd /verif && ./check $c 2>&1); rc=$?
  echo "== $c exit=$rc"; echo "$out" | grep -E "^VIOLATION|^KNOWN|^  [A-Za-z.]+\|" | head -8
done
git -C /repo checkout -- .
