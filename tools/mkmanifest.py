#!/usr/bin/env python3
"""Regenerates /verif/MANIFEST.json from the claim table below (keeps the manifest valid at all times)."""
import json
import os

VERIF = os.path.dirname(os.path.dirname(os.path.abspath(__file__)))

# property id -> (technique, level text, level note, design ref)
CLAIMS = {}
NOT_APPLICABLE = {}


def claim(pid, technique, text, note, ref):
    CLAIMS[pid] = (technique, text, note, ref)


exec(open(os.path.join(VERIF, "tools", "claims.py")).read())

ids = [json.loads(l)["id"] for l in open(os.path.join(VERIF, "properties.jsonl"))]
checks = []
for pid in ids:
    if pid not in CLAIMS:
        continue
    technique, text, note, ref = CLAIMS[pid]
    checks.append({
        "property_id": pid,
        "quick_cmd": "./check %s --tier quick" % pid,
        "thorough_cmd": "./check %s --tier thorough" % pid,
        "evidence_file": "/verif/evidence/%s.json" % pid,
        "replay_cmd_template": "./check %s --replay {path}" % pid,
        "engine": "mirfacts+rules",
        "level_claimed": {"category": "other", "text": text, "design_ref": ref},
        "level_note": note,
        "technique": technique,
    })
na = []
for pid in ids:
    if pid in CLAIMS:
        continue
    na.append({"property_id": pid, "reason": NOT_APPLICABLE.get(pid, "check not built yet (static-analysis machinery under construction, see DESIGN.md section 10)")})

m = {
    "version": 1,
    "setup_cmd": "cd /verif/driver && CARGO_NET_OFFLINE=true cargo +nightly build --release --offline && cd /verif && python3 analysis/facts.py default serde",
    "hooks": {
        "guard": "chrono_verif",
        "enable": "no hooks: the rustc_private driver sees private items, nothing in /repo is instrumented",
        "baseline_off_cmd": "cd /repo && cargo test --workspace --no-fail-fast --offline",
        "source_commits": [],
        "add_only": True,
    },
    "engines": [
        {"name": "mirfacts", "path": "driver/", "serves_properties": ids,
         "kind_free_text": "rustc_private driver (nightly) run as RUSTC_WORKSPACE_WRAPPER under cargo check: dumps MIR, types, resolved callees, compiler-evaluated constants, ADTs and impls of chrono as JSON"},
        {"name": "rules", "path": "analysis/", "serves_properties": sorted(CLAIMS),
         "kind_free_text": "Python rule library over the facts: table/oracle comparison, def-use term reconstruction, finite maps, read/copy/reachability/dominance rules, interval abstract interpretation"},
    ],
    "checks": checks,
    "notes": "Static analysis only. Every check rebuilds the fact file from /repo's current working tree (content-hashed cache under /verif/.cache). "
             "known_findings.txt lists fixed defects and (if any) recorded findings. See DESIGN.md.",
    "not_applicable": na,
}
with open(os.path.join(VERIF, "MANIFEST.json"), "w") as fh:
    json.dump(m, fh, indent=1)
print("MANIFEST.json: %d checks, %d not_applicable" % (len(checks), len(na)))
