#!/usr/bin/env python3
"""Run every check against every seeded change (and the fix reverts in selftest/), each in its own scratch worktree of /repo
under /tmp (removed afterwards), in parallel. Writes seeded/RESULTS.json and prints the detection matrix.
usage: run_seeded.py [--jobs N] [--only id,id] [--checks C01,C02] [--tier quick|thorough]"""
import json
import os
import shutil
import subprocess
import sys
from concurrent.futures import ThreadPoolExecutor

VERIF = os.path.dirname(os.path.dirname(os.path.abspath(__file__)))
IDS = ["C%02d" % i for i in range(1, 21)]


def sh(cmd, **kw):
    return subprocess.run(cmd, shell=True, stdout=subprocess.PIPE, stderr=subprocess.STDOUT, text=True, **kw)


def run_one(name, patch, checks, tier="quick"):
    wt = "/tmp/wt/seedrun_" + name
    out = "/tmp/wt/seedout_" + name
    sh("git -C /repo worktree remove --force %s" % wt)
    r = sh("git -C /repo worktree add -q --detach %s HEAD" % wt)
    if r.returncode != 0:
        return name, {"error": r.stdout[-300:]}
    res = {}
    try:
        r = sh("git -C %s apply %s" % (wt, patch))
        if r.returncode != 0:
            return name, {"error": "patch does not apply: " + r.stdout[-200:]}
        env = dict(os.environ, VERIF_REPO=wt, VERIF_OUT=out)
        for c in checks:
            r = subprocess.run([os.path.join(VERIF, "check"), c, "--tier", tier], stdout=subprocess.PIPE, stderr=subprocess.STDOUT, text=True, env=env, cwd=VERIF)
            keys = [l.strip().split(":")[0] for l in r.stdout.splitlines() if l.startswith("  ") and "|" in l and not l.startswith("  rule")]
            res[c] = {"exit": r.returncode, "violations": r.stdout.count("VIOLATION property="), "keys": keys[:6]}
    finally:
        sh("git -C /repo worktree remove --force %s" % wt)
        shutil.rmtree(out, ignore_errors=True)
        import hashlib
        shutil.rmtree(os.path.join(VERIF, ".cache", "alt_" + hashlib.sha1(wt.encode()).hexdigest()[:10]), ignore_errors=True)
    return name, res


def main():
    jobs = 6
    only = None
    checks = IDS
    tier = "quick"
    a = sys.argv[1:]
    while a:
        x = a.pop(0)
        if x == "--jobs":
            jobs = int(a.pop(0))
        elif x == "--only":
            only = set(a.pop(0).split(","))
        elif x == "--checks":
            checks = a.pop(0).split(",")
        elif x == "--tier":
            tier = a.pop(0)
    items = []
    for d in sorted(os.listdir(os.path.join(VERIF, "seeded"))):
        p = os.path.join(VERIF, "seeded", d, "patch.diff")
        if os.path.exists(p):
            items.append((d, p))
    for d in sorted(os.listdir(os.path.join(VERIF, "selftest"))):
        p = os.path.join(VERIF, "selftest", d, "patch.diff")
        if os.path.exists(p):
            items.append((d, p))
    if only:
        items = [i for i in items if i[0] in only]
    os.makedirs("/tmp/wt", exist_ok=True)
    results = {}
    with ThreadPoolExecutor(max_workers=jobs) as ex:
        for name, res in ex.map(lambda it: run_one(it[0], it[1], checks, tier), items):
            results[name] = res
            caught = sorted(c for c, v in res.items() if isinstance(v, dict) and v.get("exit") == 1)
            print("%-24s caught by: %s" % (name, " ".join(caught) or "-"), flush=True)
    path = os.path.join(VERIF, "seeded", "RESULTS.json" if tier == "quick" else "RESULTS_thorough.json")
    old = {}
    if os.path.exists(path) and only:
        old = json.load(open(path))
    old.update(results)
    json.dump(old, open(path, "w"), indent=1, sort_keys=True)


if __name__ == "__main__":
    main()
