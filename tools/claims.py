# claim table, exec'd by mkmanifest.py
claim("C01",
      "table/constant comparison against an independent calendar oracle; finite maps over the year classes of the 400-year cycle (def-use terms folded, no execution) with a periodicity lemma; derive/layout facts",
      "Decides: every cell of YEAR_TO_FLAGS, MDL_TO_OL, OL_TO_MDL, YEAR_DELTAS, the packed layout and range-end constants, derived Eq/Ord/Hash over the packed field; and, as "
      "complete finite maps over one representative year per year class (quick: 14 classes; thorough: all 400 years of the cycle plus a negative cycle) with the lemma that the "
      "constructors use the year only through year mod 400, its packed position and the range test: from_ymd_opt on every (m in 0..=13, d in 0..=32), from_yo_opt on every ordinal "
      "0..=367, from_isoywd_opt on every (week 0..=54, weekday) incl. spill into neighbour years, month/day/weekday/successor of every date, predecessor / ISO week / day number and "
      "its inverse around every year boundary (thorough: every date), and all constructors, succ/pred and day numbers at both ends of the supported range and the i32 extremes. "
      "Not decided: day-number conversion and ISO week for dates in the middle of a year in the quick tier; years are covered through the class lemma, not one by one.",
      "Trusted: rustc's const evaluator and MIR; specs/tables/calendar_oracle.py (cross-checked against Python datetime on every run); term reconstruction and folding in analysis/sym.py + finmap.py.",
      "DESIGN.md 5/C01, 11.2")
claim("C04",
      "read-set / copy / who-may-write / call-direction / must-pass-through rules over MIR with def-use term reconstruction",
      "Decides the shape clauses of C04 for every execution: ==, <, cmp, hash of DateTime read only the UTC field and delegate to derived NaiveDateTime impls; "
      "zone conversions copy the UTC field; only the confirmed constructors build or assign a DateTime; from-local subtracts / to-local adds the offset down to "
      "the NaiveTime operator with the day carry mapped to pred/succ; every getter, setter and formatter goes through overflowing_naive_local; every function that "
      "re-resolves a modified wall clock filters against MIN_UTC/MAX_UTC; FixedOffset accepts exactly (-86400, 86400). Value-level identities of the round trips are not decided.",
      "Trusted: MIR and type facts of rustc nightly; foreign TimeZone impls are outside the program analysed.",
      "DESIGN.md 5/C04")
claim("C19",
      "finite-map extraction (def-use terms of MIR folded over the finite argument domains), table comparison, narrowing-cast rule",
      "Decides C19 on the whole finite domain without executing the crate: every Weekday/Month function as a 7/12/49-entry map (cyclic-group laws, inverse "
      "numbering, agreeing TryFrom/FromPrimitive tables that reject everything else, no narrowing cast before the table), every WeekdaySet operation over all "
      "128 x 128 sets and 128 x 7 (set, day) pairs against set algebra including first/last/len/split_at, one iterator step from either end for all 128 x 7 states, "
      "the 7-bit invariant, and writer name tables against the scanners' tables. Text parsing of arbitrary strings is decided only as far as the tables.",
      "Trusted: term reconstruction and constant folding in analysis/sym.py + finmap.py (std bit-count helpers modelled); MIR from rustc nightly.",
      "DESIGN.md 5/C19")
claim("C15",
      "interval / variant-set abstract interpretation over MIR (context-sensitive, type invariants, reviewed justification table), call-graph NOREACH, string-progress rule",
      "Decides for every public fallible entry point (216 in the default build, 272 with serde) and every function it reaches that no arithmetic overflow, "
      "division by zero, out-of-bounds index, unwrap/expect of an absent value, panic!/unreachable!/assert!, narrowing cast that loses information, construction of an "
      "out-of-invariant NaiveTime/TimeDelta/FixedOffset/WeekdaySet/Mdf value or out-of-range str slice can happen: each such site is an obligation that the abstract "
      "interpreter proves for all inputs at once, or that a named reviewed justification covers; anything else is reported with its call path. Also: the panicking "
      "naive_local is unreachable from fallible roots/renderers/Serialize, every format-string iterator step consumes input (termination), and re-resolved wall clocks "
      "are range-filtered. The justification table (about 100 sites) is trusted.",
      "Trusted: the abstract semantics in analysis/abs*.py and stdmodels.py; specs/justifications.txt; std callees without a panic model assumed non-panicking; foreign trait impls well-behaved.",
      "DESIGN.md 3, 5/C15")
claim("C06",
      "constant evaluation, acceptance-box extraction from path conditions, sibling/term-shape rules, interval abstract interpretation of time_delta.rs",
      "Decides: the closed range (MIN/MAX, unit factors) as compiler-evaluated constants; TimeDelta::new accepts exactly the range including both corners; every unit "
      "constructor/accessor pairs with its own factor and reads the sign-aware views; every TimeDelta construction site keeps 0 <= nanos < 10^9 and |secs| in range and every "
      "arithmetic operation / cast in time_delta.rs cannot overflow (abstract interpretation, a few sites justified by name); checked_mul/add/sub range-check through new; "
      "comparison derived over (secs, nanos); no product with a truncated quotient. Exactness of results is not decided.",
      "Trusted: analysis/abs*.py, specs/justifications.txt, rustc const evaluation.",
      "DESIGN.md 5/C06")
claim("C07",
      "acceptance-box extraction from path conditions, copy/term-shape rules, finite map of hms over 86400 seconds, interval abstract interpretation of naive/time",
      "Decides: which (hour, minute, second, nanosecond) and (seconds, nanosecond) combinations the constructors accept (boxes read from the path conditions, leap "
      "fraction only on second 59) and what they store; milli/micro constructors' checked factors; with_* replace exactly one component and copy the other; hms() and the "
      "accessors for every second of the day; offset shifts copy the fraction and wrap modulo 86400; sub = add of the negated duration; every NaiveTime construction site keeps "
      "secs < 86400 and frac < 2*10^9 and no arithmetic in naive/time can overflow. The leap-second stepping rules and the difference of two times are not decided.",
      "Trusted: analysis/sym.py, analysis/abs*.py, specs/justifications.txt.",
      "DESIGN.md 5/C07")
claim("C02",
      "constant comparison with the calendar oracle, term-shape/sibling rules (Euclidean split, unit factors), acceptance boxes, interval abstract interpretation",
      "Decides: the epoch constant equals the oracle's day number of 1970-01-01 and is added/subtracted symmetrically; negative inputs floor because the split is "
      "div_euclid/rem_euclid with one divisor D per unit and multiplier M with D*M = 10^9; the day count is compared with the i32 range before the cast; accessor factors "
      "match; wrappers delegate; the nanosecond field is accepted exactly per the NaiveTime box; no arithmetic on these paths can wrap (abstract interpretation). "
      "Equality of both directions for every value and SystemTime interop are not decided.",
      "Trusted: specs/tables/calendar_oracle.py; analysis/sym.py; analysis/abs*.py; specs/justifications.txt.",
      "DESIGN.md 5/C02")
claim("C03",
      "sibling rule over all operator impls, read/copy term rules, iterator step constants, interval abstract interpretation of the checked add/sub paths",
      "Decides: each of the 58 operator impls delegates to the same-direction checked form without arithmetic of its own (so operators agree with the checked forms and "
      "panic only where those refuse); zone-aware addition, subtraction and difference operate on the stored UTC value of both operands; day/week iterators step by "
      "succ/pred and Days(7); on every checked path no arithmetic step or `as i32` cast can wrap for any operand (abstract interpretation). Numerical exactness of the "
      "cycle/carry arithmetic is not decided.",
      "Trusted: analysis/sym.py, analysis/abs*.py, specs/justifications.txt.",
      "DESIGN.md 5/C03")
claim("C08",
      "table comparison inside diff_months, copy/term-shape rules for every with_*, sibling rules, reachability, interval abstract interpretation",
      "Decides: the month-length table used for the day clamp equals the calendar and its February cell is chosen by the *target* year's class; add/sub months pass "
      "+/- the count; every with_* of NaiveDateTime replaces exactly one component and copies the other (DateTime's go through these, see C04); 0-based setters use "
      "checked_add(1); years_since reads month, day (and time) of both operands; NaiveWeek::checked_* never reach the panicking operators; quarter / Month::num_days / "
      "year_ce constants; no arithmetic, cast or index on these paths can trap (abstract interpretation). Value-level correctness of the n-th weekday and week bounds is not decided.",
      "Trusted: specs/tables/calendar_oracle.py; analysis/sym.py; analysis/abs*.py; specs/justifications.txt.",
      "DESIGN.md 5/C08")
claim("C05",
      "path-condition entailment at every Ambiguous construction site (finite set of orderings), match extraction, dominance/dispatch rule",
      "NARROW claim. Decides one clause of C05 and the contract glue: wherever the TZif / TZ-rule lookups build MappedLocalTime::Ambiguous(a, b) the conditions on the "
      "path entail a.ut_offset >= b.ut_offset, i.e. the two candidates are ordered earliest first; earliest()/latest()/single() project components 0 / 1 / Single only; "
      "and_then/map keep the pair order; Cache::offset dispatches `local` false/true to the instant / wall-clock lookup. Which transition applies, gap/fold classification on "
      "the exact second, the hemisphere/sign branches and rule-day arithmetic compare runtime quantities and are not decided by static analysis.",
      "Trusted: analysis/sym.py path enumeration over MIR.",
      "DESIGN.md 5/C05")
claim("C16",
      "interval abstract interpretation of the TZif / TZ-string readers and lookups with the input at full range; read-order, acceptance-box, must-pass-through and allocation-bound rules",
      "Decides the 'survive everything' half for all inputs: from the parser and lookup entry points no slice, index, multiplication of header counts, 64-bit time "
      "addition or rule arithmetic can trap (229 obligations, discharged or justified by name); allocations are sized by header counts already charged against the input; "
      "and structural acceptance facts: blocks and header counts are read in TZif order, rule-day constructors accept exactly the documented ranges, every zone goes "
      "through TimeZone::new -> validate, magic and version bytes. That each conforming file decodes to exactly what was written is not decided.",
      "Trusted: analysis/abs*.py, specs/justifications.txt (about 20 tz_info sites), analysis/sym.py.",
      "DESIGN.md 5/C16")
claim("C17",
      "sibling/guard rules over path conditions, match-table extraction, call-graph NOREACH, interval abstract interpretation of round.rs",
      "NARROW claim. Decides the failure clause and the safety of C17: the three helpers report DurationExceedsLimit exactly for a span that is not expressible in "
      "nanoseconds or is <= 0 and TimestampExceedsLimit for a timestamp outside the i64-nanosecond window, take the remainder only after span > 0, round the non-panicking "
      "wall-clock reading for zone-aware values, use 10^(9 - min(9, d)) for sub-second digits, and contain no arithmetic that can trap. Which multiple is returned, tie "
      "breaking and idempotence are numerical behaviour and are not decided by static analysis.",
      "Trusted: analysis/sym.py, analysis/abs*.py, specs/justifications.txt (the `original +- delta` operator calls are justified by a range argument).",
      "DESIGN.md 5/C17")
claim("C20",
      "sibling rules over the 16 serde helper modules (def-use terms), error-mapping / delegation / reachability rules, interval abstract interpretation, in the `serde` build",
      "Decides in the serde configuration (never compiled by the pinned tests): per unit the serialize accessor, the signed visitor's constructor and the unsigned "
      "visitor's divisor/multiplier (D*M = 10^9) agree across the DateTime<Utc> and NaiveDateTime families and the _option variants; failing conversions map to "
      "invalid_ts and no visitor unwraps; string forms go through the default writers / RFC 3339 writer and FromStr (reducing to C09/C10); TimeDelta deserializes only "
      "through TimeDelta::new; serialization never reaches the panicking naive_local; no panic or lossy cast in any serde function (abstract interpretation). The round "
      "trip through concrete data formats is not decided.",
      "Trusted: analysis/sym.py, analysis/abs*.py, specs/justifications.txt; serde's own crates are outside the analysed program.",
      "DESIGN.md 5/C20")
claim("C12",
      "table extraction from MIR (specifier -> item, composites, pad modifiers, numeric writers) compared with chrono's documented table; interval abstract interpretation of the writers (narrowing casts, digit domains)",
      "Decides: the complete specifier table of the strftime parser (every character sequence after '%', 46 single specifiers, 9 composites, 3 padding modifiers x all "
      "specifiers) equals the documented table transcribed by hand, composite = expansion, modifiers only on single numeric items, unknown specifiers are errors; each numeric "
      "item is written from the documented accessor with the documented width and the explicit-sign rule for years outside 0..=9999; no narrowing cast or single-digit write in "
      "any writer can leave its domain for any value (so %C of year 12345 cannot print garbage). The rendered text per value (week formulas, names lookup, rounding) is not decided.",
      "Trusted: specs/tables/strftime_spec.py (hand transcription of the documentation); analysis/sym.py; analysis/abs*.py; specs/justifications.txt.",
      "DESIGN.md 5/C12, appendix A.7")
claim("C13",
      "sibling rule between the reader's and the writer's per-item tables extracted from MIR; exhaustiveness of explicit match arms; name-table comparison",
      "NARROW claim. Decides that reader and writer agree item by item: for each of the 21 Numeric items the reader's max width covers the written width, a sign is read "
      "where %Y/%G/%s can write one, and the Parsed field set is the one the written accessor denotes; every Fixed/internal item has an explicit arm on both sides; the scanners' "
      "month/weekday tables equal the default-locale writer tables. The round trip for concrete values, white space and letter case are not decided.",
      "Trusted: specs/tables/strftime_spec.py pairing table; analysis/sym.py.",
      "DESIGN.md 5/C13, appendix A.1")
claim("C14",
      "must-read analysis over every Ok path (type-based read sets on MIR places with closure summaries), acceptance boxes of the setters, setter->field map, interval abstract interpretation of parsed.rs",
      "Decides: no control-flow path of to_naive_date returns Ok without having consulted each of the 14 date fields (so a verifier cannot silently skip a supplied "
      "field), likewise the time fields in to_naive_time and timestamp/offset in the date-time resolvers; each setter accepts exactly its documented range and stores "
      "into the field(s) it is named after through set_if_consistent (equal value kept, different value rejected); the 1970-2069 pivot constants; no arithmetic, cast or "
      "unwrap in parsed.rs can trap whatever values the public fields hold. That resolution succeeds exactly on the documented combinations and the error classification are not decided.",
      "Trusted: analysis/sym.py path enumeration; read sets are syntactic (a field read but ignored is not detected); analysis/abs*.py; specs/justifications.txt.",
      "DESIGN.md 5/C14")
claim("C09",
      "writer/reader skeleton agreement extracted from MIR (literal writes, compiled format templates, FromStr item lists), sign-derivation rule, name-table comparison",
      "NARROW claim. Decides the structural necessary condition of the round trip: the separators and field order written by Debug/Display of NaiveDate, NaiveTime, "
      "NaiveDateTime equal their FromStr item lists; DateTime's forms are those plus the offset and the relaxed RFC 3339 reader accepts every separator they emit; "
      "FixedOffset writes the sign of the whole offset and |offset| as hh:mm[:ss]; Weekday/Month names vs scanners. One recorded finding: NaiveDateTime's Display (space) "
      "does not parse back with FromStr ('T' only). Year sign/width, fraction digit choice, second 60 and padding, i.e. the round trip for concrete values, are not decided.",
      "Trusted: analysis/sym.py; the decoding of rustc's compiled fmt templates (unknown opcodes fail closed).",
      "DESIGN.md 5/C09")
claim("C10",
      "call-sequence / argument-table extraction of the strict reader against the RFC 3339 ABNF, writer skeleton and threshold rules, who-may-call rule for character predicates, interval abstract interpretation",
      "NARROW claim. Decides the shape of both sides: on every success path the strict reader is exactly the fixed-width field sequence of the RFC 3339 ABNF with the "
      "documented latitude (T/t/space, Z/z, any fraction length >= 1 digit, U+2212), a mandatory colon and minutes in the offset, the +-23:59 bound and rejection of "
      "trailing input; the writer emits the same skeleton, folds a leap second at exactly nano >= 10^9, truncates fractions by division only and writes +hh:mm with Z only "
      "for offset 0 on request; digits and letters are classified with ASCII-only predicates; no panic / lossy cast. That the accepted language equals the grammar for "
      "every string, value correctness and the round trip are not decided.",
      "Trusted: analysis/sym.py; analysis/abs*.py; specs/justifications.txt; the ABNF transcription in DESIGN appendix A.5.",
      "DESIGN.md 5/C10")
claim("C11",
      "table extraction of the obsolete zone names against RFC 2822 section 4.3, acceptance boxes of the year-length rule, reader width table, writer skeleton/indexing rules, interval abstract interpretation",
      "NARROW claim. Decides: the reader's zone-name table (UT, GMT, Z, EST..PDT with their offsets, military letters except J as +0000, nothing else) equals the RFC's; "
      "two-digit years pivot at 50 and three-digit years add 1900; day 1-2 digits, year >= 2 digits, hh/mm/ss exactly 2; the writer emits `Www, D Mon YYYY HH:MM:SS +HHMM` "
      "indexing the Sunday-first weekday table and the month table correctly with offset format {minutes, no colon, no Z, zero-padded}; a contradicting weekday reaches the "
      "resolution checks (C14); no panic, lossy cast or out-of-range digit in reader, comment scanner, writer and offset writer. Optional parts, comments, white-space runs "
      "and returned values (the round trip) are not decided.",
      "Trusted: the RFC 2822 section 4.3 transcription in analysis/props/c11.py; analysis/sym.py; analysis/abs*.py; specs/justifications.txt.",
      "DESIGN.md 5/C11, appendix A.4")
claim("C18",
      "decision-table extraction from path conditions, who-may-reference rule for the thread-local, call-order and constant rules",
      "NARROW claim (the property quantifies over histories and schedules, which static analysis cannot decide). Decides the structure behind it: the zone cache is a "
      "thread_local referenced by one function only; on every refresh the TZ variable is re-read; the reload decision over (old source kind, new source kind, hash/mtime "
      "differ) is exactly `kind changed or value differs => reload`, the reloaded zone is stored before any lookup, the cache is reused only while < 1 s has elapsed; zone "
      "selection falls back local -> system -> UTC; from_posix_tz's dispatch order; relative zone names are opened only under the zoneinfo directories. Timing, file-system "
      "state and the behaviour over sequences of environment changes are not decided.",
      "Trusted: analysis/sym.py path enumeration.",
      "DESIGN.md 5/C18")

# ---- additions after the second round of seeded changes (rules added for what was missed; see DESIGN.md 11.7) ------------------
def also(pid, text, technique=None):
    t, x, n, r = CLAIMS[pid]
    CLAIMS[pid] = ((t + "; " + technique) if technique else t, x + " " + text, n, r)


also("C01", "Also: Mdf::new accepts exactly month <= 12, day <= 31 tested on the unshifted arguments (acceptance box).")
also("C02", "Also: no TimeZone::timestamp_* wrapper decides on its own (every return lies behind the call of the core constructor it wraps).", "must-pass-through")
also("C03", "Also: the remaining-length unit of each date iterator matches its step (num_days / num_weeks).")
also("C05", "Also (rule-day arithmetic and lookups, structural parts only): the month-length and cumulative-day tables of RuleDay::transition_date against the calendar incl. the leap-year "
            "array literal; in the wall-clock lookup no comparison relates the wall-clock argument to a bare UTC transition instant (tag propagation: local vs UTC coordinates); the UTC "
            "lookup counts a transition at its own instant (binary_search_by_key arms / partition_point predicate; other idioms: undecided, no alarm).",
     "coordinate-tag propagation over MIR locals")
also("C06", "Also: the two Sum implementations fold with the same operator from zero.")
also("C07", "Also: every operator impl of NaiveTime delegates to the core function of its own direction and operand kind; Add/Sub<std Duration> reduce by the same constants.")
also("C09", "Also: in parse_internal both sign arms read an unbounded digit run; in NaiveTime's Debug the fraction tested for trailing zeros is the fraction printed (one base term per path).")
also("C10", "Also: no value a scanner returned is dropped before a Parsed setter (term flow on every successful path); the plain four-digit year form is used exactly for 0..=9999.")
also("C11", "Also: no scanned value is dropped before a Parsed setter; the year is written as exactly four digits.")
also("C12", "Also: the sub-second value tested and printed, and the offset value divided into hours/minutes/seconds, are one term per path (no mixing of rounded and unrounded / reduced and raw values).")
also("C13", "Also: no scanned value is dropped; every white-space test of tokenizer and reader is the Unicode predicate; both sign arms agree.")
also("C14", "Also: each of the three consistency checks of to_naive_date reads exactly its own field group; to_datetime_with_timezone returns the candidate whose offset check held (and for Ambiguous only when the other failed).")
also("C15", "Also: a documented-panicker boundary (a call from non-panicking code into an operator / `# Panics` function must exclude the panic at the call site); no `str` slice offset derives from a "
            "count of characters (tag propagation); compile-fail witnesses that the invariant-carrying types are closed (35 doctests, each with a compiling twin). Thorough tier: the same for "
            "every public function that is not a documented panicker, and the builds with unstable-locales and without std.",
     "compile-fail witnesses, coordinate-tag propagation")
also("C16", "Also: validate() range-checks the type index of every transition (recognised counting loop: start 0, step 1, guard len, check dominates the increment, other exits are Err) and the "
            "lookups index local_time_types only with 0 or a validated index; the reads of every chunks_exact record tile the record exactly (linear boundary forms).",
     "counting-loop recognition, record-layout tiling")
also("C19", "Also: FromStr for Weekday/Month returns Ok only after finding the scanner's remainder empty; WeekdaySet::from_iter has no truncating adapter.")
also("C20", "Also: every ts_* deserialize requests i64 (option: deserialize_option then i64), the primitive its serialize wrote.")

# ---- additions after the third round of seeded changes -------------------------------------------------------------------------
also("C01", "Also: each Mdf::with_* replaces exactly its own bit lane (mask and shift).")
also("C05", "Also: parse_offset / parse_rule_time_extended multiply every component by the sign; days_since_unix_epoch equals the calendar's day count on one full 400-year period of each "
            "of its two branches (finite map) with a periodicity lemma on the uses of `year` for all other years.")
also("C07", "Also: NaiveDateTime::checked_add/sub_signed produce a value only through NaiveTime::overflowing_add/sub_signed; the provided Timelike::num_seconds_from_midnight reads hour, minute, second only.")
also("C08", "Also: NaiveWeek::checked_first_day / checked_last_day as finite maps at both ends of the date range and around every kind of year boundary, for all seven week starts (thorough: every day of the representative years).",
     "finite maps at the range ends")
also("C09", "Also: Month::from_str maps scanned index k to month k+1; the relaxed RFC 3339 reader rejects no scanned value on its own.")
also("C10", "Also: the readers reject a scanned value on their own only where the RFC says so (strict: offset beyond 23:59).")
also("C11", "Also: every accepting path tries the comment scanner; no value rejection of its own.")
also("C12", "Also: each numeric item is rendered only from pattern-bound (present) date/time parts, never from a defaulted one; %s needs both.")
also("C13", "Also: %p and %P select the AM/PM string by the same test (hour12().0); the two long-name scanners compare the suffix through the same calls.")
also("C14", "Also: no function assigns a Parsed field directly and `&mut` of a field is taken only in the setters (who-may-write).", "who-may-write")
also("C16", "Also: parse_offset's sign shape; the abbreviation index read from the file is compared with header.char_count on every way to the slicing of the name table.")
also("C17", "Also: the span that is classified is the caller's span unmodified; the input is returned unchanged exactly on the paths that tested stamp % span == 0.")
also("C18", "Also: in Cache::offset the staleness test dominates both lookups; a leading ':' is stripped before the file lookup.")
also("C20", "Also: TimeDelta's Serialize writes the raw (secs, nanos) fields that Deserialize hands to TimeDelta::new.")

# ---- additions after the fourth round of seeded changes ------------------------------------------------------------------------
also("C01", "Also: from_ordinal_and_flags accepts exactly ordinal 1..=366 on the argument and MIN_YEAR..=MAX_YEAR; year_ce's BCE branch is 1 - year.")
also("C02", "Also: the wrappers hand the instant to the zone through from_utc_datetime only.")
also("C03", "Also: every binary operator impl passes its left operand as receiver / first argument of the function it delegates to.")
also("C04", "Also: TimeZone::timestamp_* wrappers convert through from_utc_datetime only (shared with C02).")
also("C06", "Also: every value checked_add / checked_sub return is the result of TimeDelta::new.")
also("C08", "Also: each DateTime::with_X forwards to NaiveDateTime::with_X and consults at most the getter X().")
also("C10", "Also: the fraction is printed with one format template per width and the three templates differ only in the width 3 / 6 / 9.")
also("C13", "Also: a supplied offset is never replaced by the default in to_datetime (shared with C14).")
also("C14", "Also: to_datetime uses the default offset 0 only where the offset field was found empty.")
also("C15", "Also: a justification covers only as many source lines as it was reviewed for; an additional undischarged site with the same description is reported.")
also("C16", "Also: both LocalTimeType constructors exclude ut_offset == i32::MIN on every Ok path; in the version 2/3 arm of parse() the footer is always present when the new-line tests run.")
also("C17", "Also: every Ok path of the three rounding helpers has taken timestamp_nanos_opt() (one epoch basis for all spans).")

# ---- additions after the fifth round of seeded changes -------------------------------------------------------------------------
also("C01", "Also: the provided Datelike::num_days_in_month passes month() and the proleptic year() of self to Month::num_days.")
also("C03", "Also: the length hint of the date iterators is exact: lower = upper = the distance to NaiveDate::MAX in the iterator's unit, without a constant adjustment.")
also("C04", "Also: earliest() / latest() / single() of a unique result return its only component (shared with C05).")
also("C05", "Also: in both AlternateTime lookups no integer value combines the rule day of one transition with the time of day of the other (tag propagation).")
also("C07", "Also: the provided Timelike::hour12 as a complete finite map over hour 0..=23.", "finite maps")
also("C09", "Also: NaiveDate's Debug uses the plain four-digit year form exactly for 0..=9999.")
also("C11", "Also: both time-colon probes of the reader skip white space before the colon.")
also("C13", "Also: the year / century / two-digit-year combination rule and the Div/Rem pairing of the consistency checks (shared with C14).")
also("C14", "Also: resolve_year as a finite map over boundary values of each argument and all two-digit years against the documented rule (1970..=2069 pivot, full year wins if consistent, century alone is "
            "not enough); the offset check holds when no offset was supplied; a *_div_100 field is compared with year / 100 and a *_mod_100 field with year % 100, never crosswise.", "finite maps")
also("C16", "Also: every Ok path of Header::new established type_count != 0, char_count != 0 and each indicator count in {0, type_count} for that very count; every Ok path of from_tz_string found the "
            "cursor empty after the last cursor-advancing call.")
also("C17", "Also: TimestampExceedsLimit is reported only as the ok_or of timestamp_nanos_opt().")
also("C18", "Also: a TZ value is read as a POSIX rule only after the zone-file lookup was tried for it, on every path.")

# ---- region-representative value maps (term folding on boundary arguments; DESIGN 11.2) and the rules after the sixth round ----------------
VM = "term folding on region representatives (value maps; evaluation on boundary arguments, not a proof for all inputs)"
also("C02", "Also (value map): from_timestamp / _millis / _micros / _nanos and all timestamp accessors folded on both sides of every day / second / unit / leap-box / range boundary, and the SystemTime "
            "conversions in both directions with the std calls symbolic, equal the calendar oracle.", VM)
also("C03", "Also (value map): add_days, checked_add/sub_days, checked_add/sub_signed and signed_duration_since of NaiveDate folded for one year per year class, the common years divisible by 4 and both "
            "range ends with day counts on both sides of every piece boundary equal day-number arithmetic.", VM)
also("C05", "Also (value map): RuleDay::unix_time for every Mm.w.d / Jn / n rule day per year class; AlternateTime::find_local_time_type and ::find_local_time_type_from_local for a family of nine rules "
            "(both hemispheres, negative DST, Julian forms, negative and > 24 h times) on both sides of every transition, gap and fold boundary equal the calendar oracle (year of the instant supplied by the oracle).", VM)
also("C06", "Also (value map): checked_add/sub/mul/div, abs, neg, new, every unit constructor and accessor folded on all region boundaries of (secs, nanos) equal exact integer arithmetic; new piece boundaries are reported.", VM)
also("C07", "Also (value map): overflowing_add_signed / overflowing_sub_signed / signed_duration_since for ordinary and leap-second operands on all region boundaries equal the documented time-line rule.", VM)
also("C08", "Also (value map): with_year / _month(0) / _day(0) / _ordinal(0), years_since and from_weekday_of_month_opt on all region boundaries equal the calendar oracle.", VM)
also("C14", "Also (value map): to_naive_date for every documented sufficient combination x year form, alone, with each further field consistent / contradicting / removed; to_naive_time over its presence "
            "patterns; to_naive_datetime_with_offset with complete fields and a timestamp that is consistent (incl. both readings of second 60) or off by 1 s, 2 s, a minute, a day.", VM)
also("C17", "Also (value map): duration_round / _trunc / _round_up (generic helpers, the receiver's + and - symbolic) and round_subsecs / trunc_subsecs on every residue boundary in both signs for 14 spans and "
            "digit counts 0..=10, and the failure classes, equal floor / ceiling / nearest-ties-up in exact integers; the Display text of each RoundingError names its own subject.", VM)
also("C01", "Also: IsoWeek::year / week / week0 as a complete finite map over week 1..=53 x flags.")
also("C09", "Also: write_hundreds(n) writes the two decimal digits of n for every n in 0..=99 (computed or table idiom) and refuses n >= 100; the fraction scale tables of the scanners cell by cell.")
also("C10", "Also: the fraction scale tables 10^(9-k); in write_rfc3339 every fraction printed or tested on a path derives from the one leap-reduced nanosecond() value; format_fixed hands the RFC 3339 / 2822 writers the "
            "bound date and time unmodified.")
also("C11", "Also: every accepting path of parse_rfc2822 passes scan::space exactly four times; format_fixed hands write_rfc2822 the bound date and time unmodified.")
also("C12", "Also: the six format templates of write_n as siblings (always-sign = plain + one sign flag for every padding; the paddings differ).")
also("C13", "Also: parse_from_str and parse_and_remainder of each type resolve through the same Parsed resolver; the fraction scale tables.")
also("C16", "Also: parse_offset / parse_rule_time / parse_rule_time_extended weigh the scanned (hour, minute, second) with 3600 / 60 / 1 in that order.")
also("C18", "Also: TimeZone::from_file reads its File argument to the end without a limiting adapter; Source::new hashes the bytes of the unmodified TZ value.")
also("C20", "Also: every string-serialized type requests deserialize_str; no ts_*_option visit_some swallows the inner error.")
also("C04", "Also (value map): checked / overflowing offset shifts of NaiveDateTime, from_utc_datetime / from_local_datetime of a FixedOffset and naive_local / overflowing_naive_local / timestamp / naive_utc of DateTime "
            "folded on both sides of midnight, a leap second, year ends and both range ends for offsets up to +-(24 h - 1 s) equal UTC + offset with the fraction kept; the checked forms refuse exactly outside MIN..=MAX.", VM)
also("C20", "Also (value map): visit_i64 / visit_u64 of all eight ts_* visitors on all unit and range boundaries build exactly value * unit after the epoch or refuse.", VM)

# ---- after the seventh round -----------------------------------------------------------------------------------------------------------
also("C03", "Also: each date iterator yields the value it held before the step, in both directions.")
also("C07", "Also (value map): NaiveDateTime::signed_duration_since across a day boundary with ordinary and leap-second operands.", VM)
also("C09", "Also: FixedOffset::from_str hands the scanned offset to east_opt unmodified.")
also("C10", "Also (value map): OffsetFormat::format, with its output calls logged, writes the documented text over a one-factor-at-a-time design of its formats and 35 boundary offsets.", VM)
also("C11", "Also (value map): the offset writer as for C10.", VM)
also("C12", "Also (value maps with the output calls logged): OffsetFormat::format over its formats and boundary offsets; write_two for 0..=99 x 3 paddings; write_year on both sides of 0 / 1000 / 9999. "
            "Also: every fmt::Result in the writers is consumed (`?`, match, return) before it is overwritten or the function ends.", VM)
also("C13", "Also (value maps): the offset writer and the two-digit writer as for C12.", VM)
also("C14", "Also (value map): to_fixed_offset builds the offset that many seconds east, refuses +-24 h and an absent field.", VM)
also("C16", "Also: in validate() the leap-second loop dominates every Ok return. (The E1 rule of this property was blind to sites first reached below a documented panicker until the context-bit repair; see DESIGN 11.2.)")
also("C18", "Also: nothing in offset::local::inner reaches process-wide synchronised state (OnceLock, Mutex, atomics); find_tz_file decides by opening, not by metadata.")
# ---- after the eighth round ------------------------------------------------------------------------------------------------------------
_W = "Also: every panicking wrapper `name` of the type calls exactly its own fallible sibling `name_opt` / `try_name`, with its own parameters in order (a wrapper unwrapping the wrong sibling type-checks)."
also("C01", _W)
also("C02", _W)
also("C04", "Also: FixedOffset::east / west call their own _opt sibling; checked_add/sub_days and checked_add/sub_months and map_local keep only a unique resolution (`single`, never `earliest` / `latest`).")
also("C06", _W)
also("C07", _W)
also("C13", "Also: the item lists behind %r / %c / %x / %X (shared with C12): a Space item turned into a Literal formats the same but no longer parses wider white space.")
_O = "Also: every Add/Sub/AddAssign/SubAssign impl delegates in its own direction to the method for its right-hand type (a `-` that calls checked_add_* type-checks), and std Durations are converted whole by TimeDelta::from_std."
also("C03", _O)
also("C08", _O)
also("C02", "Also: each TimeZone::timestamp_* wrapper calls the constructor it wraps at one site, on its own parameters (no retry with adjusted arguments).")
also("C13", "Also: the long-name scanners test the remaining length only against the suffix's own length (a constant cut-off above the shortest suffix skips June / July).")
also("C19", "Also: the long-name scanners behind Month / Weekday FromStr: same calls in both, length tested only against the suffix's own length (shared with C13).")
also("C20", "Also: Weekday and Month, like the date and time types, write a string and no other Serializer primitive (their Deserialize requests deserialize_str).")
_Y = "Also: write_rfc3339's signed-year format template is one zero-padded placeholder of width 5, read relative to the 3 / 6 / 9 fraction templates of the same function."
also("C10", _Y)
also("C12", _Y)
also("C16", "Also: parser::parse enables the footer-string extensions for Version::V3 only (read from the `== Version::V3` argument or from a match on the version that selects the flag; other spellings are left undecided).")
also("C16", "Also (error discipline): in validate(), TimeZone::new and parser::parse no path on which an in-crate Result-returning callee came back Err ends in acceptance.")
also("C18", "Also: a ':'-prefixed TZ value is never read as a POSIX rule (where the colon test holds no path reaches TransitionRule::from_tz_string).")
also("C18", "Also: wherever the zone cache is built (creation and refresh), the Source remembered for the change test and the zone loaded come from one and the same TZ value.")
also("C14", "Also: in the timestamp branch of to_naive_datetime_with_offset the year / ordinal / hour / minute setters read one and the same date-time term on every path (469 paths).")
