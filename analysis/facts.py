"""Build / load the fact file (E0) for one cargo configuration of /repo.

The fact file is produced by the rustc_private driver `mirfacts` injected as
RUSTC_WORKSPACE_WRAPPER under `cargo +nightly check`. A fact file is reused only when the
content hash of /repo's sources, manifest, lock file and of the driver binary is identical,
so every verdict is about the current working tree.
"""
import fcntl
import hashlib
import json
import os
import re
import shutil
import subprocess
import sys
import time

VERIF = os.path.dirname(os.path.dirname(os.path.abspath(__file__)))
REPO = os.environ.get("VERIF_REPO", "/repo")
CACHE = os.path.join(VERIF, ".cache") if REPO == "/repo" else os.path.join(VERIF, ".cache", "alt_" + hashlib.sha1(REPO.encode()).hexdigest()[:10])
DRIVER = os.path.join(VERIF, "driver", "target", "release", "mirfacts")

CONFIGS = {
    "default": ["--lib"],
    "serde": ["--lib", "--features", "serde"],
    "locales": ["--lib", "--features", "serde,unstable-locales"],
    "nodefault": ["--lib", "--no-default-features", "--features", "alloc"],
}


def _hash_tree():
    h = hashlib.sha256()
    files = []
    for root, dirs, fs in os.walk(os.path.join(REPO, "src")):
        dirs.sort()
        for f in sorted(fs):
            files.append(os.path.join(root, f))
    for f in ("Cargo.toml", "Cargo.lock"):
        p = os.path.join(REPO, f)
        if os.path.exists(p):
            files.append(p)
    files.append(DRIVER)
    for p in files:
        h.update(p.encode())
        with open(p, "rb") as fh:
            h.update(hashlib.sha256(fh.read()).digest())
    return h.hexdigest()[:20]


def sysroot():
    return subprocess.check_output(["rustc", "+nightly", "--print", "sysroot"], text=True).strip()


def build_driver():
    if os.path.exists(DRIVER):
        return
    subprocess.check_call(["cargo", "+nightly", "build", "--release", "--offline"],
                          cwd=os.path.join(VERIF, "driver"))


def facts_path(config):
    return os.path.join(CACHE, "facts_%s_%s.json" % (config, _hash_tree()))


def ensure(config, verbose=True):
    """returns path of an up-to-date fact file for `config`, building it if needed"""
    os.makedirs(CACHE, exist_ok=True)
    build_driver()
    lock = open(os.path.join(CACHE, "lock_" + config), "w")
    fcntl.flock(lock, fcntl.LOCK_EX)
    try:
        out = facts_path(config)
        if os.path.exists(out) and os.path.getsize(out) > 1000:
            return out
        # drop stale fact files of this config
        for f in os.listdir(CACHE):
            if f.startswith("facts_%s_" % config):
                os.remove(os.path.join(CACHE, f))
        tdir = os.path.join(CACHE, "target_" + config)
        # cargo's freshness cache would skip the wrapper: forget chrono's fingerprints
        fp = os.path.join(tdir, "debug", ".fingerprint")
        if os.path.isdir(fp):
            for f in os.listdir(fp):
                if f.startswith("chrono-"):
                    shutil.rmtree(os.path.join(fp, f), ignore_errors=True)
        env = dict(os.environ)
        env["LD_LIBRARY_PATH"] = sysroot() + "/lib"
        env["RUSTFLAGS"] = "-Zmir-opt-level=0 -Awarnings"
        env["RUSTC_WORKSPACE_WRAPPER"] = DRIVER
        env["CARGO_TARGET_DIR"] = tdir
        env["CARGO_NET_OFFLINE"] = "true"
        tmp = out + ".tmp"
        if os.path.exists(tmp):
            os.remove(tmp)
        env["MIRFACTS_OUT"] = tmp
        env["MIRFACTS_CRATE"] = "chrono"
        t0 = time.time()
        cmd = ["cargo", "+nightly", "check", "--offline"] + CONFIGS[config]
        r = subprocess.run(cmd, cwd=REPO, env=env, stdout=subprocess.PIPE, stderr=subprocess.STDOUT, text=True)
        if r.returncode != 0 or not os.path.exists(tmp):
            sys.stdout.write(r.stdout[-6000:])
            raise SystemExit("facts: `%s` failed for config %s (exit %s, fact file %s)" % (
                " ".join(cmd), config, r.returncode, "present" if os.path.exists(tmp) else "missing"))
        os.rename(tmp, out)
        if verbose:
            print("facts[%s]: rebuilt in %.1fs (%d bytes)" % (config, time.time() - t0, os.path.getsize(out)))
        return out
    finally:
        fcntl.flock(lock, fcntl.LOCK_UN)
        lock.close()


_loaded = {}
_PATH3 = re.compile(r'\b(core|alloc)::([A-Za-z_0-9]+)(?:::(<impl|[A-Za-z_0-9]+))?')


def _std_names(text):
    """A build without `std` prints the library paths that std re-exports as `core::…` / `alloc::…`. Rewrite those to the
    `std::…` spelling of the default build so that the std models, root classification and justification keys are the same
    in every configuration; a path that the default build itself prints under `core::`/`alloc::` (inherent impls, internal
    modules) is kept."""
    keep = set(m.group(0) for m in _PATH3.finditer(open(ensure("default", verbose=False)).read()))

    def sub(m):
        if m.group(0) in keep or (m.group(3) and "%s::%s" % (m.group(1), m.group(2)) in keep and m.group(3) == "<impl"):
            return m.group(0)
        return "std::" + m.group(0).split("::", 1)[1]
    return _PATH3.sub(sub, text)


def load(config):
    if config not in _loaded:
        p = ensure(config)
        with open(p) as fh:
            text = fh.read()
        if config == "nodefault":
            text = _std_names(text)
        d = json.loads(text)
        if d.get("crate") != "chrono":
            raise SystemExit("facts: fact file does not describe crate chrono")
        _loaded[config] = d
    return _loaded[config]


if __name__ == "__main__":
    for c in (sys.argv[1:] or ["default"]):
        print(ensure(c))
