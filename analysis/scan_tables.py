"""Tables read out of format::scan (name scanners), shared by C09, C11, C13, C19."""
from core import AnchorLost
from sym import Sym, pp, const_of, walk_terms
from rules import result_variant, term_result


def _byte_match_table(P, fn):
    """{3-letter lowercase key: result term} of a `match (buf[0]|32, buf[1]|32, buf[2]|32)` scanner"""
    out = {}
    for p in Sym(P, fn).paths():
        if p.end[0] != "return":
            continue
        var, payload = result_variant(p.ret)
        if var != "Ok":
            continue
        key = {}
        for c in p.conds:
            if c[0][0] != "switch" or isinstance(c[2], tuple):
                continue
            d = c[1]
            if d[0] == "bin" and d[1] == "BitOr" and const_of(d[3]) == 32:
                ix = [t for t in walk_terms(d[2]) if t[0] == "index"]
                if ix and ix[0][2][0] == "const":
                    key[ix[0][2][1]] = chr(c[2])
        if sorted(key) != [0, 1, 2]:
            raise AnchorLost("%s: unexpected match shape on path returning %s" % (fn, pp(p.ret)))
        # the remainder must skip exactly the 3 matched bytes
        tup = payload[0]
        rest, val = tup[4][0], tup[4][1]
        skip = [t for t in walk_terms(rest) if t[0] == "agg" and t[3] == "RangeFrom"]
        if not skip or const_of(skip[0][4][0]) != 3:
            raise AnchorLost("%s: remainder does not skip 3 bytes: %s" % (fn, pp(rest)))
        out[key[0] + key[1] + key[2]] = term_result(val)
    return out


def short_month_table(P):
    return _byte_match_table(P, "format::scan::short_month0")


def short_weekday_table(P):
    t = _byte_match_table(P, "format::scan::short_weekday")
    return {k: (v[1] if isinstance(v, tuple) else v) for k, v in t.items()}


def long_suffixes(P):
    def dec(path):
        v = P.value(path)
        return ["".join(chr(b) for b in x) for x in v]
    return dec("format::scan::short_or_long_weekday::LONG_WEEKDAY_SUFFIXES"), dec("format::scan::short_or_long_month0::LONG_MONTH_SUFFIXES")
