"""Tables read out of the format module: strftime specifier -> items, reader Numeric table, writer Numeric table."""
from core import AnchorLost
from sym import Sym, pp, walk_terms, const_of, thaw
from rules import result_variant, is_call, find_calls, unref, term_result

PNI = "format::strftime::StrftimeItems::<'a>::parse_next_item"
ERR = "format::strftime::StrftimeItems::<'a>::error"
_cache = {}


def item_of(v):
    """canonical form of a decoded constant Item / of an Item aggregate term"""
    if isinstance(v, dict):
        var = v.get("variant")
        fv = v.get("fields", {})
        fs = list(fv.values()) if isinstance(fv, dict) else []
        return (var,) + tuple(item_of(x) for x in fs)
    if isinstance(v, tuple) and v and v[0] == "agg":
        return (v[3],) + tuple(item_of(x) for x in v[4])
    if isinstance(v, tuple) and v and v[0] in ("const", "named"):
        c = const_of(v)
        return item_of(thaw(c)) if isinstance(c, tuple) else c
    if isinstance(v, tuple) and v and v[0] in ("ref", "deref"):
        return item_of(v[1])
    if isinstance(v, tuple) and v and v[0] == "call":
        return ("call", v[1].split("::")[-1]) + tuple(item_of(a) for a in v[2])
    if isinstance(v, tuple) and v and v[0] == "field":
        return ("field", item_of(v[1]), v[2])
    if isinstance(v, tuple) and v and v[0] == "as":
        return item_of(v[1])
    return v


def resolve_list(t):
    """python list of canonical items for a constant item-slice term (const list or &LIST[k..])"""
    t = unref(t)
    c = const_of(t) if t[0] in ("const", "named") else None
    if isinstance(c, tuple) and (not c or all(isinstance(y, tuple) for y in c)):
        return [item_of(thaw(y)) for y in c]
    if t[0] == "call" and isinstance(t[1], str) and t[1].endswith("for [T]>::index"):
        base = resolve_list(t[2][0])
        rng = [y for y in walk_terms(t[2][1]) if y[0] == "agg" and y[3] == "RangeFrom"]
        if base is not None and rng and isinstance(const_of(rng[0][4][0]), int):
            return base[const_of(rng[0][4][0]):]
    return None


def resolve_item(t):
    t = unref(t)
    if t[0] == "call" and isinstance(t[1], str) and t[1].endswith("Clone>::clone"):
        return resolve_item(t[2][0])
    if t[0] == "index":
        base = resolve_list(t[1])
        i = const_of(t[2]) if t[2][0] != "local" else None
        if base is not None and isinstance(i, int) and i < len(base):
            return base[i]
    return None


def _queue_of(P, p):
    """the item list assigned to self.queue on this path (None if untouched)"""
    e = p.env.get(1)
    if e is None or e == ("arg", 1):
        return None
    qs = []
    for x in walk_terms(e):
        if x[0] == "upd" and isinstance(x[2], tuple) and x[2][0] == "f":
            r = resolve_list(x[3])
            if r is not None:
                return r
    for x in walk_terms(e):
        if x[0] in ("const", "named"):
            c = const_of(x)
            if isinstance(c, tuple) and c and all(isinstance(y, tuple) for y in c):
                qs.append([item_of(thaw(y)) for y in c])
        if x[0] == "call" and isinstance(x[1], str) and x[1].endswith("for [T]>::index"):
            # queue_from_slice!: &SLICE[1..]
            base = [y for y in walk_terms(x[2][0]) if y[0] in ("const", "named")]
            for b in base:
                c = const_of(b)
                if isinstance(c, tuple) and c and isinstance(c[0], tuple):
                    if isinstance(c[0][0], str) and c[0][0] == "static":
                        v = P.value(c[0][1])
                        qs.append([item_of(y) for y in v][1:])
    return qs[-1] if qs else ("unknown-queue",)


def strftime_paths(P):
    if "sp" in _cache:
        return _cache["sp"]
    out = {}
    for p in Sym(P, PNI).paths(max_paths=80000):
        if p.end[0] != "return" or p.ret is None or result_variant(p.ret)[0] != "Some":
            continue
        chars = ""
        for c in p.conds:
            if c[0][0] == "switch" and not isinstance(c[2], tuple) and isinstance(c[2], int) and c[2] > 32 and any(
                    is_call(x, suffix="Iterator>::next") for x in walk_terms(c[1])):
                chars += chr(c[2])
        if not chars.startswith("%"):
            continue
        # `remainder.starts_with(..)` suffix matches (%:z family)
        for c in p.conds:
            if c[0][0] == "switch" and is_call(c[1], suffix="<impl str>::starts_with"):
                truth = (c[2] != 0) if not isinstance(c[2], tuple) else True
                pat = const_of(unref(c[1][2][1]))
                if truth and pat is not None:
                    chars += pat if isinstance(pat, str) else (chr(pat["char"]) if isinstance(pat, dict) else chr(dict(pat).get("char", 63)) if isinstance(pat, tuple) else "?")
        # `self.queue.is_empty()` evaluated after the queue was assigned a constant list on this path
        infeasible = False
        for c in p.conds:
            if c[0][0] == "switch" and is_call(c[1], suffix="<impl [T]>::is_empty"):
                arg0 = unref(c[1][2][0])
                lst = const_of(arg0)
                rl = resolve_list(arg0)
                if rl is not None:
                    lst = tuple(("x",) for _ in rl)
                elif lst is None and is_call(arg0, suffix="for [T]>::index"):
                    # &STATIC[1..]
                    st_ = [const_of(y) for y in walk_terms(arg0[2][0]) if y[0] in ("const", "named")]
                    rng = [y for y in walk_terms(arg0[2][1]) if y[0] == "agg" and y[3] == "RangeFrom"]
                    for sv in st_:
                        if isinstance(sv, tuple) and sv and sv[0] and sv[0][0] == "static" and rng and isinstance(const_of(rng[0][4][0]), int):
                            n_ = len(P.value(sv[0][1])) - const_of(rng[0][4][0])
                            lst = tuple(("x",) for _ in range(max(n_, 0)))
                if isinstance(lst, tuple) and lst and all(isinstance(y, tuple) for y in lst) and not (lst and isinstance(lst[0], tuple) and lst[0] and lst[0][0] == "static"):
                    truth = (c[2] != 0) if not isinstance(c[2], tuple) else True
                    if truth != (len(lst) == 0):
                        infeasible = True
        if infeasible:
            continue
        payload = p.ret[4][0]
        if is_call(payload, name=ERR) or any(is_call(x, name=ERR) for x in walk_terms(payload) if x is not payload and False):
            kind, item = "error", None
        elif payload[0] == "agg" and payload[1] == "tuple":
            it = payload[4][1]
            if any(is_call(x, name=ERR) for x in walk_terms(it)):
                kind, item = "error", None
            else:
                kind, item = "item", (resolve_item(it) or item_of(it))
        else:
            kind, item = "other", pp(payload)[:80]
        q = _queue_of(P, p) if kind == "item" else None
        out.setdefault(chars[1:], set()).add((kind, _h(item), _h(q)))
    _cache["sp"] = out
    return out


def _h(x):
    if isinstance(x, list):
        return tuple(_h(y) for y in x)
    if isinstance(x, tuple):
        return tuple(_h(y) for y in x)
    return x


def reader_numeric_table(P):
    """parse_internal: Numeric variant -> (max width, signed, setter fn) read from the tuple aggregates of the match arms"""
    fn = "format::parse::parse_internal"
    f = P.fn(fn)
    blocks = f["mir"]["blocks"]
    num = P.adts["format::Numeric"]
    # switch on the discriminant of a Numeric value: target block -> variant
    tbl = {}
    for bi, b in enumerate(blocks):
        if b.get("cleanup"):
            continue
        fnptr = {}
        for st in b["s"]:
            rv = st.get("rv")
            if rv and rv["k"] == "cast" and rv["x"].get("k") == "const" and "fn" in rv["x"] and not st["pl"]["p"]:
                fnptr[st["pl"]["l"]] = rv["x"]["fn"].split("::")[-1]
            if rv and rv["k"] == "agg" and rv["ak"] == "tuple" and len(rv["fields"]) == 3:
                a, s_, fnc = rv["fields"]
                name = None
                if fnc["k"] == "const" and "fn" in fnc:
                    name = fnc["fn"].split("::")[-1]
                elif fnc["k"] in ("copy", "move") and not fnc["pl"]["p"]:
                    name = fnptr.get(fnc["pl"]["l"])
                if a["k"] == "const" and s_["k"] == "const" and name and isinstance(a.get("v"), int) and isinstance(s_.get("v"), bool):
                    tbl[bi] = (a["v"], s_["v"], name)
    out = {}
    for bi, b in enumerate(blocks):
        t = b["t"]
        if t["k"] == "switch" and P.ty_s(t["dty"]) == "isize":
            for v, tb in t["targets"]:
                # follow gotos
                x = tb
                n = 0
                while x not in tbl and blocks[x]["t"]["k"] == "goto" and n < 3:
                    x = blocks[x]["t"]["target"]
                    n += 1
                if x in tbl and v < len(num["variants"]):
                    out[num["variants"][v]["name"]] = tbl[x]
    if len(out) < 10:
        raise AnchorLost("reader Numeric table not found in parse_internal (%d arms)" % len(out))
    return out


def writer_numeric_table(P):
    """format_numeric: Numeric variant -> (writer fn, width const or None, accessor call names)"""
    fn = "format::formatting::DelayedFormat::<I>::format_numeric"
    num = P.adts["format::Numeric"]
    out = {}
    for p in Sym(P, fn).paths():
        if p.end[0] != "return":
            continue
        sw = [c for c in p.conds if c[0][0] == "switch" and c[1][0] == "discr" and not isinstance(c[2], tuple)]
        if not sw:
            continue
        # the first discriminant switch is on `spec`
        v = sw[0][2]
        if not is_call(p.ret) or v >= len(num["variants"]):
            continue
        w = p.ret[1].split("::")[-1]
        if not w.startswith("write_"):
            continue
        args = p.ret[2]
        width = None
        if w == "write_n":
            width = const_of(args[1])
        value = args[1] if w != "write_n" else args[2]
        accs = [c[1].split("::")[-1] for c in find_calls(value)]
        casts = [x[2] for x in walk_terms(value) if x[0] == "cast"]
        sign = const_of(args[4]) if w == "write_n" and len(args) > 4 else None
        out[num["variants"][v]["name"]] = (w, width, tuple(accs), tuple(casts), sign, value)
    if len(out) < 15:
        raise AnchorLost("writer Numeric table not found in format_numeric (%d arms)" % len(out))
    return out


# ---- FLOW.scanned: a value a scanner produced is stored through a Parsed setter (or an explicit allow-list entry) -------------
def _core_of(y):
    n = 0
    while isinstance(y, tuple) and y and n < 16:
        n += 1
        if y[0] in ("field", "as", "deref", "ref", "cast"):
            y = y[1]
            continue
        if y[0] == "call" and isinstance(y[1], str) and y[1].endswith("Try>::branch"):
            y = y[2][0]
            continue
        break
    return y


def scanned_value_flow(P, fn, max_paths=6000):
    """[(scanner short name, line, n_paths_ok, n_paths_dropped)] for every value-returning format::scan call site of fn: on how many
    successful paths (the scan returned Ok, the path ends in Ok / the next loop iteration) its value reaches a Parsed setter
    (direct Parsed::set_* call or the setter function value of the item, called with `parsed`) and on how many it is dropped"""
    from sym import Sym, walk_terms
    from rules import result_variant

    def valued(r):
        if not (isinstance(r, str) and r.startswith("format::scan::") and P.has(r)):
            return False
        rt = P.ty_s(P.fn(r)["ret"])
        return "(&" in rt and ", ())" not in rt
    sites = {}
    for p in Sym(P, fn).paths(max_paths=max_paths):
        if p.end[0] == "return":
            if result_variant(p.ret)[0] != "Ok":
                continue
        elif p.end[0] != "loop":
            continue
        ok_calls = set()
        for c in p.conds:
            if c[0][0] == "switch" and isinstance(c[1], tuple) and c[1] and c[1][0] == "discr" and c[2] == 0:
                k = _core_of(c[1][1])
                if isinstance(k, tuple) and k and k[0] == "call":
                    ok_calls.add(k)
        consumed = set()
        for c in p.calls:
            setter = isinstance(c[1], str) and c[1].startswith("format::parsed::Parsed::set_")
            indirect = not isinstance(c[1], str) and c[2] and c[2][0] == ("ref", ("deref", ("arg", 1)))
            if not (setter or indirect):
                continue
            for a in c[2][1:]:
                for t in walk_terms(a):
                    if isinstance(t, tuple) and t and t[0] == "field" and t[2] == 1:
                        k = _core_of(t[1])
                        if isinstance(k, tuple) and k and k[0] == "call":
                            consumed.add(k)
        for c in p.calls:
            if valued(c[1]) and c in ok_calls:
                key = (c[1].split("::")[-1], c[3][1] if len(c) > 3 and isinstance(c[3], tuple) else None)
                s = sites.setdefault(key, [0, 0])
                s[0 if c in consumed else 1] += 1
    return [(k[0], k[1], v[0], v[1]) for k, v in sorted(sites.items(), key=lambda kv: (kv[0][1] or 0, kv[0][0]))]


def own_value_rejections(P, fn, max_paths=6000):
    """{(error constant, scanner name)}: Err(const) returns of `fn` (not propagated from a callee) that are decided by a comparison on a
    value a format::scan function produced. Range decisions on scanned values belong to the Parsed setters; a reader that adds its own
    narrows the accepted language."""
    from sym import Sym, walk_terms, pp
    from rules import result_variant
    out = set()
    for p in Sym(P, fn).paths(max_paths=max_paths):
        if p.end[0] != "return" or result_variant(p.ret)[0] != "Err":
            continue
        r = p.ret
        if not (r[0] == "agg" and r[4] and r[4][0][0] in ("const", "named")):
            continue
        name = r[4][0][1].split("::")[-1] if r[4][0][0] == "named" else pp(r[4][0])
        last = None
        for c in p.conds:
            if c[0][0] == "switch":
                last = c
        if last is None:
            continue
        for t in walk_terms(last[1]):
            if isinstance(t, tuple) and t and t[0] == "field" and t[2] == 1:
                k = _core_of(t[1])
                if isinstance(k, tuple) and k and k[0] == "call" and isinstance(k[1], str) and k[1].startswith("format::scan::"):
                    out.add((name, k[1].split("::")[-1]))
    return out
