"""E1 — interval / variant-set abstract interpretation over MIR (sound: what it cannot prove it reports).

Abstract values (hashable tuples):
  ('i', lo, hi)                      integer / bool / char interval
  ('s', (f0, f1, ..))                struct / tuple
  ('e', adt, ((vidx, (fields..)), ..))   enum as a set of possible variants with payloads
  ('r', target)                      reference; target = ('loc', local, proj) | ('val', av) | ('cell', n)
  ('l', lo, hi, elem)                slice / str / array / Vec view: length interval + element value
  ('c', def, (captures..))           closure value
  ('t', tyid)                        unknown value of a type (expanded lazily, respecting type invariants)
  ('bot',)                           no value (unreachable / uninitialised)
"""
import sys
from collections import defaultdict

from core import Prog, succs, pp_place, pp_op, pp_rv

BOT = ("bot",)
MAXLEN = (1 << 63) - 1
BOOL = ("i", 0, 1)
TRUE = ("i", 1, 1)
FALSE = ("i", 0, 0)

STD_ENUMS = {
    "std::option::Option": [("None", []), ("Some", [0])],
    "std::result::Result": [("Ok", [0]), ("Err", [1])],
    "std::ops::ControlFlow": [("Continue", [1]), ("Break", [0])],
    "std::cmp::Ordering": [("Less", []), ("Equal", []), ("Greater", [])],
}
STD_DISCR = {"std::cmp::Ordering": [-1, 0, 1]}


def irange(bits, signed):
    if signed:
        return (-(1 << (bits - 1)), (1 << (bits - 1)) - 1)
    return (0, (1 << bits) - 1)


class Invariants:
    """type invariants (DESIGN 3.4): field boxes assumed on read, obligations at construction"""

    def __init__(self, prog):
        P = prog
        self.box = {}
        try:
            mx = P.value("time_delta::TimeDelta::MAX")["fields"]
            mn = P.value("time_delta::TimeDelta::MIN")["fields"]
            self.box["time_delta::TimeDelta"] = {"secs": (mn["secs"], mx["secs"]), "nanos": (0, 999_999_999)}
        except Exception:
            pass
        self.box["naive::time::NaiveTime"] = {"secs": (0, 86399), "frac": (0, 1_999_999_999)}
        self.box["offset::fixed::FixedOffset"] = {"local_minus_utc": (-86399, 86399)}
        self.box["naive::internals::YearFlags"] = {"0": (1, 15)}
        self.box["naive::internals::Mdf"] = {"0": (0, (12 << 9) | (31 << 4) | 15)}
        self.box["weekday_set::WeekdaySet"] = {"0": (0, 0x7f)}
        self.box["month::Months"] = {}
        # NaiveDate.yof: year in [MIN_YEAR-1, MAX_YEAR+1] => yof within the i32 range with those years
        try:
            miny, maxy = P.value("naive::date::MIN_YEAR"), P.value("naive::date::MAX_YEAR")
            self.yof = (((miny - 1) << 13), ((maxy + 2) << 13) - 1)
        except Exception:
            self.yof = irange(32, True)
        self.ywf = irange(32, True)


class Obligation:
    __slots__ = ("key", "fn", "kind", "desc", "ln", "ok", "bad", "detail", "doc")

    def __init__(self, key, fn, kind, desc, ln):
        self.key, self.fn, self.kind, self.desc, self.ln = key, fn, kind, desc, ln
        self.ok = 0
        self.doc = 0
        self.bad = []
        self.detail = None


class Frame:
    __slots__ = ("fn", "mir", "state", "cells")


def join_iv(a, b):
    return ("i", min(a[1], b[1]), max(a[2], b[2]))


class Engine:
    def __init__(self, prog, depth_limit=12, ctx_limit=40000):
        self.P = prog
        self.inv = Invariants(prog)
        self.obl = {}
        self.memo = {}
        self.inprogress = set()
        self.depth_limit = depth_limit
        self.ctx_limit = ctx_limit
        self.contexts = 0
        self.unmodelled = defaultdict(int)
        self.fn_analysed = set()
        self.callstack = []
        self.lossy_scope = None      # None = everywhere
        self.just = {}               # reviewed (fn, kind, desc) justifications: such a site does not count as a failure below a call
        self.deprecated = set()
        self.docpanic = set()        # documented panickers (root set D): a failing obligation below one is charged to the call that enters it
        self.failstack = [0]
        self.memo_fails = {}
        self.cutoffs = 0
        self.last_fails = 0
        self._tcache = {}
        import stdmodels
        self.std = stdmodels.build(self)

    # ---- types --------------------------------------------------------------------------
    def ty(self, i):
        return self.P.tys[i]

    def int_range_of_ty(self, tyid):
        t = self.ty(tyid)
        k = t.get("k")
        if k == "int":
            return irange(t["bits"], True)
        if k == "uint":
            return irange(t["bits"], False)
        if k == "bool":
            return (0, 1)
        if k == "char":
            return (0, 0x10FFFF)
        return None

    def top(self, tyid):
        return ("t", tyid)

    def expand(self, av):
        """one-level expansion of ('t', ty)"""
        if av[0] != "t":
            return av
        tyid = av[1]
        if tyid in self._tcache:
            return self._tcache[tyid]
        t = self.ty(tyid)
        k = t.get("k")
        r = av
        rng = self.int_range_of_ty(tyid)
        if rng is not None:
            r = ("i", rng[0], rng[1])
        elif k == "tuple":
            r = ("s", tuple(("t", e) for e in t["elems"]))
        elif k == "ref" or k == "ptr":
            r = ("r", ("val", ("t", t["inner"])))
        elif k == "array":
            n = t.get("len")
            r = ("l", n if n is not None else 0, n if n is not None else MAXLEN, ("t", t["elem"]))
        elif k in ("slice",):
            r = ("l", 0, MAXLEN, ("t", t["elem"]))
        elif k == "str":
            r = ("l", 0, MAXLEN, ("i", 0, 255))
        elif k == "never":
            r = BOT
        elif k == "adt":
            r = self.expand_adt(tyid, t)
        self._tcache[tyid] = r
        return r

    def subst(self, fty, args):
        """field type id -> concrete type id under single-parameter substitution (best effort)"""
        ft = self.ty(fty)
        if ft.get("k") == "param" and len(args) >= 1:
            # positional guess: parameters named T/Tz/E in declaration order
            if len(args) == 1:
                return args[0]
        return fty

    def expand_adt(self, tyid, t):
        adt = t["adt"]
        args = t.get("args", [])
        if adt in STD_ENUMS:
            vs = []
            for vi, (name, fidx) in enumerate(STD_ENUMS[adt]):
                vs.append((vi, tuple(("t", args[i]) if i < len(args) else ("t", tyid) for i in fidx)))
            return ("e", adt, tuple(vs))
        if adt == "std::num::NonZero":
            inner = args[0] if args else None
            rng = self.int_range_of_ty(inner) if inner is not None else None
            return ("s", (("i", rng[0], rng[1]) if rng else ("t", inner),))
        if adt in ("std::vec::Vec", "std::string::String", "std::boxed::Box") and args:
            inner = self.ty(args[0])
            if adt == "std::string::String":
                return ("l", 0, MAXLEN, ("i", 0, 255))
            if adt == "std::vec::Vec":
                return ("l", 0, MAXLEN, ("t", args[0]))
        d = self.P.adts.get(adt)
        if d is None:
            return ("t", tyid)
        if d["kind"] == "Struct":
            box = self.inv.box.get(adt, {})
            fs = []
            for f in d["variants"][0]["fields"]:
                if f["name"] in box:
                    lo, hi = box[f["name"]]
                    fs.append(("i", lo, hi))
                elif adt == "naive::date::NaiveDate" and f["name"] == "yof":
                    fs.append(("s", (("i", self.inv.yof[0], self.inv.yof[1]),)))
                else:
                    fs.append(("t", self.subst(f["ty"], args)))
            return ("s", tuple(fs))
        if d["kind"] == "Enum":
            vs = []
            for vi, v in enumerate(d["variants"]):
                vs.append((vi, tuple(("t", self.subst(f["ty"], args)) for f in v["fields"])))
            return ("e", adt, tuple(vs))
        return ("t", tyid)

    def discr_value(self, adt, vidx):
        if adt in STD_DISCR:
            return STD_DISCR[adt][vidx]
        d = self.P.adts.get(adt)
        if d is not None:
            return d["variants"][vidx]["discr"]
        return vidx

    # ---- lattice --------------------------------------------------------------------------
    def join(self, a, b):
        if a == b:
            return a
        if a == BOT:
            return b
        if b == BOT:
            return a
        ka, kb = a[0], b[0]
        if ka == "t" and kb != "t":
            a = self.expand(a)
            ka = a[0]
            if ka == "t":
                return a
        if kb == "t" and ka != "t":
            b = self.expand(b)
            kb = b[0]
            if kb == "t":
                return b
        if ka == "t" and kb == "t":
            return a if a[1] == b[1] else a
        if ka != kb:
            return self._lose(a, b)
        if ka == "i":
            return ("i", min(a[1], b[1]), max(a[2], b[2]))
        if ka == "s":
            if len(a[1]) != len(b[1]):
                return self._lose(a, b)
            return ("s", tuple(self.join(x, y) for x, y in zip(a[1], b[1])))
        if ka == "e":
            if a[1] != b[1]:
                return self._lose(a, b)
            da, db = dict(a[2]), dict(b[2])
            out = []
            for v in sorted(set(da) | set(db)):
                if v in da and v in db:
                    fa, fb = da[v], db[v]
                    if len(fa) != len(fb):
                        out.append((v, fa))
                    else:
                        out.append((v, tuple(self.join(x, y) for x, y in zip(fa, fb))))
                else:
                    out.append((v, da.get(v, db.get(v))))
            return ("e", a[1], tuple(out))
        if ka == "l":
            return ("l", min(a[1], b[1]), max(a[2], b[2]), self.join(a[3], b[3]))
        if ka == "r":
            ta, tb = a[1], b[1]
            if ta == tb:
                return a
            if ta[0] == "val" and tb[0] == "val":
                return ("r", ("val", self.join(ta[1], tb[1])))
            return ("r", ("val", self._anyref(a, b)))
        if ka == "c":
            if a[1] == b[1] and len(a[2]) == len(b[2]):
                return ("c", a[1], tuple(self.join(x, y) for x, y in zip(a[2], b[2])))
            return self._lose(a, b)
        return self._lose(a, b)

    def _anyref(self, a, b):
        return ("unk",)

    def _lose(self, a, b):
        return ("unk",)

    def widen(self, old, new, thresholds):
        """old ⊔ new with interval bounds that grew pushed to the next threshold"""
        j = self.join(old, new)
        return self._widen(old, j, thresholds)

    def _widen(self, old, j, th):
        if old == j or old == BOT:
            return j
        if old[0] == "t":
            return j
        if j[0] == "i" and old[0] == "i":
            lo, hi = j[1], j[2]
            if lo < old[1]:
                c = [x for x in th if x <= lo]
                lo = max(c) if c else lo
            if hi > old[2]:
                c = [x for x in th if x >= hi]
                hi = min(c) if c else hi
            return ("i", lo, hi)
        if j[0] == "s" and old[0] == "s" and len(j[1]) == len(old[1]):
            return ("s", tuple(self._widen(o, n, th) for o, n in zip(old[1], j[1])))
        if j[0] == "e" and old[0] == "e":
            do = dict(old[2])
            out = []
            for v, fs in j[2]:
                if v in do and len(do[v]) == len(fs):
                    out.append((v, tuple(self._widen(o, n, th) for o, n in zip(do[v], fs))))
                else:
                    out.append((v, fs))
            return ("e", j[1], tuple(out))
        if j[0] == "l" and old[0] == "l":
            lo, hi = j[1], j[2]
            if lo < old[1]:
                lo = 0
            if hi > old[2]:
                hi = MAXLEN
            return ("l", lo, hi, self._widen(old[3], j[3], th))
        if j[0] == "r" and old[0] == "r" and j[1][0] == "val" and old[1][0] == "val":
            return ("r", ("val", self._widen(old[1][1], j[1][1], th)))
        return j

    # ---- obligations ----------------------------------------------------------------------
    def oblige(self, fr, key, kind, desc, ln, ok, detail=None):
        fnname = fr.fn
        # attribute helper-internal sites to the calling site
        k = (fnname, key)
        o = self.obl.get(k)
        if o is None:
            o = Obligation(k, fnname, kind, desc, ln)
            self.obl[k] = o
        if ok:
            o.ok += 1
        else:
            if (fnname, kind, desc) in self.just:
                if not o.bad:
                    o.bad.append("(justified site)")
                return
            self.failstack[-1] += 1
            if self.docpanic and any(f in self.docpanic for f in self.callstack):
                # inside a documented panicker: the panic is its contract; the entering call site carries the obligation
                o.doc += 1
                return
            if len(o.bad) < 3:
                o.bad.append(" <- ".join(reversed(self.callstack[-6:])))
            if detail and o.detail is None:
                o.detail = detail

    # ---- analysis of a function in a context ----------------------------------------------
    def analyse(self, fpath, args, depth=0):
        """returns (ret av, effects {param index: final av of the referent})"""
        P = self.P
        if not P.has(fpath):
            return None
        # the context bit: obligations that fail below a documented panicker are charged to the entering call site (oblige), so a summary computed there must not
        # be reused for a caller outside one - its failures would never be reported at their own sites
        under_doc = bool(self.docpanic) and any(f in self.docpanic for f in self.callstack)
        key = (fpath, tuple(args), under_doc)
        if key in self.memo:
            self.last_fails = self.memo_fails.get(key, 0)
            self.failstack[-1] += self.last_fails
            return self.memo[key]
        self.last_fails = 0
        if key in self.inprogress:
            # recursion: the result of the enclosing analysis of the same context is not yet known; its obligations are being collected there
            f = P.fn(fpath)
            ret = ("t", f["mir"]["locals"][0])
            return (ret, {i: ("unk",) for i in range(len(args))})
        if depth > self.depth_limit or self.contexts > self.ctx_limit:
            # budget exhausted: fall back to the context-insensitive summary (arguments at their full type range), analysed once
            # with a fresh depth budget, so that no function body reachable from a root is left without analysis
            m = P.fn(fpath)["mir"]
            top = tuple(("t", m["locals"][i]) for i in range(1, m["argc"] + 1))
            self.cutoffs += 1
            if top == tuple(args) and depth == 0:
                ret = ("t", m["locals"][0])
                return (ret, {i: ("unk",) for i in range(len(args))})
            return self.analyse(fpath, top, 0)
        self.inprogress.add(key)
        self.contexts += 1
        self.callstack.append(fpath)
        self.failstack.append(0)
        try:
            import absfn
            res = absfn.run(self, fpath, args, depth)
        finally:
            self.callstack.pop()
            self.inprogress.discard(key)
            n = self.failstack.pop()
            self.failstack[-1] += n
        self.last_fails = n
        self.memo_fails[key] = n
        self.memo[key] = res
        self.fn_analysed.add(fpath)
        return res

    def analyse_root(self, fpath):
        f = self.P.fn(fpath)
        m = f["mir"]
        args = tuple(("t", m["locals"][i]) for i in range(1, m["argc"] + 1))
        return self.analyse(fpath, args, 0)
