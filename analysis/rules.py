"""Rule helpers shared by the property modules (E2)."""
from collections import Counter

from core import AnchorLost, operands_of_block
from sym import Sym, pp, walk_terms, const_of, thaw


def table_value(P, path):
    """evaluated value of a const/static table as a plain python list of ints/dicts"""
    v = P.value(path)
    while isinstance(v, dict) and "ref" in v:
        v = v["ref"]
    if not isinstance(v, list):
        raise AnchorLost("constant `%s` is not an array (got %s)" % (path, type(v).__name__))
    return v


def term_result(t):
    """canonical result description of a constant-like term: ('adt', variant, payload...) / int / str"""
    if t is None:
        return None
    if t[0] == "agg" and t[1] == "adt":
        if t[4]:
            return (t[2], t[3]) + tuple(term_result(x) for x in t[4])
        return (t[2], t[3])
    if t[0] in ("const", "named"):
        c = const_of(t)
        return c
    if t[0] == "agg" and t[1] == "tuple":
        return tuple(term_result(x) for x in t[4])
    if t[0] == "ref":
        return term_result(t[1])
    return ("term", pp(t))


def extract_switch_map(s, start=0, paths=None):
    """for a function that is `match <discr> { v => result, .. }`: returns ({value|'else': result}, discr term).
    All paths must branch on one and the same discriminant term exactly once."""
    ps = paths if paths is not None else s.paths(start=start)
    m = {}
    discr = None
    for p in ps:
        sw = [c for c in p.conds if c[0][0] == "switch"]
        if p.end[0] == "unreachable":
            continue
        if len(sw) != 1:
            raise AnchorLost("%s is not a single-level match (path with %d switches)" % (s.fpath, len(sw)))
        d = sw[0][1]
        if discr is None:
            discr = d
        elif d != discr:
            raise AnchorLost("%s switches on different discriminants" % s.fpath)
        v = sw[0][2]
        key = "else" if isinstance(v, tuple) else v
        m[key] = term_result(p.ret)
    if discr is None:
        raise AnchorLost("%s has no switch" % s.fpath)
    return m, discr


def consts_in_fn(P, fpath, ops=None, with_closures=True):
    """multiset of integer constants that are operands of binary operations / calls in a function
    (including its closures), by absolute value"""
    out = Counter()
    names = [fpath] + (P.closures_of(fpath) if with_closures else [])
    for n in names:
        f = P.fn(n)
        for b in f["mir"]["blocks"]:
            if b.get("cleanup"):
                continue
            for st in b["s"]:
                rv = st.get("rv")
                if not rv or rv["k"] != "bin":
                    continue
                op = rv["op"].replace("WithOverflow", "")
                if ops and op not in ops:
                    continue
                for o in (rv["l"], rv["r"]):
                    if o["k"] == "const" and isinstance(o.get("v"), int) and not isinstance(o.get("v"), bool):
                        out[abs(o["v"])] += 1
            t = b["t"]
            if t["k"] == "call" and not ops:
                for o in t["args"]:
                    if o["k"] == "const" and isinstance(o.get("v"), int) and not isinstance(o.get("v"), bool):
                        out[abs(o["v"])] += 1
    return out


def derived_impls(P, ty):
    """{trait path: derived?} for the impls of a type (by the type's printed path)"""
    out = {}
    for i in P.impls:
        if "trait" in i and P.ty_s(i["self_ty"]).split("<")[0] == ty:
            out[i["trait"]] = bool(i["derived"])
    return out


def fields_private(P, ty):
    adt = P.adts.get(ty)
    if adt is None:
        raise AnchorLost("type `%s` not found" % ty)
    return all(not f["pub"] for v in adt["variants"] for f in v["fields"])


def field_names(P, ty):
    adt = P.adts.get(ty)
    if adt is None:
        raise AnchorLost("type `%s` not found" % ty)
    return [f["name"] for f in adt["variants"][0]["fields"]]


_known_fns = None


def known_fns():
    global _known_fns
    if _known_fns is None:
        import os
        p = os.path.join(os.path.dirname(os.path.dirname(os.path.abspath(__file__))), "specs", "known_fns.txt")
        _known_fns = set(l.strip() for l in open(p) if l.strip() and not l.startswith("#")) if os.path.exists(p) else set()
    return _known_fns


def is_new_helper(P, c):
    """a private in-crate function that did not exist in the reviewed tree: a helper extracted by a refactoring"""
    if not P.has(c) or c in known_fns():
        return False
    f = P.fns[c]
    return f.get("kind") in ("Fn", "AssocFn") and not f.get("pub") and "trait" not in f


def callees(P, fpath, with_closures=True, _depth=0):
    """set of resolved callee paths of a function (and its closures); newly extracted private helpers are looked through"""
    out = set()
    names = [fpath] + (P.closures_of(fpath) if with_closures else [])
    for n in names:
        cfg = P.cfg(n)
        for i, t, cs in P.calls(n):
            if i in cfg.reach:
                for c in cs:
                    if _depth < 3 and is_new_helper(P, c):
                        out.update(callees(P, c, with_closures, _depth + 1))
                    else:
                        out.add(c)
    return out


def calls_in_order(P, fpath):
    """call terminators of the reachable blocks in reverse post-order"""
    cfg = P.cfg(fpath)
    out = []
    for b in cfg.rpo():
        t = cfg.blocks[b]["t"]
        if t["k"] == "call":
            out.append((b, t))
    return out


def reads_fields(P, fpath, adt_ty_pred, depth=3, seen=None):
    """set of field indices of values whose type satisfies adt_ty_pred that `fpath` (and the crate-local
    callees it passes them to, bounded) reads through place projections. Conservative over-approximation:
    any projection `.f` on a place whose base type matches is a read."""
    seen = seen if seen is not None else set()
    if fpath in seen or depth < 0 or not P.has(fpath):
        return set()
    seen.add(fpath)
    f = P.fn(fpath)
    m = f["mir"]
    out = set()

    def scan_place(pl):
        ty = m["locals"][pl["l"]]
        for e in pl["p"]:
            t = P.ty(ty)
            if e == "*":
                ty = t.get("inner", ty)
                continue
            if e[0] == "f":
                if adt_ty_pred(t):
                    out.add(e[1])
                ty = e[2]
            elif e[0] in ("d",):
                continue
            else:
                break

    def scan_op(o):
        if o["k"] in ("copy", "move"):
            scan_place(o["pl"])

    cfg = P.cfg(fpath)
    for i in cfg.reach:
        b = m["blocks"][i]
        for st in b["s"]:
            rv = st.get("rv")
            if rv:
                if "pl" in rv:
                    scan_place(rv["pl"])
                for k in ("x", "l", "r"):
                    if k in rv:
                        scan_op(rv[k])
                for o in rv.get("fields", []):
                    scan_op(o)
            if st["k"] == "assign":
                # writes also go through projections: a write to .f is not a read, skip
                pass
        t = b["t"]
        if t["k"] == "call":
            for a in t["args"]:
                scan_op(a)
            # follow crate-local callees that receive a value/reference of the type
            passes = False
            for a in t["args"]:
                if a["k"] in ("copy", "move"):
                    ty = m["locals"][a["pl"]["l"]]
                    tt = P.ty(ty)
                    for e in a["pl"]["p"]:
                        if e == "*":
                            tt = P.ty(tt.get("inner", ty))
                        elif e[0] == "f":
                            tt = P.ty(e[2])
                    while tt.get("k") == "ref":
                        tt = P.ty(tt["inner"])
                    if adt_ty_pred(tt):
                        passes = True
            if passes:
                for c in P.callees_of_site(t):
                    if P.has(c):
                        out |= reads_fields(P, c, adt_ty_pred, depth - 1, seen)
        elif t["k"] == "switch":
            scan_op(t["discr"])
    return out


def check_partition(chk, P, cal):
    pass


# ---- term helpers -----------------------------------------------------------------------

def unref(t):
    while t[0] in ("ref", "deref"):
        t = t[1]
    return t


def arg_field(t):
    """(arg index, field index|None) if the term is (a reference to) an argument or one of its fields"""
    t = unref(t)
    if t[0] == "arg":
        return (t[1], None)
    if t[0] == "field":
        b = unref(t[1])
        if b[0] == "arg":
            return (b[1], t[2])
    return None


def is_call(t, name=None, suffix=None):
    if t[0] != "call" or not isinstance(t[1], str):
        return False
    if name is not None and t[1] != name:
        return False
    if suffix is not None and not t[1].endswith(suffix):
        return False
    return True


def find_calls(t, pred=lambda c: True):
    return [x for x in walk_terms(t) if x[0] == "call" and pred(x)]


def result_variant(t):
    """('Some'|'None'|'Ok'|'Err'|..., payload terms) if the term is an enum aggregate"""
    if t is not None and t[0] == "agg" and t[1] == "adt":
        return t[3], t[4]
    return None, ()


CMP_FLIP = {"Lt": "Gt", "Le": "Ge", "Gt": "Lt", "Ge": "Le", "Eq": "Eq", "Ne": "Ne"}
CMP_NEG = {"Lt": "Ge", "Le": "Gt", "Gt": "Le", "Ge": "Lt", "Eq": "Ne", "Ne": "Eq"}


def _through_casts(t):
    """the value behind integer casts and behind the Ok payload of an integer try_from (which is the converted value itself)"""
    n = 0
    while n < 8:
        n += 1
        if t[0] == "cast" and t[3].startswith("IntToInt"):
            t = t[1]
            continue
        if t[0] == "field" and t[2] == 0 and t[1][0] == "as" and len(t[1]) > 2 and t[1][2] == "Ok" and t[1][1][0] == "call" and isinstance(t[1][1][1], str) \
                and "::<impl std::convert::TryFrom<" in t[1][1][1] and t[1][1][1].endswith("::try_from") and t[1][1][2]:
            t = t[1][1][2][0]
            continue
        break
    return t


def cond_constraints(conds, subjects):
    """translate the switch conditions of a path into interval constraints on `subjects`
    (a dict name -> term). Returns dict name -> [lo, hi] (None = unbounded) and the list of
    conditions that could not be interpreted."""
    box = {n: [None, None] for n in subjects}
    other = []
    inv = {}
    for n, t in subjects.items():
        inv[t] = n
        inv[_through_casts(t)] = n

    def name_of(t):
        t0 = _through_casts(t)
        return inv.get(t) or inv.get(t0)

    def apply(n, op, c):
        lo, hi = box[n]
        if op == "Lt":
            hi = c - 1 if hi is None else min(hi, c - 1)
        elif op == "Le":
            hi = c if hi is None else min(hi, c)
        elif op == "Gt":
            lo = c + 1 if lo is None else max(lo, c + 1)
        elif op == "Ge":
            lo = c if lo is None else max(lo, c)
        elif op == "Eq":
            lo = c if lo is None else max(lo, c)
            hi = c if hi is None else min(hi, c)
        elif op == "Ne":
            if lo is not None and lo == c:
                lo = c + 1
            elif hi is not None and hi == c:
                hi = c - 1
            # a hole strictly inside (or a value outside) the box: the box stays an over-approximation
        box[n] = [lo, hi]
        return True

    for c in conds:
        if c[0][0] != "switch":
            continue
        d, v = c[1], c[2]
        done = False
        if d[0] == "bin" and d[1] in CMP_FLIP:
            op, l, r = d[1], d[2], d[3]
            truth = None
            if isinstance(v, tuple):           # else-branch of a bool switch [0 -> ..]: true
                if v[1] == (0,):
                    truth = True
            elif v == 0:
                truth = False
            elif v == 1:
                truth = True
            if truth is not None:
                if not truth:
                    op = CMP_NEG[op]
                nl, nr = name_of(l), name_of(r)
                cl, cr = const_of(l), const_of(r)
                if nl and isinstance(cr, int) and not isinstance(cr, bool):
                    done = apply(nl, op, cr)
                elif nr and isinstance(cl, int) and not isinstance(cl, bool):
                    done = apply(nr, CMP_FLIP[op], cl)
        elif d[0] == "call" and isinstance(d[1], str) and d[1].endswith("::contains") and "Range" in d[1] and len(d[2]) == 2:
            rng = const_of(unref(d[2][0]))
            n = name_of(unref(d[2][1]))
            truth = None
            if isinstance(v, tuple):
                truth = True if v[1] == (0,) else None
            elif v in (0, 1):
                truth = bool(v)
            if n is not None and isinstance(rng, tuple) and truth is not None:
                dd = dict(rng)
                fs = dict(dd.get("fields", ()))
                lo_, hi_ = fs.get("start"), fs.get("end")
                if isinstance(lo_, int) and isinstance(hi_, int):
                    if "Inclusive" not in d[1]:
                        hi_ -= 1
                    if truth:
                        done = apply(n, "Ge", lo_) and apply(n, "Le", hi_)
                    else:
                        # outside the range: representable only at the ends of the current box
                        cur = box[n]
                        if cur[0] is not None and cur[0] >= lo_:
                            done = apply(n, "Gt", hi_)
                        elif cur[1] is not None and cur[1] <= hi_:
                            done = apply(n, "Lt", lo_)
        elif d[0] == "discr" and d[1][0] == "call" and isinstance(d[1][1], str) and "::<impl std::convert::TryFrom<" in d[1][1] and d[1][1].endswith("::try_from"):
            # `T::try_from(v)` is Ok exactly when v fits T
            import re as _re
            m_ = _re.search(r"TryFrom<(\w+)> for (\w+)>::try_from$", d[1][1])
            n = name_of(d[1][2][0]) if d[1][2] else None
            rng = {"u8": (0, 255), "u16": (0, 65535), "u32": (0, (1 << 32) - 1), "u64": (0, (1 << 64) - 1), "usize": (0, (1 << 64) - 1),
                   "i8": (-128, 127), "i16": (-32768, 32767), "i32": (-(1 << 31), (1 << 31) - 1), "i64": (-(1 << 63), (1 << 63) - 1), "isize": (-(1 << 63), (1 << 63) - 1)}
            ok_branch = v == 0 or (isinstance(v, tuple) and v[0] == "else" and 0 not in v[1] and 1 in v[1])
            if m_ and n is not None and m_.group(2) in rng and ok_branch:
                lo_, hi_ = rng[m_.group(2)]
                done = apply(n, "Ge", lo_) and apply(n, "Le", hi_)
        else:
            n = name_of(d)
            if n is not None:
                if isinstance(v, tuple):
                    done = all(apply(n, "Ne", x) or True for x in v[1])
                else:
                    done = apply(n, "Eq", v)
        if not done:
            other.append(c)
    return box, other


def accept_boxes(P, fpath, subjects, success=("Some", "Ok"), s=None, paths=None):
    """for every path of `fpath` that returns a success variant: the constraint box on `subjects`.
    Returns list of (box, uninterpreted conds, path)."""
    s = s or Sym(P, fpath)
    out = []
    for p in (paths if paths is not None else s.paths()):
        if p.end[0] != "return":
            continue
        var, _ = result_variant(p.ret)
        if var is not None and var not in success:
            continue
        box, other = cond_constraints(p.conds, subjects)
        out.append((box, other, p))
    return out


def hull(boxes, name):
    lo = hi = None
    first = True
    for b in boxes:
        l, h = b[name]
        if first:
            lo, hi = l, h
            first = False
        else:
            lo = None if (lo is None or l is None) else min(lo, l)
            hi = None if (hi is None or h is None) else max(hi, h)
    return lo, hi


def aggregate_sites(P, adt):
    """[(fn path, block, stmt index, rvalue)] of every construction site of `adt` in the crate's fn bodies"""
    out = []
    for name, f in P.fns.items():
        if "mir" not in f:
            continue
        for bi, b in enumerate(f["mir"]["blocks"]):
            if b.get("cleanup"):
                continue
            for si, st in enumerate(b["s"]):
                rv = st.get("rv")
                if rv and rv["k"] == "agg" and rv.get("adt") == adt:
                    out.append((name, bi, si, st))
    return out


def field_writes(P, adt_pred):
    """[(fn, line, field)] of assignments through a field projection of a place whose type matches"""
    out = []
    for name, f in P.fns.items():
        if "mir" not in f:
            continue
        m = f["mir"]
        for b in m["blocks"]:
            if b.get("cleanup"):
                continue
            for st in b["s"]:
                if st["k"] != "assign" or not st["pl"]["p"]:
                    continue
                ty = m["locals"][st["pl"]["l"]]
                for e in st["pl"]["p"]:
                    t = P.ty(ty)
                    if e == "*":
                        ty = t.get("inner", ty)
                    elif e[0] == "f":
                        if adt_pred(t):
                            out.append((name, st["ln"], e[1]))
                        ty = e[2]
                    else:
                        break
    return out


# ---- flow-insensitive tag propagation over MIR locals (dimension / provenance rules) -------------------------------
CMP_OPS = ("Lt", "Le", "Gt", "Ge", "Eq", "Ne")
CMP_CALLS = ("std::cmp::Ord::cmp", "std::cmp::PartialOrd::partial_cmp", "std::cmp::PartialOrd::lt", "std::cmp::PartialOrd::le",
             "std::cmp::PartialOrd::gt", "std::cmp::PartialOrd::ge", "std::cmp::PartialEq::eq", "std::cmp::PartialEq::ne")


def _places_of(x, out):
    if isinstance(x, dict):
        if "l" in x and "p" in x and isinstance(x["p"], list):
            out.append(x)
        for v in x.values():
            _places_of(v, out)
    elif isinstance(x, list):
        for v in x:
            _places_of(v, out)


def place_field_steps(P, m, pl):
    """[(type string of the value a field is taken of, field index)] along a place's projection"""
    ty = m["locals"][pl["l"]]
    out = []
    for e in pl["p"]:
        t = P.tys[ty]
        if e == "*":
            ty = t.get("inner", ty)
        elif isinstance(e, list) and e[0] == "f":
            out.append((t["s"], e[1]))
            ty = e[2]
        elif isinstance(e, list) and e[0] == "d":
            pass
        else:
            ty = t.get("elem", t.get("inner", ty))
    return out


def tag_locals(P, fn, field_tag, arg_tag=None, call_tag=None):
    """Least fixpoint of: a local carries the tags of everything it is computed from. `field_tag(type string, field index)` and
    `arg_tag(argument index)` name the sources; `call_tag(call terminator)` may return ("add", tags) (result also carries these) or
    ("set", tags) (result carries exactly these, whatever the arguments carry). Returns (tags per local, tags_of(operand-or-rvalue))."""
    m = P.fn(fn)["mir"]
    tags = {i: set() for i in range(len(m["locals"]))}
    if arg_tag:
        for i in range(1, m["argc"] + 1):
            t = arg_tag(i)
            if t:
                tags[i].add(t)

    def of(x):
        pls = []
        _places_of(x, pls)
        out = set()
        for pl in pls:
            out |= tags[pl["l"]]
            for tys, idx in place_field_steps(P, m, pl):
                t = field_tag(tys, idx)
                if t:
                    out.add(t)
        return out
    changed = True
    while changed:
        changed = False
        for b in m["blocks"]:
            if b.get("cleanup"):
                continue
            for st in b["s"]:
                if st["k"] == "assign":
                    new = of(st["rv"])
                    l = st["pl"]["l"]
                    if not new <= tags[l]:
                        tags[l] |= new
                        changed = True
            t = b["t"]
            if t["k"] == "call" and t.get("dest"):
                new = of(t["args"])
                ct = call_tag(t) if call_tag else None
                if ct:
                    new = set(ct[1]) if ct[0] == "set" else new | set(ct[1])
                l = t["dest"]["l"]
                if not new <= tags[l]:
                    tags[l] |= new
                    changed = True
    return tags, of


def comparisons(P, fn):
    """[(line, left operand, right operand)] of every comparison in fn: MIR comparison operators and calls of the std comparison traits"""
    m = P.fn(fn)["mir"]
    out = []
    for b in m["blocks"]:
        if b.get("cleanup"):
            continue
        for st in b["s"]:
            if st["k"] == "assign" and st["rv"]["k"] == "bin" and st["rv"]["op"] in CMP_OPS:
                out.append((st.get("ln"), st["rv"]["l"], st["rv"]["r"]))
        t = b["t"]
        if t["k"] == "call" and t["callee"].get("def") in CMP_CALLS and len(t["args"]) == 2:
            out.append((t.get("ln"), t["args"][0], t["args"][1]))
    return out


# ---- counted loops with a universal check ("for every i < len: check(v[i])") ------------------------------------------
def _copies(mir):
    """local -> local it is a plain copy/move of (single-assignment temporaries only)"""
    ndefs = {}
    src = {}
    for b in mir["blocks"]:
        if b.get("cleanup"):
            continue
        for st in b["s"]:
            if st["k"] == "assign" and not st["pl"]["p"]:
                l = st["pl"]["l"]
                ndefs[l] = ndefs.get(l, 0) + 1
                rv = st["rv"]
                if rv["k"] == "use" and rv["x"]["k"] in ("copy", "move") and not rv["x"]["pl"]["p"]:
                    src[l] = rv["x"]["pl"]["l"]
        t = b["t"]
        if t["k"] == "call" and t.get("dest") and not t["dest"]["p"]:
            ndefs[t["dest"]["l"]] = ndefs.get(t["dest"]["l"], 0) + 1
    return {l: s for l, s in src.items() if ndefs.get(l) == 1}


def _root(copies, l):
    n = 0
    while l in copies and n < 10:
        l = copies[l]
        n += 1
    return l


def _def_of(mir, l):
    """the single defining statement / call terminator of a temporary (None when it has several)"""
    found = []
    for bi, b in enumerate(mir["blocks"]):
        if b.get("cleanup"):
            continue
        for st in b["s"]:
            if st["k"] == "assign" and not st["pl"]["p"] and st["pl"]["l"] == l:
                found.append((bi, st))
        t = b["t"]
        if t["k"] == "call" and t.get("dest") and not t["dest"]["p"] and t["dest"]["l"] == l:
            found.append((bi, t))
    return found[0] if len(found) == 1 else None


def counted_loops(P, fn):
    """Recognise `c = 0; while c < len(S) { ...; c += 1 }` in MIR. Returns a list of dicts:
    counter, head (block of the guard switch), exit (guard-false target), body (set of blocks), incr (block holding c += 1), slice (the place
    S as (local, field-index tuple) whose length bounds the loop), ok (bool: start 0, step 1, the guard is the only way into the continuation)"""
    mir = P.fn(fn)["mir"]
    cfg = P.cfg(fn)
    copies = _copies(mir)
    out = []
    for (src, head) in cfg.back_edges():
        # natural loop
        body = {head, src}
        st = [src]
        while st:
            x = st.pop()
            for p in cfg.pred[x]:
                if p not in body and x != head:
                    body.add(p)
                    st.append(p)
        # guard: a switch in the loop on Lt(c', n) with one target outside the body
        for g in sorted(body):
            t = mir["blocks"][g]["t"]
            if t["k"] != "switch":
                continue
            outside = [x for x in succs_of(t) if x not in body]
            if len(outside) != 1:
                continue
            d = t.get("discr") or t.get("x")
            if not d or d["k"] not in ("copy", "move") or d["pl"]["p"]:
                continue
            df = _def_of(mir, d["pl"]["l"])
            if not df or df[1].get("k") != "assign" or df[1]["rv"]["k"] != "bin" or df[1]["rv"]["op"] != "Lt":
                continue
            lo, hi = df[1]["rv"]["l"], df[1]["rv"]["r"]
            if lo["k"] not in ("copy", "move") or hi["k"] not in ("copy", "move"):
                continue
            c = _root(copies, lo["pl"]["l"])
            # the bound: len(&(*self).K) or PtrMetadata of it
            hd = _def_of(mir, _root(copies, hi["pl"]["l"]))
            slc = None
            if hd and hd[1].get("k") == "call" and (hd[1]["callee"].get("resolved") or "").endswith("<impl [T]>::len"):
                a = hd[1]["args"][0]
                if a["k"] in ("copy", "move"):
                    slc = _slice_origin(mir, copies, a["pl"])
            elif hd and hd[1].get("k") == "assign" and hd[1]["rv"]["k"] == "un" and hd[1]["rv"]["op"] == "PtrMetadata":
                a = hd[1]["rv"]["x"]
                if a["k"] in ("copy", "move"):
                    slc = _slice_origin(mir, copies, a["pl"])
            # assignments of the counter
            ok = True
            incr = None
            for bi, b in enumerate(mir["blocks"]):
                if b.get("cleanup"):
                    continue
                for s_ in b["s"]:
                    if s_["k"] == "assign" and not s_["pl"]["p"] and s_["pl"]["l"] == c:
                        rv = s_["rv"]
                        if bi not in body:
                            if not (rv["k"] == "use" and rv["x"]["k"] == "const" and rv["x"].get("v") == 0):
                                ok = False
                        else:
                            # c = move t.0 with t = AddWithOverflow(c, 1)
                            good = False
                            if rv["k"] == "use" and rv["x"]["k"] in ("copy", "move") and rv["x"]["pl"]["p"] and rv["x"]["pl"]["p"][0][0] == "f" and rv["x"]["pl"]["p"][0][1] == 0:
                                td = _def_of(mir, rv["x"]["pl"]["l"])
                                if td and td[1].get("k") == "assign" and td[1]["rv"]["k"] == "bin" and td[1]["rv"]["op"] in ("AddWithOverflow", "Add"):
                                    l_, r_ = td[1]["rv"]["l"], td[1]["rv"]["r"]
                                    if l_["k"] in ("copy", "move") and _root(copies, l_["pl"]["l"]) == c and r_["k"] == "const" and r_.get("v") == 1:
                                        good = True
                            if good and incr is None:
                                incr = bi
                            else:
                                ok = False
            # the guard must be the only edge from the body into the continuation that does not end in an early return:
            exits = [(x, y) for x in body for y in cfg.succ[x] if y not in body and x != g]
            out.append({"counter": c, "head": g, "exit": outside[0], "body": body, "incr": incr, "slice": slc, "ok": ok and incr is not None and slc is not None,
                        "other_exits": exits})
    return out


def succs_of(t):
    from core import succs
    return succs(t)


def _slice_origin(mir, copies, pl, depth=0):
    """follow `&(*x)` / copies back to `(*self).K`: returns (root local, (field indices...))"""
    if depth > 6:
        return None
    fields = tuple(e[1] for e in pl["p"] if isinstance(e, list) and e[0] == "f")
    l = pl["l"]
    if fields:
        return (_root(copies, l), fields)
    d = _def_of(mir, l)
    if not d or d[1].get("k") != "assign":
        return None
    rv = d[1]["rv"]
    if rv["k"] == "ref":
        return _slice_origin(mir, copies, rv["pl"], depth + 1)
    if rv["k"] == "use" and rv["x"]["k"] in ("copy", "move"):
        return _slice_origin(mir, copies, rv["x"]["pl"], depth + 1)
    if rv["k"] == "cast" and rv["x"]["k"] in ("copy", "move"):
        return _slice_origin(mir, copies, rv["x"]["pl"], depth + 1)
    return None


# ---- one base value per path ("the fraction that is tested is the fraction that is printed") ---------------------------------------
def path_bases(p, is_source, ks, zero_tests=True, fmt_args=True):
    """The distinct terms X on one path that (1) contain a source (is_source(subterm)) and (2) are used as `X / k`, `X % k` with k in ks,
    as `X == 0` / `X != 0` in a condition, or as a formatting argument. `X / k` and `X % k` themselves are uses, not bases."""
    from sym import walk_terms, const_of
    bases = set()

    def has_src(t):
        return any(is_source(x) for x in walk_terms(t))

    def is_use(t):
        return t[0] == "bin" and t[1] in ("Div", "Rem") and const_of(t[3]) in ks

    def strip(t):
        return t

    def uncast(t):
        while isinstance(t, tuple) and t and t[0] in ("cast", "as") and isinstance(t[1], tuple):
            t = t[1]
        return t
    terms = [c[1] for c in p.conds if c[0][0] == "switch"] + list(p.calls)
    for t in terms:
        for x in walk_terms(t):
            if not isinstance(x, tuple) or not x:
                continue
            if is_use(x) and has_src(x[2]):
                if not is_use(x[2]):
                    bases.add(strip(x[2]))
            elif zero_tests and x[0] == "bin" and x[1] in ("Eq", "Ne") and const_of(x[3]) == 0 and has_src(x[2]) and not is_use(uncast(x[2])):
                bases.add(strip(uncast(x[2])))
            elif fmt_args and x[0] == "call" and isinstance(x[1], str) and x[1].endswith("::new_display") and x[2]:
                a = x[2][0]
                while isinstance(a, tuple) and a and a[0] in ("ref", "deref"):
                    a = a[1]
                if has_src(a) and not is_use(a) and a[0] in ("bin", "field", "call", "cast"):
                    bases.add(strip(a))
    return bases


# ---- dominating guards of an index site ----------------------------------------------------------------------------------------
def _back_slice(mir, copies_unused, start_locals, through_calls=False):
    """locals the start locals are computed from (flow-insensitive; assignments, casts, arithmetic, aggregates, field reads; call results are leaves
    unless through_calls)"""
    defs = {}
    for b in mir["blocks"]:
        if b.get("cleanup"):
            continue
        for st in b["s"]:
            if st["k"] == "assign":
                pls = []
                _places_of(st["rv"], pls)
                defs.setdefault(st["pl"]["l"], set()).update(p["l"] for p in pls)
                for p in pls:
                    for e in p["p"]:
                        if isinstance(e, list) and e[0] == "i":
                            defs[st["pl"]["l"]].add(e[1])
        t = b["t"]
        if through_calls and t["k"] == "call" and t.get("dest"):
            pls = []
            _places_of(t["args"], pls)
            defs.setdefault(t["dest"]["l"], set()).update(p["l"] for p in pls)
    seen = set(start_locals)
    st = list(start_locals)
    while st:
        x = st.pop()
        for y in defs.get(x, ()):
            if y not in seen:
                seen.add(y)
                st.append(y)
    return seen


def index_site_guards(P, fn, bi):
    """number of dominating decisions (switch terminators) whose discriminant is computed from data that the index expression or the indexed
    value at block bi of fn is also computed from (flow-insensitive backward slices through assignments and calls)"""
    mir = P.fn(fn)["mir"]
    cfg = P.cfg(fn)
    t = mir["blocks"][bi]["t"]
    pls = []
    if t["k"] == "call":
        _places_of(t["args"], pls)
    elif t["k"] == "assert":
        _places_of({k: v for k, v in t.items() if k in ("idx", "len", "cond")}, pls)
    start = set(p["l"] for p in pls)
    sl = _back_slice(mir, None, start, through_calls=True)
    sl = {l for l in sl if l > mir["argc"] or l in start} | {l for l in start}
    n = 0
    for d in range(len(mir["blocks"])):
        if d == bi or d not in cfg.reach or not cfg.dominates(d, bi):
            continue
        td = mir["blocks"][d]["t"]
        if td["k"] != "switch" or td["discr"]["k"] not in ("copy", "move"):
            continue
        dl = _back_slice(mir, None, {td["discr"]["pl"]["l"]}, through_calls=True)
        dl = {l for l in dl if l > mir["argc"]}
        if dl & sl:
            n += 1
    return n


def opt_wrappers(chk, P, prefixes, floor, rid="SIB.opt_wrapper"):
    """Every function `p::name` that has a fallible sibling `p::name_opt` / `p::try_name` and calls fallible siblings of the same
    type at all must call exactly its own one, with its own parameters in order (a wrapper that unwraps the wrong sibling still
    type-checks when the signatures agree)."""
    from sym import Sym
    chk.rule(rid, "a wrapper `name` with a fallible sibling `name_opt` / `try_name` calls that sibling (and no other fallible sibling of the type) "
                  "with its own parameters in order", floor=floor)
    names = set(n for n, f in P.fns.items() if "mir" in f)
    for n in sorted(names):
        if "::" not in n or not n.startswith(tuple(prefixes)):
            continue
        pre, last = n.rsplit("::", 1)
        sib = [s for s in (pre + "::" + last + "_opt", pre + "::try_" + last) if s in names]
        if not sib:
            continue
        cal = {}
        for _i, t, cs in P.calls(n):
            for c in cs:
                l = c.rsplit("::", 1)[-1]
                if c in names and c.rsplit("::", 1)[0] == pre and (l.endswith("_opt") or l.startswith("try_")):
                    cal.setdefault(c, []).append(t)
        if not cal:
            continue  # goes through another type's API (NaiveDateTime::from_timestamp -> DateTime): not a sibling wrapper
        ok = set(cal) == {sib[0]} and len(cal[sib[0]]) == 1
        detail = "%s calls %s, expected only %s" % (last, sorted(c.rsplit("::", 1)[-1] for c in cal), sib[0].rsplit("::", 1)[-1])
        if ok:
            nargs = len(P.fns[sib[0]]["mir"].get("args", [])) if isinstance(P.fns[sib[0]]["mir"].get("args"), list) else None
            calls = set()
            try:
                for p in Sym(P, n).paths():
                    for x in [p.ret] + [c[1] for c in p.conds]:
                        for c in find_calls(x, lambda c: c[1] == sib[0]):
                            calls.add(c[2])
            except Exception:  # noqa: the path extraction is an extra; the callee identity above is the rule
                calls = set()
            for a in calls:
                want = tuple(("arg", i + 1) for i in range(len(a)))
                if tuple(unref(x) for x in a) != want and tuple(a) != want:
                    ok = False
                    detail = "%s passes %s to %s, expected its own parameters in order" % (last, [str(x)[:40] for x in a], sib[0].rsplit("::", 1)[-1])
        chk.expect(ok, last if n.count("::") < 1 else pre.rsplit("::", 1)[-1] + "::" + last, detail, loc=P.loc(n))


def operator_directions(chk, P, rhs_kinds, floor, rid="SIB.operator_direction"):
    """Every in-crate `impl Add/Sub/AddAssign/SubAssign<R> for T` (R among rhs_kinds) delegates in its own direction: the add/sub-named
    callees of an Add impl are all add-named (checked_add_*, overflowing_add_*, add, add_assign) and of a Sub impl all sub-named, the
    callee's suffix matches R (Months -> _months, Days -> _days, FixedOffset -> _offset, TimeDelta / Duration -> _signed), and an
    impl taking core::time::Duration converts it with TimeDelta::from_std (the whole duration, not only its seconds)."""
    import re
    chk.rule(rid, "operator impls delegate in their own direction to the checked/overflowing method for their right-hand type; std Durations are converted by TimeDelta::from_std", floor=floor)
    suffix = {"month::Months": "_months", "naive::Days": "_days", "offset::fixed::FixedOffset": "_offset", "time_delta::TimeDelta": "_signed", "std::time::Duration": "_signed"}
    for n in sorted(P.fns):
        m = re.match(r"<(.+) as std::ops::(Add|Sub)(Assign)?<(.+)>>::(add|sub)(_assign)?$", n)
        if not m or "mir" not in P.fns[n] or m.group(4) not in rhs_kinds or m.group(1).startswith("time_delta::"):
            continue
        want = m.group(2).lower()
        cs = set()
        for x in [n] + P.closures_of(n):
            cs |= set(callees(P, x, with_closures=False))
        named = sorted(set(c.rsplit("::", 1)[-1] for c in cs if re.match(r"(checked_|overflowing_)?(add|sub)(_|$)", c.rsplit("::", 1)[-1])))
        ok = bool(named) and all(re.match(r"(checked_|overflowing_)?%s(_|$)" % want, x) for x in named)
        why = "delegates to %s" % named
        if ok:
            long = [x for x in named if x.startswith(("checked_", "overflowing_"))]
            if long and not all(x.endswith(suffix[m.group(4)]) for x in long):
                ok, why = False, "delegates to %s, expected the *%s method" % (named, suffix[m.group(4)])
            # NaiveTime reduces a std Duration modulo one day itself before building the TimeDelta (decided by C07's value map)
            if ok and long and m.group(4) == "std::time::Duration" and m.group(1) != "naive::time::NaiveTime" and "time_delta::TimeDelta::from_std" not in cs:
                ok, why = False, "converts the std Duration without TimeDelta::from_std (callees %s)" % sorted(c.rsplit("::", 1)[-1] for c in cs if c.startswith("time_delta::"))
        chk.expect(ok, "%s %s<%s>" % (m.group(1).rsplit("::", 1)[-1], m.group(2) + (m.group(3) or ""), m.group(4).rsplit("::", 1)[-1]),
                   "%s: %s" % (n, why), loc=P.loc(n))
