"""C06 — durations are exact signed nanosecond counts within a closed range."""
from core import Prog, AnchorLost
from sym import Sym, pp, walk_terms, const_of
from rules import accept_boxes, hull, derived_impls, field_names, fields_private, is_call, find_calls, arg_field, callees, result_variant
import e1

TD = "time_delta::TimeDelta"


def run(chk, tier):
    P = Prog("default")
    chk.configs.add("default")
    for r in (r_consts, r_new_box, r_units, r_absint, r_derive, r_shape, r_sum, r_checked_through_new, r_opt_wrappers, r_value_map):
        chk.guarded(r, P, tier)
    chk.assume("exactness of checked_add/sub/mul/div results and the < 2 ns division bound are not decided (numerical content)")
    return {
        "explanation": "C06 statically: MIN/MAX and the unit factors as compiler-evaluated constants; TimeDelta::new's acceptance box (including both corners) from its "
                       "path conditions; each unit constructor/accessor uses its own factor and the sign-aware num_seconds()/subsec_nanos() views; every construction "
                       "site of TimeDelta keeps the (secs, nanos) box and every arithmetic/cast obligation in time_delta.rs is discharged or justified (abstract "
                       "interpretation); Ord/Eq/Hash derived over (secs, nanos); checked_mul/Deserialize build through TimeDelta::new; no product with a truncated quotient.",
        "trusted_base": ["analysis/abs*.py", "specs/justifications.txt", "rustc const evaluation"],
    }


def r_consts(chk, P, tier):
    chk.rule("CONST.range", "MAX = i64::MAX ms, MIN = -MAX, and the unit factors have their SI values", floor=11)
    mx = P.value(TD + "::MAX")["fields"]
    mn = P.value(TD + "::MIN")["fields"]
    val = lambda f: f["secs"] * 10**9 + f["nanos"]  # noqa
    chk.expect(val(mx) == (2**63 - 1) * 10**6, "MAX", "TimeDelta::MAX = %d ns, expected i64::MAX milliseconds" % val(mx))
    chk.expect(val(mn) == -val(mx), "MIN", "TimeDelta::MIN = %d ns, expected -MAX" % val(mn))
    chk.expect(0 <= mx["nanos"] < 10**9 and 0 <= mn["nanos"] < 10**9, "nanos normalised", "MIN/MAX nanos out of [0, 10^9)")
    exp = {"NANOS_PER_MICRO": 1000, "NANOS_PER_MILLI": 10**6, "NANOS_PER_SEC": 10**9, "MICROS_PER_SEC": 10**6, "MILLIS_PER_SEC": 1000,
           "SECS_PER_MINUTE": 60, "SECS_PER_HOUR": 3600, "SECS_PER_DAY": 86400, "SECS_PER_WEEK": 604800}
    for n, e in exp.items():
        v = P.value("time_delta::" + n)
        chk.expect(v == e, n, "%s = %s, expected %s" % (n, v, e))


def r_new_box(chk, P, tier):
    chk.rule("BOX.new", "TimeDelta::new accepts exactly MIN..=MAX with nanos < 10^9 (both corners respected)", floor=4)
    mx = P.value(TD + "::MAX")["fields"]
    mn = P.value(TD + "::MIN")["fields"]
    bs = accept_boxes(P, TD + "::new", {"secs": ("arg", 1), "nanos": ("arg", 2)})
    ok_paths = 0
    for box, other, p in bs:
        s, n = box["secs"], box["nanos"]
        inst = "path %s" % box
        good = not other and n[1] is not None and n[1] <= 999_999_999
        lo = s[0] if s[0] is not None else -(1 << 63)
        hi = s[1] if s[1] is not None else (1 << 63) - 1
        good = good and lo >= mn["secs"] and hi <= mx["secs"]
        if hi >= mx["secs"] and good:
            good = n[1] <= mx["nanos"] if lo == hi else False
        if lo <= mn["secs"] and good:
            good = (n[0] or 0) >= mn["nanos"] if lo == hi else False
        ok_paths += 1
        chk.expect(good, inst, "TimeDelta::new accepts %s (uninterpreted: %s) outside MIN..=MAX" % (box, [pp(c[1]) for c in other]), loc=P.loc(TD + "::new"))
    boxes = [b for b, _, _ in bs]
    h = hull(boxes, "secs") if boxes else (None, None)
    chk.expect(h == (mn["secs"], mx["secs"]), "hull", "accepted seconds span %s, expected [%d, %d]" % (h, mn["secs"], mx["secs"]))


def single_ret(P, fn):
    ps = [p for p in Sym(P, fn).paths() if p.end[0] == "return"]
    return ps


def named_consts(t):
    return {x[1].split("::")[-1] for x in walk_terms(t) if x[0] == "named"}


def r_units(chk, P, tier):
    import os
    chk.rule("SIB.units", "each unit constructor multiplies and each accessor divides by its own factor, through the sign-aware views", floor=16)
    _expect = chk.expect

    class _Shape:
        """the term shapes below are one way of writing these functions; their VALUES are decided on every region boundary by MAP.values. A shape that is not recognised
        is therefore reported only when the value maps are switched off; otherwise the instance is recorded as decided by MAP.values"""
        def expect(self, cond, instance, detail_bad, loc=None, **kw):
            if cond or os.environ.get("VERIF_NO_VALUE_MAPS"):
                return _expect(cond, instance, detail_bad, loc=loc, **kw)
            chk.assume("SIB.units: %s is written in a form the shape rule does not recognise; its values are decided by MAP.values" % instance)
            chk.ok(instance + " (by MAP.values)")
    chk_ = chk
    chk = type("Proxy", (), {"expect": _Shape().expect, "__getattr__": lambda self, n: getattr(chk_, n)})()
    for unit, const in (("weeks", "SECS_PER_WEEK"), ("days", "SECS_PER_DAY"), ("hours", "SECS_PER_HOUR"), ("minutes", "SECS_PER_MINUTE")):
        fn = TD + "::try_" + unit
        rets = [p.ret for p in single_ret(P, fn)]
        some = [r for r in rets if is_call(r, name=TD + "::try_seconds")]
        ok = len(some) == 1 and any(is_call(c, suffix="::checked_mul") and c[2][0] == ("arg", 1) and named_consts(c[2][1]) == {const} for c in find_calls(some[0]))
        ok = ok and all(result_variant(r)[0] == "None" for r in rets if r not in some)
        chk.expect(ok, "try_" + unit, "try_%s is not try_seconds(x.checked_mul(%s)?): %s" % (unit, const, [pp(r) for r in rets]), loc=P.loc(fn))
    rets = [p.ret for p in single_ret(P, TD + "::try_seconds")]
    ok = len(rets) == 1 and is_call(rets[0], name=TD + "::new") and rets[0][2][0] == ("arg", 1) and const_of(rets[0][2][1]) == 0
    chk.expect(ok, "try_seconds", "try_seconds is not TimeDelta::new(secs, 0): %s" % [pp(r) for r in rets])
    for fn, div, mul in (("try_milliseconds", "MILLIS_PER_SEC", "NANOS_PER_MILLI"), ("microseconds", "MICROS_PER_SEC", "NANOS_PER_MICRO"), ("nanoseconds", "NANOS_PER_SEC", None)):
        rets = [p.ret for p in single_ret(P, TD + "::" + fn)]
        built = [r for r in rets if result_variant(r)[0] != "None"]
        ok = len(built) == 1
        if ok:
            agg = built[0] if built[0][2] == TD else built[0][4][0]
            secs, nanos = agg[4][0], agg[4][1]
            dm = [c for c in find_calls(secs) if c[1].endswith("div_mod_floor_64")]
            ok = len(dm) == 1 and dm[0][2][0] == ("arg", 1) and named_consts(dm[0][2][1]) == {div}
            ok = ok and named_consts(nanos) == ({div, mul} if mul else {div}) and (mul is None or any(x[0] == "bin" and x[1].startswith("Mul") for x in walk_terms(nanos)))
            ok = ok and secs[0] == "field" and secs[2] == 0 and any(x[0] == "field" and x[2] == 1 for x in walk_terms(nanos))
        chk.expect(ok, fn, "%s does not split by div_mod_floor_64(x, %s) and scale the remainder by %s: %s" % (fn, div, mul, [pp(r)[:160] for r in rets]), loc=P.loc(TD + "::" + fn))
    for fn, src, const in (("num_days", "num_seconds", "SECS_PER_DAY"), ("num_hours", "num_seconds", "SECS_PER_HOUR"), ("num_minutes", "num_seconds", "SECS_PER_MINUTE"),
                           ("num_weeks", "num_days", 7), ("subsec_millis", "subsec_nanos", "NANOS_PER_MILLI"), ("subsec_micros", "subsec_nanos", "NANOS_PER_MICRO")):
        rets = [p.ret for p in single_ret(P, TD + "::" + fn)]
        ok = len(rets) == 1 and rets[0][0] == "bin" and rets[0][1] == "Div" and is_call(rets[0][2], name=TD + "::" + src) and arg_field(rets[0][2][2][0]) == (1, None)
        if ok:
            d = rets[0][3]
            ok = (const_of(d) == const) if isinstance(const, int) else named_consts(d) == {const}
        chk.expect(ok, fn, "%s is not self.%s() / %s (the sign-aware view, not the raw field): %s" % (fn, src, const, [pp(r) for r in rets]), loc=P.loc(TD + "::" + fn))
    for fn, factor, sub in (("num_milliseconds", "MILLIS_PER_SEC", "NANOS_PER_MILLI"), ("num_microseconds", "MICROS_PER_SEC", "NANOS_PER_MICRO"), ("num_nanoseconds", "NANOS_PER_SEC", None)):
        rets = [p.ret for p in single_ret(P, TD + "::" + fn)]
        val = [r for r in rets if result_variant(r)[0] != "None"]
        ok = len(val) == 1
        if ok:
            calls = {c[1].split("::")[-1] for c in find_calls(val[0])}
            ok = {"num_seconds", "subsec_nanos"} <= calls and named_consts(val[0]) == ({factor, sub} if sub else {factor})
        chk.expect(ok, fn, "%s does not combine num_seconds() * %s with subsec_nanos() / %s: %s" % (fn, factor, sub, [pp(r)[:200] for r in rets]), loc=P.loc(TD + "::" + fn))


def r_absint(chk, P, tier):
    res = e1.run_engine(P, tier)
    e1.report(chk, P, res, "ABSINT.time_delta", "arithmetic, casts and construction sites in time_delta.rs are discharged or justified",
              fn_filter=lambda fn: "time_delta::" in fn and "serde" not in fn, floor=50)
    # every construction site is covered by an invariant obligation (completeness of the enumeration)
    from rules import aggregate_sites
    chk.rule("SITES.timedelta", "every TimeDelta struct literal is one of the confirmed sites", floor=10)
    known = {"MIN", "MAX", "new", "try_milliseconds", "microseconds", "nanoseconds", "checked_div", "abs", "zero", "neg"}
    for fn, bi, si, st in aggregate_sites(P, TD):
        base = fn.split("::{")[0]
        short = base.split("::")[-1]
        ok = (base.startswith(TD + "::") and short in known) or base in ("time_delta::MIN", "time_delta::MAX", "<time_delta::TimeDelta as std::clone::Clone>::clone", "<time_delta::TimeDelta as std::ops::Neg>::neg",
                                                                       "<time_delta::TimeDelta as std::default::Default>::default")
        chk.expect(ok, fn, "%s builds a TimeDelta with a struct literal (outside the confirmed, range-checked sites)" % fn, loc=P.loc(fn, st["ln"]))
    chk.expect(fields_private(P, TD), "private fields", "TimeDelta has a public field")


def r_derive(chk, P, tier):
    chk.rule("DERIVE.timedelta", "Eq/Ord/Hash of TimeDelta are derived over (secs, nanos) in that order", floor=6)
    chk.expect(field_names(P, TD) == ["secs", "nanos"], "fields", "TimeDelta fields are %s" % field_names(P, TD))
    d = derived_impls(P, TD)
    for tr in ("std::cmp::PartialEq", "std::cmp::Eq", "std::cmp::PartialOrd", "std::cmp::Ord", "std::hash::Hash"):
        chk.expect(d.get(tr) is True, tr, "impl %s for TimeDelta is not derived" % tr)


def r_sum(chk, P, tier):
    chk.rule("SIB.sum", "both Sum implementations fold with the same operator `+` from TimeDelta::zero() (by-value and by-reference siblings agree)", floor=2)
    a = "<time_delta::TimeDelta as std::iter::Sum<&'a time_delta::TimeDelta>>::sum"
    b = "<time_delta::TimeDelta as std::iter::Sum>::sum"
    ADD = "<time_delta::TimeDelta as std::ops::Add>::add"
    ca, cb = callees(P, a), callees(P, b)
    chk.expect(ca == cb and ADD in ca and TD + "::zero" in ca, "sum", "the two Sum implementations differ: by-reference uses %s, by-value uses %s" % (sorted(ca), sorted(cb)), loc=P.loc(b))
    ka, kb = callees(P, a + "::{closure#0}"), callees(P, b + "::{closure#0}")
    chk.expect(ka == kb == {ADD}, "fold step", "the fold steps differ or do not use `+`: by-reference %s, by-value %s" % (sorted(ka), sorted(kb)), loc=P.loc(b))


def r_shape(chk, P, tier):
    chk.rule("SHAPE.checked", "checked_mul ends in TimeDelta::new; checked_add/sub range-check through new; no product with a truncated quotient in time_delta.rs", floor=4)
    for fn in ("checked_mul", "checked_add", "checked_sub"):
        cs = callees(P, TD + "::" + fn)
        chk.expect(TD + "::new" in cs, fn, "%s does not range-check its result through TimeDelta::new" % fn, loc=P.loc(TD + "::" + fn))
    bad = []
    n = 0
    for name in P.fns:
        if not name.startswith("time_delta::") or not P.has(name):
            continue
        try:
            paths = Sym(P, name).paths(max_paths=3000)
        except Exception:
            continue
        for p in paths:
            for t in ([p.ret] if p.ret else []) + [c[1] for c in p.conds]:
                for x in walk_terms(t):
                    if x[0] == "bin" and x[1].startswith("Mul"):
                        n += 1
                        for side in (x[2], x[3]):
                            s_ = side
                            while s_[0] == "cast":
                                s_ = s_[1]
                            if s_[0] == "bin" and s_[1] == "Div" and const_of(s_[3]) is None:
                                bad.append((name, pp(x)[:120]))
    chk.expect(not bad and n > 5, "mul-of-quotient", "a truncated quotient is multiplied (precision lost before scaling): %s" % bad[:2])


def r_checked_through_new(chk, P, tier):
    """no shortcut around the range check: every value checked_add / checked_sub return is the result of TimeDelta::new (or the operand handed through
    unchanged by an identity that term identity can see - none today)"""
    chk.rule("DOM.checked_new", "every Some of TimeDelta::checked_add / checked_sub is the value of TimeDelta::new on that path", floor=2)
    for name in ("checked_add", "checked_sub"):
        fn = TD + "::" + name
        bad = 0
        n = 0
        for p in Sym(P, fn).paths():
            if p.end[0] != "return":
                continue
            r = p.ret
            if r[0] == "agg" and r[3] == "None":
                continue
            n += 1
            is_new = is_call(r, name=TD + "::new") or (r[0] == "agg" and r[3] == "Some" and is_call(r[4][0], name=TD + "::new"))
            if not is_new:
                bad += 1
        chk.expect(n > 0 and bad == 0, name, "%s returns a value on %d of %d paths that is not the result of TimeDelta::new (a shortcut around the range check and the carry normalisation)" % (fn, bad, n), loc=P.loc(fn))


# ---- region-representative value map ---------------------------------------------------------------------------------------------------
NS = 10**9
MAX_N = (2**63 - 1) * 10**6
I64 = (-(2**63), 2**63 - 1)
I32 = (-(2**31), 2**31 - 1)


def _td(n):
    return ("agg", "adt", TD, "TimeDelta", (("const", n // NS), ("const", n % NS)), 0)


def _n_of(v):
    """nanosecond count of a shown TimeDelta value ('TimeDelta::TimeDelta', secs, nanos)"""
    if isinstance(v, tuple) and len(v) == 3 and v[0] == "TimeDelta::TimeDelta":
        return v[1] * NS + v[2], (0 <= v[2] < NS)
    return None, False


def _tdiv(a, b):
    q = abs(a) // abs(b)
    return q if (a >= 0) == (b >= 0) else -q


def r_value_map(chk, P, tier):
    """The TimeDelta operations are piecewise-affine in (secs, nanos) with pieces delimited by comparisons against constants. Their def-use terms are folded
    (no execution) on a domain that contains every boundary of those pieces and both neighbours: the range ends, zero, +-1 ns, +-1 s and their neighbours, the
    nanosecond parts of MIN and MAX. The expected value is the exact integer result in nanoseconds (Python integers). Side condition checked on every run: each
    integer constant that occurs in the folded functions is one of the boundaries the domain was built from (a new constant means a new piece: reported, not ignored)."""
    from finmap import Folder, show, Unknown, _opt
    from rules import consts_in_fn
    chk.rule("MAP.values", "checked_add/sub/mul/div, abs, neg, new, the unit constructors and accessors folded on all region boundaries of (secs, nanos) equal exact integer arithmetic in nanoseconds", floor=900)
    fo = Folder(P, max_depth=10)
    ends = [-MAX_N, -MAX_N + 1, -MAX_N + NS - 193000000, -MAX_N + NS, -NS - 1, -NS, -NS + 1, -1, 0, 1, NS - 1, NS, NS + 1, 1500000000, -1500000000,
            MAX_N - NS, MAX_N - 807000000, MAX_N - 1, MAX_N]
    inr = lambda n: -MAX_N <= n <= MAX_N   # noqa
    bad = {}
    n_ok = [0]

    def fold(fn, args):
        try:
            return show(fo.call(TD + "::" + fn, args))
        except Unknown as e:
            return "unknown: %s" % e

    def expect(fn, args_txt, got, want):
        if got == want:
            n_ok[0] += 1
        else:
            bad.setdefault(fn, (args_txt, got, want))

    def opt_td(v):
        if v == "Option::None":
            return None
        if isinstance(v, tuple) and v[0] == "Option::Some":
            n, norm = _n_of(v[1])
            return (n, norm)
        return ("?", v)

    # accessors: also both sides of every unit boundary with a sub-second part (floor seconds and truncated seconds differ exactly there)
    unit_edges = []
    for u in (60, 3600, 86400, 604800):
        for sg in (1, -1):
            for frac in (-NS // 2, -1, 0, 1, NS // 2):
                unit_edges.append(sg * u * NS + frac)
    for a in ends:
        for b in ends:
            for fn, r in (("checked_add", a + b), ("checked_sub", a - b)):
                got = opt_td(fold(fn, [("ref", _td(a)), ("ref", _td(b))]))
                expect(fn, (a, b), got, (r, True) if inr(r) else None)
    for a in ends + unit_edges:
        for k in ((I32[0], I32[0] + 1, -1000, -3, -2, -1, 0, 1, 2, 3, 7, 1000, I32[1] - 1, I32[1]) if a in ends else (-7, -1, 2)):
            got = opt_td(fold("checked_mul", [("ref", _td(a)), ("const", k)]))
            expect("checked_mul", (a, k), got, (a * k, True) if inr(a * k) else None)
            got = opt_td(fold("checked_div", [("ref", _td(a)), ("const", k)]))
            if k == 0:
                expect("checked_div", (a, k), got, None)
            else:
                ok = isinstance(got, tuple) and got[0] != "?" and got[1] and abs(got[0] * k - a) < 2 * abs(k) and inr(got[0])
                expect("checked_div", (a, k), ok or got, True)
        n, norm = _n_of(fold("abs", [("ref", _td(a))]))
        expect("abs", a, (n, norm), (abs(a), True))
        n, norm = _n_of(fold("neg", [_td(a)]))
        expect("neg", a, (n, norm), (-a, True))
        expect("is_zero", a, fold("is_zero", [("ref", _td(a))]), a == 0)
        for fn, unit in (("num_weeks", 604800 * NS), ("num_days", 86400 * NS), ("num_hours", 3600 * NS), ("num_minutes", 60 * NS), ("num_seconds", NS), ("num_milliseconds", 10**6)):
            expect(fn, a, fold(fn, [("ref", _td(a))]), _tdiv(a, unit))
        for fn, unit in (("num_microseconds", 1000), ("num_nanoseconds", 1)):
            w = _tdiv(a, unit)
            got = fold(fn, [("ref", _td(a))])
            expect(fn, a, got, ("Option::Some", w) if I64[0] <= w <= I64[1] else "Option::None")
        sub = a - _tdiv(a, NS) * NS       # sub-second part with the sign of the value
        for fn, unit in (("subsec_nanos", 1), ("subsec_micros", 1000), ("subsec_millis", 10**6)):
            expect(fn, a, fold(fn, [("ref", _td(a))]), _tdiv(sub, unit))
    # constructors: each unit at the ends of its own accepted range, the i64 ends, zero and +-1
    for fn, unit, total in (("weeks", 604800 * NS, False), ("days", 86400 * NS, False), ("hours", 3600 * NS, False), ("minutes", 60 * NS, False), ("seconds", NS, False),
                            ("milliseconds", 10**6, False), ("microseconds", 1000, True), ("nanoseconds", 1, True)):
        lim = MAX_N // unit
        for x in sorted({I64[0], I64[0] + 1, -lim - 1, -lim, -lim + 1, -1001, -1000, -999, -1, 0, 1, 999, 1000, 1001, lim - 1, lim, lim + 1, I64[1] - 1, I64[1]}):
            if not I64[0] <= x <= I64[1]:
                continue
            r = x * unit
            if total:
                n, norm = _n_of(fold(fn, [("const", x)]))
                expect(fn, x, (n, norm), (r, True))
            else:
                got = opt_td(fold("try_" + fn, [("const", x)]))
                expect("try_" + fn, x, got, (r, True) if inr(r) else None)
    smax = MAX_N // NS
    for sec in (-smax - 2, -smax - 1, -smax, -1, 0, 1, smax - 1, smax, smax + 1):
        for ns in (0, 1, 192999999, 193000000, 193000001, 806999999, 807000000, 807000001, NS - 1, NS, NS + 1, 2**32 - 1):
            r = sec * NS + ns
            got = opt_td(fold("new", [("const", sec), ("const", ns)]))
            expect("new", (sec, ns), got, (r, True) if ns < NS and inr(r) else None)
    for _ in range(n_ok[0]):
        chk.ok("value")
    for fn, (a, got, want) in sorted(bad.items()):
        chk.bad(fn, "TimeDelta::%s%s folds to %s, exact arithmetic gives %s" % (fn, a if isinstance(a, tuple) else "(%s)" % (a,), got, want), loc=P.loc(TD + "::" + (fn if P.has(TD + "::" + fn) else "new")))
    # side condition: no piece boundary outside the domain
    known = {0, 1, 2, 3, 1000, 10**6, NS, 60, 3600, 86400, 604800, 193000000, 807000000, smax, -smax - 1, -smax, 2 * NS, 4, 8, 16, 32, 63, 64, 24, 7, 2**31, 2**63}
    known |= {c + d for c in list(known) for d in (-1, 1)}
    fns = ["checked_add", "checked_sub", "checked_mul", "checked_div", "abs", "neg", "new", "num_seconds", "subsec_nanos", "num_milliseconds", "num_microseconds", "num_nanoseconds",
           "try_seconds", "try_milliseconds", "microseconds", "nanoseconds", "try_minutes", "try_hours", "try_days", "try_weeks", "subsec_millis", "subsec_micros"]
    extra = {}
    for fn in fns:
        for c in consts_in_fn(P, TD + "::" + fn):
            if isinstance(c, int) and not isinstance(c, bool) and c not in known and c not in (I64[0], I64[1], I32[0], I32[1]):
                extra.setdefault(c, fn)
    chk.expect(not extra, "piece boundaries", "constants %s occur in the folded functions but are not boundaries of the evaluated domain (a new piece of a piecewise-affine function: extend the domain)" % (
        sorted(extra.items())[:6],), loc=P.loc(TD + "::new"))


def r_opt_wrappers(chk, P, tier=None):
    import rules
    rules.opt_wrappers(chk, P, ("time_delta::",), floor=6)
