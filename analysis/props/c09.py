"""C09 — default text forms parse back (narrow: writer/reader agreement on separators, fields, tables)."""
from core import Prog, AnchorLost
from sym import Sym, pp, walk_terms, const_of, thaw
from rules import is_call, find_calls, arg_field, result_variant, callees, unref
import scan_tables
import fmt_tables as ft


def decode_template(bs):
    """literal text / placeholders of a compiled format template (fmt::Arguments::new): 0 = end, 1..=127 = literal run of that
    many bytes, 0xC0 = `{}`, 0xC3 = placeholder followed by 6 option bytes. Anything else: fail closed."""
    out = ""
    i = 0
    while i < len(bs):
        b = bs[i]
        if b == 0:
            break
        if b < 0x80:
            out += bytes(bs[i + 1:i + 1 + b]).decode("utf-8", "replace")
            i += 1 + b
        elif b == 0xC0:
            out += "#"
            i += 1
        elif b == 0xC3:
            out += "#"
            i += 7
        else:
            raise AnchorLost("unknown fmt template opcode %d in %s" % (b, bs))
    return out


def skeletons(P, fn):
    """set of output skeletons of a Debug/Display body: literals as text, numeric writes as '#', nested fmt calls as <Type:Trait>"""
    out = set()
    for p in Sym(P, fn).paths():
        if p.end[0] != "return" or (p.ret is not None and is_call(p.ret) and "from_residual" in p.ret[1]):
            continue
        s = ""
        for c in p.calls:
            n = c[1] if isinstance(c[1], str) else ""
            if n.endswith("::write_char") or n.endswith("::write_str"):
                v = const_of(unref(c[2][1]))
                if isinstance(v, tuple) and v and v[0][0] == "char":
                    s += chr(v[0][1])
                elif isinstance(v, str):
                    s += v
                else:
                    s += "?"
            elif n.endswith("Arguments::<'a>::new"):
                tmpl = const_of(unref(c[2][0]))
                if isinstance(tmpl, tuple):
                    s += decode_template(list(tmpl))
                else:
                    s += "?"
            elif n.endswith("Arguments::<'a>::from_str"):
                v = const_of(unref(c[2][0]))
                s += v if isinstance(v, str) else "?"
            elif "write_hundreds" in n:
                s += "#"
            elif n.endswith("::fmt") and " as std::fmt::" in n:
                ty = n.split(" as ")[0].lstrip("<").split("::")[-1]
                s += "<%s:%s>" % (ty, n.split("std::fmt::")[1].split(">")[0])
            elif n.endswith("?std::fmt::Debug::fmt") or n == "std::fmt::Debug::fmt" or n.endswith("std::fmt::Display::fmt"):
                s += "<offset:%s>" % ("Debug" if "Debug" in n else "Display")
        out.add(s)
    return out


def reader_skeleton(items):
    s = ""
    for it in items:
        c = ft.item_of(it)
        if c[0] == "Numeric":
            s += "#"
        elif c[0] == "Literal":
            s += c[1]
        elif c[0] == "Space":
            s += c[1]
        elif c[0] == "Fixed":
            s += "[%s]" % c[1][0]
    return s


def run(chk, tier):
    P = Prog("default")
    chk.configs.add("default")
    for r in (r_naive, r_datetime, r_offset, r_names, r_delegation, r_fraction_base):
        chk.guarded(r, P, tier)
    from props import c13, c10
    chk.guarded(c13.r_sign_arms, P, tier)
    chk.guarded(c10.r_own_ranges, P, tier)
    chk.guarded(r_month_from_str, P, tier)
    chk.guarded(r_plain_year, P, tier)
    chk.guarded(c10.r_fraction_scale, P, tier)
    chk.guarded(r_write_hundreds, P, tier)
    chk.guarded(r_offset_from_str, P, tier)
    chk.assume("sign/width of out-of-range years, the 0/3/6/9 fraction digits, second 60 and offset padding (the round trip itself) are NOT decided")
    return {
        "explanation": "Narrow claim for C09: the default writers and the readers agree structurally. The separator/placeholder skeleton written by Debug (and Display) of "
                       "NaiveDate, NaiveTime, NaiveDateTime equals the item list their FromStr uses; DateTime's Debug/Display are composed of those plus the offset, and the "
                       "relaxed RFC 3339 reader accepts every separator they can emit ('T' and ' ', optional space, `UTC`/`Z`/numeric offset); FixedOffset's writer takes the "
                       "sign from the whole offset and its reader is the colon-or-space offset scanner; Weekday/Month names against the scanners; Display delegates to Debug "
                       "where the property says they coincide.",
        "trusted_base": ["analysis/sym.py", "decoding of rustc's compiled format templates (fail closed on unknown opcodes)"],
    }


def items_of(P, const_path):
    return P.value(const_path)


def r_naive(chk, P, tier):
    chk.rule("SEP.naive", "Debug/Display skeletons of the naive types equal their FromStr item lists", floor=5)
    d_items = items_of(P, "<naive::date::NaiveDate as std::str::FromStr>::from_str::ITEMS")
    dt_items = items_of(P, "<naive::datetime::NaiveDateTime as std::str::FromStr>::from_str::ITEMS")
    t_items = list(items_of(P, "<naive::time::NaiveTime as std::str::FromStr>::from_str::HOUR_AND_MINUTE")) + \
        list(items_of(P, "<naive::time::NaiveTime as std::str::FromStr>::from_str::SECOND_AND_NANOS"))
    rd, rt, rdt = reader_skeleton(d_items), reader_skeleton(t_items), reader_skeleton(dt_items)
    wd = skeletons(P, "<naive::date::NaiveDate as std::fmt::Debug>::fmt")
    # year is written either as two 2-digit halves or as one signed number: both are one numeric field for the reader
    wd_n = {s.replace("##-", "#-", 1) if s.startswith("##-") else s for s in wd}
    chk.expect(wd_n == {rd} and rd == "#-#-#", "NaiveDate Debug", "NaiveDate Debug writes %s, FromStr reads %s" % (sorted(wd), rd), loc=P.loc("<naive::date::NaiveDate as std::fmt::Debug>::fmt"))
    wt = skeletons(P, "<naive::time::NaiveTime as std::fmt::Debug>::fmt")
    ok = rt == "#:#:#[Nanosecond]" and wt == {"#:#:#", "#:#:#.#"}
    chk.expect(ok, "NaiveTime Debug", "NaiveTime Debug writes %s, FromStr reads %s" % (sorted(wt), rt), loc=P.loc("<naive::time::NaiveTime as std::fmt::Debug>::fmt"))
    chk.expect(rdt == rd + "T" + rt, "NaiveDateTime items", "NaiveDateTime's FromStr items %s are not date items + 'T' + time items" % rdt)
    w = skeletons(P, "<naive::datetime::NaiveDateTime as std::fmt::Debug>::fmt")
    chk.expect(w == {"<NaiveDate:Debug>T<NaiveTime:Debug>"}, "NaiveDateTime Debug", "NaiveDateTime Debug writes %s, FromStr expects date 'T' time" % sorted(w),
               loc=P.loc("<naive::datetime::NaiveDateTime as std::fmt::Debug>::fmt"))
    w = skeletons(P, "<naive::datetime::NaiveDateTime as std::fmt::Display>::fmt")
    sep = sorted({s.split(">", 1)[1].split("<", 1)[0] for s in w if s.count("<") == 2})
    reader_sep = "T"
    chk.expect(sep == [reader_sep], "NaiveDateTime Display separator",
               "NaiveDateTime's Display writes %r between date and time but its FromStr only accepts %r: the Display form does not parse back" % (sep, reader_sep),
               loc=P.loc("<naive::datetime::NaiveDateTime as std::fmt::Display>::fmt"))


def r_datetime(chk, P, tier):
    chk.rule("SEP.datetime", "DateTime's Debug/Display are naive form + offset form, and the relaxed RFC 3339 reader accepts every separator they emit", floor=5)
    wdbg = skeletons(P, "<datetime::DateTime<Tz> as std::fmt::Debug>::fmt")
    wdsp = skeletons(P, "<datetime::DateTime<Tz> as std::fmt::Display>::fmt")
    chk.expect(wdbg == {"<NaiveDateTime:Debug><offset:Debug>"}, "Debug", "DateTime Debug writes %s" % sorted(wdbg))
    chk.expect(wdsp == {"<NaiveDateTime:Display> <offset:Display>"}, "Display", "DateTime Display writes %s" % sorted(wdsp))
    # reader: FromStr for DateTime<FixedOffset> -> parse_rfc3339_relaxed
    fs = [n for n in P.fns if n.endswith("FromStr for datetime::DateTime<offset::fixed::FixedOffset>>::from_str") and P.has(n)]
    if not fs:
        raise AnchorLost("FromStr for DateTime<FixedOffset>")
    chk.expect("format::parse::parse_rfc3339_relaxed" in callees(P, fs[0]), "reader", "DateTime<FixedOffset>::from_str does not use parse_rfc3339_relaxed")
    fn = "format::parse::parse_rfc3339_relaxed"
    seps = set()
    utc = False
    trim = False
    zulu = None
    for p in Sym(P, fn).paths():
        for c in p.conds:
            if c[0][0] == "switch" and not isinstance(c[2], tuple) and c[2] in (84, 116, 32) and any(is_call(x, suffix="<impl [T]>::first") for x in walk_terms(c[1])):
                seps.add(chr(c[2]))
        for c in p.calls:
            n = c[1] if isinstance(c[1], str) else ""
            if n.endswith("trim_start"):
                trim = True
            if n.endswith("eq_ignore_ascii_case") and any(const_of(unref(a)) == "UTC" or (isinstance(const_of(unref(a)), tuple) and bytes(const_of(unref(a))) == b"UTC") for a in c[2] for a in [a] + [x for x in walk_terms(a)]):
                utc = True
            if n == "format::scan::timezone_offset":
                zulu = const_of(c[2][2])
    chk.expect(seps == {"T", "t", " "}, "separators", "relaxed reader accepts date/time separators %s, writers emit 'T' (Debug) and ' ' (Display)" % sorted(seps), loc=P.loc(fn))
    chk.expect(trim and utc and zulu is True, "offset part", "relaxed reader must skip spaces, accept `UTC` and `Z` (trim_start=%s, UTC=%s, allow_zulu=%s)" % (trim, utc, zulu), loc=P.loc(fn))
    wu = (skeletons(P, "<offset::utc::Utc as std::fmt::Debug>::fmt"), skeletons(P, "<offset::utc::Utc as std::fmt::Display>::fmt"))
    chk.expect(wu == ({"Z"}, {"UTC"}), "Utc forms", "Utc writes Debug %s / Display %s" % wu)


def r_offset(chk, P, tier):
    chk.rule("SIGN.fixed_offset", "FixedOffset's writer takes the sign from the whole offset, prints hh:mm[:ss] of |offset|; its reader is scan::timezone_offset", floor=3)
    fn = "<offset::fixed::FixedOffset as std::fmt::Debug>::fmt"
    ok = True
    n = 0
    sk = skeletons(P, fn)
    for p in Sym(P, fn).paths():
        if p.end[0] != "return":
            continue
        n += 1
        neg = None
        for c in p.conds:
            if c[0][0] == "switch" and c[1][0] == "bin" and c[1][1] == "Lt" and arg_field(c[1][2]) == (1, 0) and const_of(c[1][3]) == 0:
                neg = (c[2] != 0) if not isinstance(c[2], tuple) else True
        disp = [c[2][0] for c in p.calls if isinstance(c[1], str) and c[1].endswith("new_display")]
        if neg is None or len(disp) < 3:
            ok = False
            continue
        sign = const_of(unref(disp[0]))
        ch = chr(sign[0][1]) if isinstance(sign, tuple) and sign and sign[0][0] == "char" else None
        ok = ok and ch == ("-" if neg else "+")
        # magnitudes are computed from -offset on the negative path
        has_neg = any(x[0] == "un" and x[1] == "Neg" for d in disp[1:] for x in walk_terms(d))
        ok = ok and has_neg == neg
    chk.expect(ok and n >= 4, "sign", "FixedOffset's Debug does not derive '+'/'-' from `offset < 0` with magnitudes of |offset| on every path", loc=P.loc(fn))
    chk.expect(sk == {"##:#", "##:#:#"}, "skeleton", "FixedOffset's Debug writes %s, expected sign hh:mm[:ss]" % sorted(sk), loc=P.loc(fn))
    fs = "<offset::fixed::FixedOffset as std::str::FromStr>::from_str"
    cs = callees(P, fs)
    chk.expect("format::scan::timezone_offset" in cs, "reader", "FixedOffset::from_str does not use scan::timezone_offset: %s" % sorted(c.split("::")[-1] for c in cs), loc=P.loc(fs))
    d = skeletons(P, "<offset::fixed::FixedOffset as std::fmt::Display>::fmt")
    chk.expect(d == {"<FixedOffset:Debug>"}, "Display = Debug", "FixedOffset Display writes %s" % sorted(d))


def r_names(chk, P, tier):
    chk.rule("TBL.names", "Weekday/Month default text against the scanners behind their FromStr", floor=4)
    months = ["January", "February", "March", "April", "May", "June", "July", "August", "September", "October", "November", "December"]
    days = ["Monday", "Tuesday", "Wednesday", "Thursday", "Friday", "Saturday", "Sunday"]
    sm, sw = scan_tables.short_month_table(P), scan_tables.short_weekday_table(P)
    lw, lm = scan_tables.long_suffixes(P)
    chk.expect(sm == {m[:3].lower(): i for i, m in enumerate(months)} and lm == [m[3:].lower() for m in months], "months",
               "month scanner tables: %s / %s" % (sm, lm), loc=P.loc("format::scan::short_or_long_month0"))
    chk.expect(sw == {d[:3].lower(): d[:3] for d in days} and lw == [d[3:].lower() for d in days], "weekdays", "weekday scanner tables: %s / %s" % (sw, lw))
    for ty, scanner in (("weekday::Weekday", "format::scan::short_or_long_weekday"), ("month::Month", "format::scan::short_or_long_month0")):
        fs = [n for n in P.fns if n.endswith("FromStr for %s>::from_str" % ty) and P.has(n)]
        ok = bool(fs) and scanner in callees(P, fs[0])
        chk.expect(ok, "FromStr for " + ty, "FromStr for %s does not use %s" % (ty, scanner))


def r_delegation(chk, P, tier):
    chk.rule("DELEG.display", "Display of NaiveDate / NaiveTime is their Debug form", floor=2)
    for ty in ("naive::date::NaiveDate", "naive::time::NaiveTime"):
        s = skeletons(P, "<%s as std::fmt::Display>::fmt" % ty)
        short = ty.split("::")[-1]
        chk.expect(s == {"<%s:Debug>" % short}, ty, "%s Display writes %s, expected delegation to Debug" % (ty, sorted(s)))


def r_fraction_base(chk, P, tier):
    """NaiveTime's Debug/Display choose 0/3/6/9 fractional digits by testing the sub-second value and print a quotient of it: on every path the
    value that is tested and the value that is printed are the same term (the leap-adjusted fraction on leap-second paths)"""
    from rules import path_bases
    chk.rule("SIB.fraction_base", "in NaiveTime's Debug::fmt the fraction tested for trailing zeros and the fraction printed are one and the same value on every path", floor=4)
    fn = "<naive::time::NaiveTime as std::fmt::Debug>::fmt"
    src = ("field", ("deref", ("arg", 1)), 1)
    if [f["name"] for f in P.adts["naive::time::NaiveTime"]["variants"][0]["fields"]][1] != "frac":
        raise AnchorLost("NaiveTime field 1 is not frac")
    n1 = 0
    worst = None
    for p in Sym(P, fn).paths():
        if p.end[0] != "return":
            continue
        b = path_bases(p, lambda x: x == src, (1000, 1000000))
        if len(b) == 1:
            n1 += 1
        elif len(b) > 1 and worst is None:
            worst = sorted(pp(x)[:60] for x in b)
    chk.expect(worst is None, "single base", "NaiveTime's Debug::fmt tests and prints different sub-second values on one path: %s" % worst, loc=P.loc(fn))
    for k in range(min(n1, 3)):
        chk.ok("path with one base #%d" % (k + 1))
    chk.expect(n1 >= 3, "fraction paths found", "only %d paths of NaiveTime's Debug::fmt use the sub-second value (anchor lost)" % n1)


def r_month_from_str(chk, P, tier):
    """Month::from_str maps the scanner's month0 index k to the (k+1)-th month"""
    from rules import extract_switch_map
    chk.rule("TBL.month_from_str", "Month::from_str maps the scanned index 0..=11 to January..December in order", floor=12)
    fn = "format::<impl std::str::FromStr for month::Month>::from_str"
    names = [v["name"] for v in P.adts["month::Month"]["variants"]]
    got = {}
    for p in Sym(P, fn).paths():
        if p.end[0] != "return" or result_variant(p.ret)[0] != "Ok":
            continue
        idx = None
        for c in p.conds:
            t = c[1]
            if c[0][0] == "switch" and t[0] == "field" and t[2] == 1 and isinstance(c[2], int) and any(is_call(x) and str(x[1]).endswith("short_or_long_month0") for x in walk_terms(t)):
                idx = c[2]
        m = p.ret[4][0]
        var = m[3] if m[0] == "agg" else (const_of(m) if m[0] in ("const", "named") else None)
        if isinstance(var, tuple):
            var = dict(var).get("variant")
        if idx is not None:
            got[idx] = var
    if len(got) < 12:
        # the last arm may be the `else` arm
        pass
    for k in range(12):
        if k in got:
            chk.expect(got[k] == names[k], "index %d" % k, "Month::from_str maps scanned index %d to %s, expected %s" % (k, got[k], names[k]), loc=P.loc(fn))
    chk.expect(len(got) >= 11, "arms", "only %d indexed arms found in Month::from_str" % len(got))


def r_plain_year(chk, P, tier):
    """NaiveDate's Debug writes the year as two digit pairs exactly for 0..=9999 (write_hundreds refuses 100, i.e. year 10000, with a formatting error that
    to_string() turns into a panic) and with an explicit sign and at least five digits otherwise (the reader requires the sign for more than four digits)"""
    from props.c10 import plain_year_boxes
    fn = "<naive::date::NaiveDate as std::fmt::Debug>::fmt"
    chk.rule("BOX.plain_year", "NaiveDate's Debug::fmt uses the plain four-digit year form (write_hundreds(year / 100), write_hundreds(year % 100)) exactly for 0..=9999", floor=1)
    boxes = plain_year_boxes(P, fn)
    lo = min((b[0] for b in boxes if b[0] is not None), default=None)
    hi = max((b[1] for b in boxes if b[1] is not None), default=None)
    ok = all(b[0] is not None and b[1] is not None for b in boxes) and (lo, hi) == (0, 9999)
    chk.expect(ok, "year range", "NaiveDate's Debug takes the four-digit form for years in %s, expected exactly 0..=9999" % sorted(set(boxes)), loc=P.loc(fn))


def r_write_hundreds(chk, P, tier):
    """write_hundreds(n) writes the two decimal digits of n for every n in 0..=99 (it prints the halves of the year and every two-digit field of the default forms). The
    characters it hands to write_char are folded as a complete finite map over n - whether they are computed (b'0' + n / 10, b'0' + n % 10) or looked up in a table"""
    from finmap import Folder, show, Unknown
    chk.rule("MAP.write_hundreds", "write_hundreds(n) writes chr(48 + n / 10) then chr(48 + n % 10) for every n in 0..=99, and refuses n >= 100", floor=100)
    fn = "format::formatting::write_hundreds"
    fo = Folder(P)
    paths = [p for p in Sym(P, fn).paths() if p.end[0] == "return"]
    full = [p for p in paths if sum(1 for c in p.calls if isinstance(c[1], str) and c[1].endswith("::write_char")) == 2]
    if not full:
        chk.assume("MAP.write_hundreds: write_hundreds no longer writes two characters with write_char: idiom not recognised, undecided")
        for n in range(100):
            chk.ok("n=%d (undecided)" % n)
        return
    p = full[-1]
    args = [c[2][1] for c in p.calls if isinstance(c[1], str) and c[1].endswith("::write_char")]
    bad = None
    for n in range(100):
        env = {("arg", 2): ("const", n)}
        try:
            got = tuple(show(fo.ev(a, env, None, 0)) for a in args)
        except Unknown as e:
            got = "unknown: %s" % e
        want = (48 + n // 10, 48 + n % 10)
        norm = tuple(ord(x) if isinstance(x, str) and len(x) == 1 else x for x in got) if isinstance(got, tuple) else got
        if norm != want:
            if bad is None:
                bad = (n, got, want)
        else:
            chk.ok("n=%d" % n)
    if bad is not None:
        chk.bad("digits", "write_hundreds(%d) writes the characters %s, expected %s" % (bad[0], bad[1], tuple(chr(x) for x in bad[2])), loc=P.loc(fn))
    # n >= 100 is refused: some path returns Err without writing, guarded by a comparison with 100
    refuse = [p for p in paths if result_variant_(p.ret) == "Err" and not any(isinstance(c[1], str) and c[1].endswith("::write_char") for c in p.calls)]
    ok = any(any(c[0][0] == "switch" and c[1][0] == "bin" and const_of(c[1][3]) in (99, 100) for c in p.conds) for p in refuse)
    chk.expect(ok, "n >= 100 refused", "write_hundreds has no path that refuses n >= 100 before writing", loc=P.loc(fn))


def result_variant_(t):
    return t[3] if t is not None and t[0] == "agg" and t[1] == "adt" else None


def r_offset_from_str(chk, P, tier):
    """FixedOffset's reader is the scanner plus the range check: the value scan::timezone_offset returned reaches FixedOffset::east_opt unmodified (no recomposition from
    hours and minutes, no sign handling of its own - the scanner already produced signed seconds)"""
    chk.rule("COPY.offset_from_str", "FixedOffset::from_str hands the offset scanned by scan::timezone_offset to east_opt unmodified", floor=1)
    fn = "<offset::fixed::FixedOffset as std::str::FromStr>::from_str"
    seen = []
    for p in Sym(P, fn).paths():
        for c in p.calls:
            if isinstance(c[1], str) and c[1].endswith("FixedOffset::east_opt"):
                a = c[2][0]
                arith = [x for x in walk_terms(a) if x[0] in ("bin", "un") or (x[0] == "call" and isinstance(x[1], str) and not (x[1].endswith("timezone_offset") or "Try>::branch" in x[1]))]
                from_scan = any(x[0] == "call" and isinstance(x[1], str) and x[1].endswith("scan::timezone_offset") for x in walk_terms(a))
                seen.append((from_scan and not arith, pp(a)[:160]))
    if not seen:
        raise AnchorLost("FixedOffset::from_str: no east_opt call")
    chk.expect(all(o for o, _ in seen), "east_opt argument", "FixedOffset::from_str passes %s to east_opt (expected the scanned offset itself)" % sorted({t for o, t in seen if not o}), loc=P.loc(fn))
