"""C07 — time-of-day: acceptance boxes, field replacement, offset shifts keep the leap fraction, wrap helpers."""
from core import Prog, AnchorLost
from sym import Sym, pp, walk_terms, const_of
from rules import accept_boxes, hull, is_call, find_calls, arg_field, result_variant, fields_private, aggregate_sites, unref
from finmap import Folder, show, Unknown
import e1

NT = "naive::time::NaiveTime"
TL = "<naive::time::NaiveTime as traits::Timelike>::"


def run(chk, tier):
    P = Prog("default")
    chk.configs.add("default")
    for r in (r_boxes, r_delegates, r_with, r_hms, r_offset_copy, r_sub, r_operators, r_datetime_core, r_hour12, r_opt_wrappers, r_value_map, r_absint):
        chk.guarded(r, P, tier)
    chk.assume("the leap-second stepping rules of overflowing_add_signed / signed_duration_since (which branch applies to which operands) are numerical and not decided")
    return {
        "explanation": "C07 statically: the accepted (hour, minute, second, nanosecond) and (seconds, nanosecond) combinations are read off the path conditions of the "
                       "constructors as boxes and compared with the documented ranges (leap fraction only on second 59); milli/micro constructors delegate with the right "
                       "checked factor; with_* replace exactly one component and copy the other; hms() is evaluated as a finite map over all 86400 seconds; offset shifts "
                       "copy the fraction; sub = add of the negated duration with negated carry; every construction site of NaiveTime keeps the (secs, frac) box and all "
                       "arithmetic in naive/time is overflow-free (abstract interpretation).",
        "trusted_base": ["analysis/sym.py path-condition extraction", "analysis/abs*.py", "specs/justifications.txt"],
    }


def norm(b):
    return {k: (v[0] if v[0] is not None else 0, v[1]) for k, v in b.items()}


def r_boxes(chk, P, tier):
    chk.rule("BOX.from_hms_nano", "from_hms_nano_opt accepts exactly h<24, m<60, s<60, ns<10^9, or ns<2*10^9 on second 59", floor=3)
    fn = NT + "::from_hms_nano_opt"
    bs = accept_boxes(P, fn, {"hour": ("arg", 1), "min": ("arg", 2), "sec": ("arg", 3), "nano": ("arg", 4)})
    allowed = [
        {"hour": (0, 23), "min": (0, 59), "sec": (0, 59), "nano": (0, 999_999_999)},
        {"hour": (0, 23), "min": (0, 59), "sec": (59, 59), "nano": (0, 1_999_999_999)},
    ]
    for box, other, p in bs:
        b = norm(box)
        ok = not other and any(all(b[k][1] is not None and a[k][0] <= b[k][0] and b[k][1] <= a[k][1] for k in a) for a in allowed)
        chk.expect(ok, "path %s" % b, "from_hms_nano_opt accepts %s (uninterpreted %s): outside the documented field ranges" % (b, [pp(c[1]) for c in other]), loc=P.loc(fn))
    hs = {k: hull([norm(b) for b, _, _ in bs], k) for k in ("hour", "min", "sec", "nano")} if bs else {}
    chk.expect(hs == {"hour": (0, 23), "min": (0, 59), "sec": (0, 59), "nano": (0, 1_999_999_999)}, "hull", "accepted ranges %s are narrower/wider than documented" % hs, loc=P.loc(fn))
    # result: secs = h*3600 + m*60 + s, frac = nano
    for box, other, p in bs:
        t = p.ret[4][0]
        secs, frac = t[4][0], t[4][1]
        consts = sorted(const_of(x[3]) for x in walk_terms(secs) if x[0] == "bin" and x[1].startswith("Mul") and const_of(x[3]) is not None)
        ok = consts == [60, 3600] and frac == ("arg", 4) and {x for x in walk_terms(secs) if x[0] == "arg"} == {("arg", 1), ("arg", 2), ("arg", 3)}
        chk.expect(ok, "value", "from_hms_nano_opt does not build (h*3600 + m*60 + s, nano): %s" % pp(t)[:200], loc=P.loc(fn))
        break
    chk.rule("BOX.from_secs", "from_num_seconds_from_midnight_opt accepts secs<86400 with ns<10^9, or ns<2*10^9 when secs%60==59", floor=3)
    fn = NT + "::from_num_seconds_from_midnight_opt"
    bs = accept_boxes(P, fn, {"secs": ("arg", 1), "nano": ("arg", 2)})
    for box, other, p in bs:
        b = norm(box)
        leap = [c for c in other if c[1][0] == "bin" and c[1][1] in ("Ne", "Eq") and c[1][2][0] == "bin" and c[1][2][1] == "Rem"
                and c[1][2][2] == ("arg", 1) and const_of(c[1][2][3]) == 60 and const_of(c[1][3]) == 59]
        is_leap_path = len(leap) == len(other) == 1 and ((leap[0][1][1] == "Ne" and leap[0][2] == 0) or (leap[0][1][1] == "Eq" and leap[0][2] != 0))
        ok = b["secs"][1] is not None and b["secs"] == (0, 86399) or (b["secs"][0] >= 0 and b["secs"][1] is not None and b["secs"][1] <= 86399)
        if is_leap_path:
            ok = ok and b["nano"][1] is not None and b["nano"][1] <= 1_999_999_999
        else:
            ok = ok and not other and b["nano"][1] is not None and b["nano"][1] <= 999_999_999
        chk.expect(ok, "path %s" % b, "from_num_seconds_from_midnight_opt accepts %s (conditions %s)" % (b, [pp(c[1]) for c in other]), loc=P.loc(fn))
        chk.expect(p.ret[4][0][4] == (("arg", 1), ("arg", 2)), "value", "does not store (secs, nano) unchanged: " + pp(p.ret))
    hs = {k: hull([norm(b) for b, _, _ in bs], k) for k in ("secs", "nano")} if bs else {}
    chk.expect(hs == {"secs": (0, 86399), "nano": (0, 1_999_999_999)}, "hull", "accepted ranges %s" % hs, loc=P.loc(fn))


def r_delegates(chk, P, tier):
    chk.rule("SIB.from_hms", "from_hms_opt / _milli_opt / _micro_opt delegate to from_hms_nano_opt with factor 0 / 10^6 / 10^3 (checked)", floor=3)
    for fn, factor in (("from_hms_milli_opt", 1_000_000), ("from_hms_micro_opt", 1_000), ("from_hms_opt", None)):
        rets = [p.ret for p in Sym(P, NT + "::" + fn).paths() if p.end[0] == "return"]
        calls = [r for r in rets if is_call(r, name=NT + "::from_hms_nano_opt")]
        ok = len(calls) == 1 and calls[0][2][:3] == (("arg", 1), ("arg", 2), ("arg", 3))
        if ok and factor:
            cm = [c for c in find_calls(calls[0][2][3]) if c[1].endswith("checked_mul")]
            ok = len(cm) == 1 and cm[0][2][0] == ("arg", 4) and const_of(cm[0][2][1]) == factor
        elif ok:
            ok = const_of(calls[0][2][3]) == 0
        ok = ok and all(result_variant(r)[0] == "None" for r in rets if r not in calls)
        chk.expect(ok, fn, "%s: %s" % (fn, [pp(r) for r in rets]), loc=P.loc(NT + "::" + fn))


def _linear(t):
    """({atom: coefficient}, constant) of an integer term built from +, *, constants, the argument and hms(&self).k; None otherwise"""
    if t[0] == "field" and t[2] == 0 and t[1][0] == "bin" and t[1][1].endswith("WithOverflow"):
        t = ("bin", t[1][1][:-12], t[1][2], t[1][3])
    if t[0] in ("const", "named") and isinstance(const_of(t), int):
        return ({}, const_of(t))
    if t == ("arg", 2):
        return ({("arg", 2): 1}, 0)
    if t[0] == "field" and is_call(t[1], name=NT + "::hms") and arg_field(unref(t[1][2][0])) == (1, None):
        return ({"hms.%d" % t[2]: 1}, 0)
    if t[0] == "bin" and t[1] in ("Add", "Mul"):
        a, b = _linear(t[2]), _linear(t[3])
        if a is None or b is None:
            return None
        if t[1] == "Add":
            d = dict(a[0])
            for k, v in b[0].items():
                d[k] = d.get(k, 0) + v
            return (d, a[1] + b[1])
        if not a[0]:
            return ({k: v * a[1] for k, v in b[0].items()}, a[1] * b[1])
        if not b[0]:
            return ({k: v * b[1] for k, v in a[0].items()}, a[1] * b[1])
    return None


def r_with(chk, P, tier):
    chk.rule("COPY.with", "with_hour/minute/second replace one component of secs and copy frac; with_nanosecond copies secs", floor=8)
    spec = {"with_hour": (23, {3600}), "with_minute": (59, {60, 3600}), "with_second": (59, {60}), "with_nanosecond": (1_999_999_999, set())}
    for m, (hi, consts) in spec.items():
        fn = TL + m
        bs = accept_boxes(P, fn, {"v": ("arg", 2)})
        ok = len(bs) == 1 and norm(bs[0][0])["v"] == (0, hi) and not bs[0][1]
        chk.expect(ok, m + " box", "%s accepts %s, expected 0..=%d" % (m, [(norm(b[0]), [pp(c[1]) for c in b[1]]) for b in bs], hi), loc=P.loc(fn))
        if not ok:
            continue
        t = bs[0][2].ret[4][0]
        secs, frac = t[4][0], t[4][1]
        if m == "with_nanosecond":
            good = arg_field(secs) == (1, 0) and frac == ("arg", 2)
        else:
            got = {const_of(x[3]) for x in walk_terms(secs) if x[0] == "bin" and const_of(x[3]) is not None}
            good = arg_field(frac) == (1, 1) and got == consts and ("arg", 2) in set(walk_terms(secs))
            if not good and arg_field(frac) == (1, 1):
                # second idiom: the seconds are recombined from hms(): 3600 * h + 60 * m + s with exactly the named component replaced by the argument
                lf = _linear(secs)
                want = {"with_hour": {("arg", 2): 3600, "hms.1": 60, "hms.2": 1}, "with_minute": {"hms.0": 3600, ("arg", 2): 60, "hms.2": 1},
                        "with_second": {"hms.0": 3600, "hms.1": 60, ("arg", 2): 1}}[m]
                good = lf is not None and lf[1] == 0 and lf[0] == want
        chk.expect(good, m + " value", "%s builds %s" % (m, pp(t)[:200]), loc=P.loc(fn))


def r_hms(chk, P, tier):
    chk.rule("MAP.hms", "hms() over all 86400 seconds of the day is (s/3600, s/60%60, s%60); accessors project it", floor=4)
    fo = Folder(P)
    bad = None
    for s in range(86400):
        v = ("ref", ("agg", "adt", NT, "NaiveTime", (("const", s), ("const", 0)), 0))
        try:
            got = show(fo.call(NT + "::hms", [v]))
        except Unknown as e:
            got = "unknown %s" % e
        if got != (s // 3600, s // 60 % 60, s % 60) and bad is None:
            bad = (s, got)
    chk.expect(bad is None, "hms", "hms() deviates at (secs, got) = %s" % (bad,), loc=P.loc(NT + "::hms"), detail_ok="86400 values")
    for m, i in (("hour", 0), ("minute", 1), ("second", 2)):
        r = [p.ret for p in Sym(P, TL + m).paths() if p.end[0] == "return"]
        ok = len(r) == 1 and r[0][0] == "field" and r[0][2] == i and is_call(r[0][1], name=NT + "::hms")
        chk.expect(ok, m, "%s() is not hms().%d: %s" % (m, i, [pp(x) for x in r]))


def r_offset_copy(chk, P, tier):
    chk.rule("COPY.offset_frac", "overflowing_add_offset / _sub_offset keep the (leap) fraction and wrap seconds modulo 86400", floor=2)
    for fn in (NT + "::overflowing_add_offset", NT + "::overflowing_sub_offset"):
        r = [p.ret for p in Sym(P, fn).paths() if p.end[0] == "return"]
        ok = len(r) == 1 and r[0][0] == "agg"
        if ok:
            t, carry = r[0][4]
            ok = t[0] == "agg" and arg_field(t[4][1]) == (1, 1)
            rem = [c for c in find_calls(t[4][0]) if c[1].endswith("rem_euclid")]
            div = [c for c in find_calls(carry) if c[1].endswith("div_euclid")]
            ok = ok and len(rem) == 1 and const_of(rem[0][2][1]) == 86400 and len(div) == 1 and const_of(div[0][2][1]) == 86400 and rem[0][2][0] == div[0][2][0]
        chk.expect(ok, fn, "%s: %s" % (fn, [pp(x)[:200] for x in r]), loc=P.loc(fn))


def r_sub(chk, P, tier):
    chk.rule("SIB.sub_signed", "overflowing_sub_signed is overflowing_add_signed of the negated duration with the carry negated", floor=1)
    fn = NT + "::overflowing_sub_signed"
    r = [p.ret for p in Sym(P, fn).paths() if p.end[0] == "return"]
    ok = len(r) == 1 and r[0][0] == "agg"
    if ok:
        a, b = r[0][4]
        add = NT + "::overflowing_add_signed"
        ok = a[0] == "field" and a[2] == 0 and is_call(a[1], name=add) and b[0] == "un" and b[1] == "Neg" and b[2][0] == "field" and b[2][2] == 1 and b[2][1] == a[1]
        ok = ok and arg_field(a[1][2][0]) == (1, None) and is_call(a[1][2][1], suffix="::neg") and a[1][2][1][2][0] == ("arg", 2)
    chk.expect(ok, fn, "overflowing_sub_signed: %s" % [pp(x) for x in r], loc=P.loc(fn))


def r_absint(chk, P, tier):
    res = e1.run_engine(P, tier)
    e1.report(chk, P, res, "ABSINT.naive_time", "arithmetic, casts and NaiveTime construction sites in naive/time are discharged or justified",
              fn_filter=lambda fn: "naive::time::" in fn, floor=40)
    chk.rule("SITES.naivetime", "NaiveTime struct literals occur only in the confirmed functions; fields are private", floor=10)
    known = {"from_hms_nano_opt", "from_num_seconds_from_midnight_opt", "overflowing_add_signed", "overflowing_add_offset", "overflowing_sub_offset", "MIN", "MAX",
             "with_hour", "with_minute", "with_second", "with_nanosecond", "clone"}
    eng = res["engine"]
    for fn, bi, si, st in aggregate_sites(P, NT):
        short = fn.split("::{")[0].split("::")[-1]
        ok = short in known and "naive::time" in fn
        if not ok:
            # a site the review did not know: accepted when the abstract interpreter reached it and proved both field invariants there
            inv = [o for (f2, key), o in eng.obl.items() if f2 == fn and o.kind == "invariant"]
            ok = len(inv) >= 2 and not any(o.bad for o in inv)
        chk.expect(ok, fn, "%s builds a NaiveTime with a struct literal and the field invariants (secs < 86400, frac < 2*10^9) are not proved there" % fn, loc=P.loc(fn, st["ln"]))
    chk.expect(fields_private(P, NT), "private", "NaiveTime has a public field")


TIME_OPERATORS = {
    "std::ops::Add<time_delta::TimeDelta>>::add": {"overflowing_add_signed"},
    "std::ops::Sub<time_delta::TimeDelta>>::sub": {"overflowing_sub_signed"},
    "std::ops::Add<offset::fixed::FixedOffset>>::add": {"overflowing_add_offset"},
    "std::ops::Sub<offset::fixed::FixedOffset>>::sub": {"overflowing_sub_offset"},
    "std::ops::Add<std::time::Duration>>::add": {"new", "overflowing_add_signed"},
    "std::ops::Sub<std::time::Duration>>::sub": {"new", "overflowing_sub_signed"},
    "std::ops::Sub>::sub": {"signed_duration_since"},
    "std::ops::AddAssign<time_delta::TimeDelta>>::add_assign": {"add"},
    "std::ops::SubAssign<time_delta::TimeDelta>>::sub_assign": {"sub"},
    "std::ops::AddAssign<std::time::Duration>>::add_assign": {"add"},
    "std::ops::SubAssign<std::time::Duration>>::sub_assign": {"sub"},
}


def r_operators(chk, P, tier):
    """each operator of NaiveTime is a thin wrapper of the checked/overflowing function of the same direction and operand kind (leap-second
    rules live there); the std-Duration pair reduces by the same modulus"""
    from rules import callees, consts_in_fn
    chk.rule("SIB.operators", "NaiveTime operators delegate to the core function of their own direction and operand kind (+ offset -> overflowing_add_offset, - offset -> overflowing_sub_offset, ...); "
                               "Add<Duration> and Sub<Duration> reduce the duration by the same constants", floor=12)
    found = 0
    for n in sorted(P.fns):
        if not (n.startswith("<naive::time::NaiveTime as std::ops::") and P.has(n)):
            continue
        key = n.split(" as ", 1)[1]
        want = TIME_OPERATORS.get(key)
        if want is None:
            chk.bad("unlisted operator " + key, "operator impl %s of NaiveTime is not in the reviewed table" % n, loc=P.loc(n))
            continue
        found += 1
        got = {c.split("::")[-1] for c in callees(P, n) if c.startswith("naive::time::NaiveTime::") or c.startswith("<naive::time::NaiveTime as") or c.startswith("time_delta::TimeDelta::")}
        chk.expect(got == want, key, "%s calls %s (expected %s)" % (n, sorted(got), sorted(want)), loc=P.loc(n))
    a = "<naive::time::NaiveTime as std::ops::Add<std::time::Duration>>::add"
    b = "<naive::time::NaiveTime as std::ops::Sub<std::time::Duration>>::sub"
    ca = sorted(x for x in consts_in_fn(P, a) if isinstance(x, int) and not isinstance(x, bool))
    cb = sorted(x for x in consts_in_fn(P, b) if isinstance(x, int) and not isinstance(x, bool))
    chk.expect(ca == cb and ca, "Duration pair constants", "Add<Duration> reduces with constants %s, Sub<Duration> with %s" % (ca, cb), loc=P.loc(b))
    chk.expect(found == len(TIME_OPERATORS), "all operators present", "only %d of %d operator impls found" % (found, len(TIME_OPERATORS)))


def r_datetime_core(chk, P, tier):
    """date-times follow the time-of-day rules: NaiveDateTime::checked_add/sub_signed produce a value only through NaiveTime::overflowing_add/sub_signed
    (no shortcut that moves the date alone), and the provided Timelike::num_seconds_from_midnight is h*3600 + m*60 + s (no sub-second part)"""
    chk.rule("DOM.datetime_core", "every Some of NaiveDateTime::checked_add_signed / checked_sub_signed lies behind NaiveTime::overflowing_add_signed / overflowing_sub_signed; "
                                  "Timelike::num_seconds_from_midnight reads hour, minute, second only", floor=3)
    for fn, core in (("naive::datetime::NaiveDateTime::checked_add_signed", NT + "::overflowing_add_signed"), ("naive::datetime::NaiveDateTime::checked_sub_signed", NT + "::overflowing_sub_signed")):
        paths = [p_ for p_ in Sym(P, fn).paths() if p_.end[0] == "return"]
        somes = [p_ for p_ in paths if result_variant(p_.ret)[0] not in ("None",) and not (is_call(p_.ret) and "from_residual" in str(p_.ret[1]))]
        if not somes:
            raise AnchorLost(fn + ": no value-returning path")
        bad = [p_ for p_ in somes if not any(c[1] == core for c in p_.calls)]
        chk.expect(not bad, fn.split("::")[-1], "%s returns a value on %d of %d paths without NaiveTime's %s (the leap-second rules live there)" % (fn, len(bad), len(somes), core.split("::")[-1]), loc=P.loc(fn))
    from rules import callees
    fn = "traits::Timelike::num_seconds_from_midnight"
    cs = {c.split("::")[-1] for c in callees(P, fn)}
    chk.expect(cs == {"hour", "minute", "second"}, "num_seconds_from_midnight", "the provided Timelike::num_seconds_from_midnight reads %s (expected hour, minute, second)" % sorted(cs), loc=P.loc(fn))


def r_hour12(chk, P, tier):
    """the provided Timelike::hour12 as a finite map over the complete domain of hour(): 0 -> (AM, 12), 1..11 -> (AM, h), 12 -> (PM, 12), 13..23 -> (PM, h-12)"""
    chk.rule("MAP.hour12", "Timelike::hour12 evaluated for every hour 0..=23 is (h >= 12, (h + 11) % 12 + 1)", floor=24)
    fn = "traits::Timelike::hour12"
    hs = {pp(c) for p_ in Sym(P, fn).paths() for t in [x[1] for x in p_.conds] + ([p_.ret] if p_.end[0] == "return" else []) for c in find_calls(t) if c[1].endswith("Timelike::hour")}
    if len(hs) != 1:
        raise AnchorLost(fn + ": expected exactly one hour() term, found %s" % sorted(hs))
    key = hs.pop()
    fo = Folder(P)
    for h in range(24):
        try:
            got = show(fo.call(fn, [("arg", 1)], bind={key: h}))
        except Unknown as e:
            got = "unknown: %s" % e
        want = (h >= 12, (h + 11) % 12 + 1)
        chk.expect(got == want or got == (int(want[0]), want[1]), "hour %d" % h, "hour12() of hour %d is %s, expected %s" % (h, got, want), loc=P.loc(fn))


# ---- region-representative value map of the leap-second arithmetic -----------------------------------------------------------------------
NS = 10**9
DAY = 86400
TD = "time_delta::TimeDelta"


def _nt(secs, frac):
    return ("agg", "adt", NT, "NaiveTime", (("const", secs), ("const", frac)), 0)


def _tdv(n):
    return ("agg", "adt", TD, "TimeDelta", (("const", n // NS), ("const", n % NS)), 0)


def _model_add(secs, frac, d):
    """documented rule: a leap-second operand lives on a time line on which its own second is followed by one leap second (and no other exists)"""
    pos = secs * NS + frac
    if frac >= NS:
        leap_start = (secs + 1) * NS
        p2 = pos + d
        if leap_start <= p2 < leap_start + NS:
            return (secs, p2 - secs * NS), 0          # stays inside the leap second
        if p2 >= leap_start + NS:
            p2 -= NS                                   # leaves it forwards: the leap second is skipped
    else:
        p2 = pos + d
    s2, f2 = p2 // NS, p2 % NS
    return (s2 % DAY, f2), s2 - s2 % DAY


def _model_diff(a, b):
    leaps = {t[0] for t in (a, b) if t[1] >= NS}
    ext = lambda t: t[0] * NS + t[1] + NS * sum(1 for l in leaps if l < t[0])    # noqa
    return ext(a) - ext(b)


def r_value_map(chk, P, tier):
    """overflowing_add_signed / overflowing_sub_signed / signed_duration_since are piecewise-affine in (secs, frac, duration) with pieces delimited by comparisons
    against 0, 10^9, 2*10^9 and by the wrap at 86 400 s. Their def-use terms are folded (no execution) on a domain holding every such boundary with both neighbours,
    for ordinary and leap-second operands on ordinary and boundary seconds, against the documented rule written as arithmetic on an extended time line."""
    from finmap import Folder, show, Unknown
    chk.rule("MAP.leap_arith", "overflowing_add_signed, overflowing_sub_signed and signed_duration_since folded on all region boundaries (leap and ordinary operands) equal the documented time-line rule", floor=8000)
    fo = Folder(P, max_depth=10)
    secs_dom = (0, 1, 59, 60, 3599, 43200, 86398, 86399)
    frac_dom = (0, 1, 500000000, NS - 1, NS, NS + 1, 1500000000, 2 * NS - 1)
    times = [(s_, f) for s_ in secs_dom for f in frac_dom]
    mags = (0, 1, 2, 499999999, 500000000, 500000001, NS - 1, NS, NS + 1, 1500000000, 2 * NS - 1, 2 * NS, 59 * NS, 60 * NS, 61 * NS, (DAY - 1) * NS, DAY * NS - 1, DAY * NS, DAY * NS + 1,
            (DAY + 1) * NS, 2 * DAY * NS + 7, (2**63 - 1) * 10**6)
    deltas = sorted({m for m in mags} | {-m for m in mags})
    bad = {}
    n_ok = 0

    def show_add(v):
        # ((NaiveTime, secs, frac), carry)
        if isinstance(v, tuple) and len(v) == 2 and isinstance(v[0], tuple) and v[0][0] == "NaiveTime::NaiveTime":
            return (v[0][1], v[0][2]), v[1]
        return v
    for fn, sign in (("overflowing_add_signed", 1), ("overflowing_sub_signed", -1)):
        for (s_, f) in times:
            for d in deltas:
                try:
                    got = show_add(show(fo.call(NT + "::" + fn, [("ref", _nt(s_, f)), _tdv(d)])))
                except Unknown as e:
                    got = "unknown: %s" % e
                want = _model_add(s_, f, sign * d)
                if sign < 0:
                    want = (want[0], -want[1])      # the subtraction reports the whole days it ignored with the opposite sign (documented example: 3:04:05 - 17h = (10:04:05, +86400))
                if got == want:
                    n_ok += 1
                else:
                    cls = "%s: %s operand, %s duration" % (fn, "leap-second" if f >= NS else "ordinary", "zero" if d == 0 else ("positive" if d > 0 else "negative"))
                    bad.setdefault(cls, ((s_, f), d, got, want))
    for a in times:
        for b in times:
            try:
                v = show(fo.call(NT + "::signed_duration_since", [_nt(*a), _nt(*b)]))
                got = v[1] * NS + v[2] if isinstance(v, tuple) and v[0] == "TimeDelta::TimeDelta" and 0 <= v[2] < NS else v
            except Unknown as e:
                got = "unknown: %s" % e
            want = _model_diff(a, b)
            if got == want:
                n_ok += 1
            else:
                cls = "signed_duration_since: %s - %s, %s" % ("leap" if a[1] >= NS else "ordinary", "leap" if b[1] >= NS else "ordinary", "later - earlier" if a[0] > b[0] else ("earlier - later" if a[0] < b[0] else "same second"))
                bad.setdefault(cls, (a, b, got, want))
    # date-times: the difference is whole days plus the time-of-day difference under the same rule
    NDT = "naive::datetime::NaiveDateTime"

    def ndt_(yof, t):
        return ("agg", "adt", NDT, "NaiveDateTime", (("agg", "adt", "naive::date::NaiveDate", "NaiveDate", (("const", yof),), 0), _nt(*t)), 0)
    d0 = (2024 << 13) | (60 << 4) | 0o16       # 2024-02-29 (flags of 2024 = GF = 0o16): ordinal 60
    try:
        yof_next = show(fo.call("naive::date::NaiveDate::succ_opt", [("ref", ("agg", "adt", "naive::date::NaiveDate", "NaiveDate", (("const", d0),), 0))]))[1][1]
    except Exception:
        yof_next = None
    if isinstance(yof_next, int):
        sample = [t for t in times if t[0] in (0, 59, 86399)]
        for da, ya in ((0, d0), (1, yof_next)):
            for db, yb in ((0, d0), (1, yof_next)):
                for a in sample:
                    for b in sample:
                        try:
                            v = show(fo.call(NDT + "::signed_duration_since", [ndt_(ya, a), ndt_(yb, b)]))
                            got = v[1] * NS + v[2] if isinstance(v, tuple) and v[0] == "TimeDelta::TimeDelta" else v
                        except Unknown as e:
                            got = "unknown: %s" % e
                        want = (da - db) * DAY * NS + _model_diff(a, b)
                        if got == want:
                            n_ok += 1
                        else:
                            bad.setdefault("NaiveDateTime::signed_duration_since", ((da, a), (db, b), got, want))
    for _ in range(n_ok):
        chk.ok("value")
    for cls, (a, b, got, want) in sorted(bad.items()):
        chk.bad(cls, "%s: (secs, frac) = %s with %s folds to %s, the documented rule gives %s" % (cls, a, b, got, want), loc=P.loc(NT + "::" + cls.split(":")[0]))
    # side condition: the pieces are delimited by the constants the domain was built from
    from rules import consts_in_fn
    known = {0, 1, NS, 2 * NS, DAY, 2, 3, 4, 8, 16, 31, 32, 63, 64, 2**31, 2**63, -(2**31), -(2**63), 2**31 - 1, 2**63 - 1, 2**32 - 1}
    known |= {c + d for c in list(known) for d in (-1, 1)}
    extra = {}
    for fn in ("overflowing_add_signed", "overflowing_sub_signed", "signed_duration_since"):
        for c in consts_in_fn(P, NT + "::" + fn):
            if isinstance(c, int) and not isinstance(c, bool) and c not in known:
                extra.setdefault(c, fn)
    chk.expect(not extra, "piece boundaries", "constants %s occur in the folded functions but are not boundaries of the evaluated domain (extend the domain)" % (sorted(extra.items())[:6],), loc=P.loc(NT + "::overflowing_add_signed"))


def r_opt_wrappers(chk, P, tier=None):
    import rules
    rules.opt_wrappers(chk, P, ("naive::time::",), floor=5)
