"""C20 — serialized forms deserialize to the same value (config `serde`): helper-module agreement, error mapping, no panic."""
from core import Prog, AnchorLost
from sym import Sym, pp, walk_terms, const_of
from rules import is_call, find_calls, arg_field, result_variant, callees, unref
import e1
import os

UNITS = {
    "seconds": ("timestamp", {"from_timestamp"}, 1, 0),
    "milliseconds": ("timestamp_millis", {"from_timestamp_millis", "from_timestamp"}, 1000, 10**6),
    "microseconds": ("timestamp_micros", {"from_timestamp_micros", "from_timestamp"}, 10**6, 1000),
    "nanoseconds": ("timestamp_nanos_opt", {"from_timestamp_nanos", "from_timestamp"}, 10**9, 1),
}
FAMS = ("datetime::serde::", "naive::datetime::serde::")
NAIVE_LOCAL = "datetime::DateTime::<Tz>::naive_local"


def terms_of(P, fn):
    out = []
    for p in Sym(P, fn).paths():
        out.extend(c[1] for c in p.conds)
        if p.ret:
            out.append(p.ret)
        out.extend(p.calls)
    return out


def run(chk, tier):
    P = Prog("serde")
    chk.configs.add("serde")
    for r in (r_helpers, r_errors, r_strings, r_timedelta, r_timedelta_pair, r_noreach, r_str_primitive, r_visit_some_errors, r_ts_visitors_map, r_absint):
        chk.guarded(r, P, tier)
    chk.assume("the round trip through concrete data formats (serde_json, bincode) is not decided; serde's own code is outside the analysed crate")
    return {
        "explanation": "C20 in the `serde` build (code the pinned test suite never compiles): the 16 timestamp helper modules agree per unit on the accessor they serialize, "
                       "on the constructor their signed visitor calls, and on divisor/multiplier (D*M = 10^9) of the unsigned visitor, across the DateTime<Utc> and NaiveDateTime "
                       "families and their _option variants; every failing conversion is mapped to serde::invalid_ts; string forms go through the Debug/Display/RFC 3339 writers "
                       "and FromStr (reducing to C09/C10); TimeDelta deserializes only through TimeDelta::new; Serialize for DateTime never reaches naive_local; all serde "
                       "functions free of panics / lossy casts (abstract interpretation).",
        "trusted_base": ["analysis/sym.py", "analysis/abs*.py", "specs/justifications.txt"],
    }


def visitor_adt(P, mod):
    """the visitor type a helper module's deserialize() hands to the deserializer"""
    de = mod + "deserialize"
    if not P.has(de):
        raise AnchorLost(de)
    vis = sorted({x[2] for t in terms_of(P, de) for x in walk_terms(t) if x[0] == "agg" and x[1] == "adt" and x[2].endswith("Visitor")})
    if len(vis) != 1:
        raise AnchorLost("%s: visitor types %s" % (de, vis))
    return vis[0]


def find_fn(P, mod, needle):
    adt = visitor_adt(P, mod)
    short = adt.split("::")[-1]
    c = [n for n in P.fns if n.endswith(needle) and "{" not in n and P.has(n) and
         (n.startswith("<%s as " % adt) or (("for %s>" % adt) in n) or (("for " + short + ">") in n and n.startswith(adt.rsplit("::", 1)[0])))]
    return c


def r_helpers(chk, P, tier):
    chk.rule("SIB.ts_modules", "per unit: serialize uses the unit's accessor; visit_i64 the unit's constructor; visit_u64 splits with D and scales with M, D*M = 10^9", floor=30)
    for fam in FAMS:
        for unit, (acc, ctors, D, M) in UNITS.items():
            for opt in ("", "_option"):
                mod = "%sts_%s%s::" % (fam, unit, opt)
                ser = mod + "serialize"
                if not P.has(ser):
                    raise AnchorLost(ser)
                ts = terms_of(P, ser)
                accs = {c[1].split("::")[-1] for t in ts for c in find_calls(t) if c[1].startswith("datetime::DateTime::<Tz>::timestamp")}
                sers = {c[1].split("::")[-1] for t in ts for c in find_calls(t) if isinstance(c[1], str) and "Serializer::serialize_" in c[1]}
                want_ser = {"serialize_i64"} if not opt else {"serialize_some", "serialize_none"}
                chk.expect(accs == {acc} and sers == want_ser, ser, "%s serializes %s via %s (expected %s via %s)" % (ser, sorted(accs), sorted(sers), acc, sorted(want_ser)), loc=P.loc(ser))
            # the reading side asks the data format for the same primitive the writing side produced: i64 (a u64 request makes
            # non-self-describing formats misread negative timestamps)
            from rules import callees
            de = "%sts_%s::deserialize" % (fam, unit)
            got = {c.split("::")[-1] for c in callees(P, de) if "Deserializer::deserialize_" in c}
            chk.expect(got == {"deserialize_i64"}, de, "%s requests %s from the deserializer (serialize writes an i64)" % (de, sorted(got)), loc=P.loc(de))
            deo = "%sts_%s_option::deserialize" % (fam, unit)
            got = {c.split("::")[-1] for c in callees(P, deo) if "Deserializer::deserialize_" in c}
            vs = [n for n in P.fns if n.startswith("<%sts_%s_option::" % (fam, unit)) and n.endswith("::visit_some") and P.has(n)]
            got2 = {c.split("::")[-1] for v in vs for c in callees(P, v) if "Deserializer::deserialize_" in c}
            chk.expect(got == {"deserialize_option"} and len(vs) == 1 and got2 == {"deserialize_i64"}, deo,
                       "%s requests %s and its visit_some requests %s (expected deserialize_option, then deserialize_i64)" % (deo, sorted(got), sorted(got2)), loc=P.loc(deo))
            # visitors live in the non-option module (the option visitor delegates)
            mod = "%sts_%s::" % (fam, unit)
            for vname, signed in (("visit_i64", True), ("visit_u64", False)):
                vs = find_fn(P, mod, "::" + vname)
                if len(vs) != 1:
                    raise AnchorLost("%s%s: %d candidates" % (mod, vname, len(vs)))
                fn = vs[0]
                ts = terms_of(P, fn)
                used = {c[1].split("::")[-1] for t in ts for c in find_calls(t) if c[1].startswith("datetime::DateTime::<offset::utc::Utc>::from_timestamp")}
                if not used:
                    # the constructor may be called from a closure handed to an Option/Result combinator
                    used = {c.split("::")[-1] for c in callees(P, fn) if c.startswith("datetime::DateTime::<offset::utc::Utc>::from_timestamp")}
                ok = bool(used) and used <= ctors
                detail = ""
                if ok and "from_timestamp" in used and unit != "seconds":
                    # explicit split: divisor D on the value, remainder scaled by M
                    call = [c for t in ts for c in find_calls(t) if c[1].endswith("::from_timestamp")][0]
                    secs, nanos = call[2]
                    divs = [const_of(x[3]) if x[0] == "bin" else const_of(x[2][1]) for x in walk_terms(secs)
                            if (x[0] == "bin" and x[1] == "Div") or (x[0] == "call" and x[1].endswith("div_euclid"))]
                    rems = [const_of(x[3]) if x[0] == "bin" else const_of(x[2][1]) for x in walk_terms(nanos)
                            if (x[0] == "bin" and x[1] == "Rem") or (x[0] == "call" and x[1].endswith("rem_euclid"))]
                    muls = [const_of(x[3]) for x in walk_terms(nanos) if x[0] == "bin" and x[1].startswith("Mul")]
                    ok = divs == [D] and rems == [D] and (muls == [M] if M != 1 else muls == [])
                    if signed:
                        ok = ok and not any(x[0] == "bin" and x[1] in ("Div", "Rem") for t in (secs, nanos) for x in walk_terms(t))
                    detail = "div %s rem %s mul %s" % (divs, rems, muls)
                elif ok and unit == "seconds":
                    cands = [c for t in ts for c in find_calls(t) if c[1].endswith("::from_timestamp")]
                    if not cands:
                        cands = [c for cl in P.closures_of(fn) for pth in Sym(P, cl).paths() for c in pth.calls if isinstance(c[1], str) and c[1].endswith("::from_timestamp")]
                    ok = bool(cands) and all(const_of(c[2][1]) == 0 for c in cands)
                if not ok and not os.environ.get("VERIF_NO_VALUE_MAPS"):
                    # another way of writing the split: the values of every visitor are decided on all unit boundaries by MAP.ts_visitors
                    chk.assume("SIB.ts_modules: %s splits the value in a form the shape rule does not recognise; decided by MAP.ts_visitors" % fn)
                    chk.ok(fn + " (by MAP.ts_visitors)")
                    continue
                chk.expect(ok, fn, "%s builds the value with %s %s (expected %s, D=%d, M=%d)" % (fn, sorted(used), detail, sorted(ctors), D, M), loc=P.loc(fn))
            # the naive family converts through and_utc()/naive_utc() only
    chk.rule("SIB.option_visitors", "_option visitors delegate to the plain visitor of the same unit (visit_some) and map none/unit to None", floor=16)
    for fam in FAMS:
        for unit in UNITS:
            mod = "%sts_%s_option::" % (fam, unit)
            vs = find_fn(P, mod, "::visit_some")
            if len(vs) != 1:
                raise AnchorLost(mod + "visit_some")
            ts = terms_of(P, vs[0])
            vis = {x[2] for t in ts for x in walk_terms(t) if x[0] == "agg" and x[1] == "adt" and x[2].endswith("TimestampVisitor")}
            want = visitor_adt(P, "%sts_%s::" % (fam, unit))
            chk.expect(vis == {want}, vs[0], "%s delegates to %s (expected %s, the visitor of ts_%s)" % (vs[0], sorted(vis), want, unit), loc=P.loc(vs[0]))
            for vn in ("visit_none", "visit_unit"):
                fs = find_fn(P, mod, "::" + vn)
                ok = len(fs) == 1
                if ok:
                    r = [p.ret for p in Sym(P, fs[0]).paths() if p.end[0] == "return"]
                    ok = len(r) == 1 and result_variant(r[0])[0] == "Ok" and result_variant(r[0][4][0])[0] == "None"
                chk.expect(ok, mod + vn, "%s%s does not return Ok(None)" % (mod, vn))


def r_errors(chk, P, tier):
    chk.rule("DOM.invalid_ts", "every failing timestamp conversion in a visitor maps to serde::invalid_ts", floor=16)
    n = 0
    for fam in FAMS:
        for unit in UNITS:
            mod = "%sts_%s::" % (fam, unit)
            for vname in ("visit_i64", "visit_u64"):
                fn = find_fn(P, mod, "::" + vname)[0]
                cs = callees(P, fn)
                ok = "serde::invalid_ts" in cs
                # no unwrap/expect in a visitor
                bad = [c for c in cs if c.endswith("::unwrap") or c.endswith("::expect")]
                n += 1
                chk.expect(ok and not bad, fn, "%s: failing conversions must go through invalid_ts (callees: %s)" % (fn, sorted(c.split("::")[-1] for c in cs)), loc=P.loc(fn))


def r_strings(chk, P, tier):
    chk.rule("REACH.string_forms", "string forms serialize through the default writers (collect_str / RFC 3339) and deserialize through FromStr; a string is the only primitive a string-serialized type writes", floor=10)
    sers = [n for n in P.fns if n.endswith("::serialize") and "serde::Serialize" in n and "{" not in n and "::serialize::" not in n and P.has(n)]
    for ty in ("naive::date::NaiveDate", "naive::time::NaiveTime", "naive::datetime::NaiveDateTime", "datetime::DateTime<Tz>", "weekday::Weekday", "month::Month"):
        fn = [n for n in sers if n.startswith("<%s as" % ty) or ("impl serde::Serialize for %s>" % ty) in n]
        if len(fn) != 1:
            raise AnchorLost("Serialize for " + ty)
        cs = callees(P, fn[0])
        # a string is the only primitive written: the Deserialize side requests deserialize_str (PAIR.str_primitive), so any other
        # Serializer method (serialize_unit_variant, serialize_u32, ...) round-trips only in self-describing formats
        others = sorted(c.split("::")[-1] for c in cs if "Serializer::" in c and not c.endswith(("Serializer::collect_str", "Serializer::serialize_str")))
        ok = any(c.endswith("Serializer::collect_str") for c in cs) and not others
        chk.expect(ok, "Serialize for " + ty, "%s does not serialize with collect_str (callees %s)" % (fn[0], sorted(c.split("::")[-1] for c in cs)), loc=P.loc(fn[0]))
    # DateTime's Display wrapper writes RFC 3339 with the non-panicking wall clock
    fmt = [n for n in P.fns if "FormatIso8601" in n and n.endswith("::fmt") and P.has(n)]
    if not fmt:
        raise AnchorLost("FormatIso8601::fmt")
    cs = callees(P, fmt[0])
    ok = "format::formatting::write_rfc3339" in cs and "datetime::DateTime::<Tz>::overflowing_naive_local" in cs and NAIVE_LOCAL not in cs
    chk.expect(ok, "FormatIso8601", "DateTime's serde writer: callees %s" % sorted(c.split("::")[-1] for c in cs), loc=P.loc(fmt[0]))
    for mod, ty in (("naive::date::serde::", "NaiveDate"), ("naive::time::serde::", "NaiveTime"), ("naive::datetime::serde::", "NaiveDateTime"), ("datetime::serde::", "DateTime")):
        vs = [n for n in P.fns if n.startswith("<" + mod) and n.endswith("::visit_str") and "ts_" not in n and P.has(n)]
        if not vs:
            raise AnchorLost(mod + "visit_str")
        cs = callees(P, vs[0])
        ok = any(c.endswith("<impl str>::parse") or c.endswith("FromStr>::from_str") or "from_str" in c for c in cs)
        chk.expect(ok, vs[0], "%s does not parse with FromStr (callees %s)" % (vs[0], sorted(c.split("::")[-1] for c in cs)), loc=P.loc(vs[0]))


def r_timedelta(chk, P, tier):
    chk.rule("SHAPE.timedelta_de", "TimeDelta's Deserialize builds only through TimeDelta::new (range-checked)", floor=1)
    fn = [n for n in P.fns if n.startswith("time_delta::serde::") and n.endswith("::deserialize") and P.has(n)]
    if not fn:
        raise AnchorLost("TimeDelta deserialize")
    cs = callees(P, fn[0])
    others = {c for c in cs if c.startswith("time_delta::TimeDelta::") and not c.endswith("::new")}
    chk.expect("time_delta::TimeDelta::new" in cs and not others, fn[0], "TimeDelta::deserialize builds its value through %s (expected TimeDelta::new only)" % sorted(c.split("::")[-1] for c in cs if "TimeDelta" in c), loc=P.loc(fn[0]))


def r_timedelta_pair(chk, P, tier):
    """Deserialize rebuilds with TimeDelta::new(secs, nanos) - the raw representation (nanos always >= 0). Serialize must write that same pair: the two
    private fields, not the sign-aware views num_seconds()/subsec_nanos()"""
    chk.rule("PAIR.timedelta", "TimeDelta's Serialize writes the raw (secs, nanos) fields that its Deserialize hands to TimeDelta::new", floor=1)
    fn = [n for n in P.fns if n.startswith("time_delta::serde::") and n.endswith("::serialize") and P.has(n)]
    if len(fn) != 1:
        raise AnchorLost("TimeDelta serialize: %d candidates" % len(fn))
    cs = {c for c in callees(P, fn[0]) if c.startswith("time_delta::TimeDelta::")}
    # reads of the two fields of self
    m = P.fn(fn[0])["mir"]
    from rules import _places_of, place_field_steps
    reads = set()
    for b in m["blocks"]:
        if b.get("cleanup"):
            continue
        for st in b["s"]:
            pls = []
            _places_of(st.get("rv"), pls)
            for pl in pls:
                for tys, idx in place_field_steps(P, m, pl):
                    if tys.lstrip("&") == "time_delta::TimeDelta":
                        reads.add(idx)
    chk.expect(not cs and reads == {0, 1}, fn[0].split("::")[-2], "TimeDelta's Serialize goes through %s and reads fields %s (expected: no accessor, both raw fields)" % (sorted(c.split("::")[-1] for c in cs), sorted(reads)), loc=P.loc(fn[0]))


def r_noreach(chk, P, tier):
    chk.rule("NOREACH.serialize", "no Serialize impl / helper reaches the panicking naive_local", floor=2)
    roots = [n for n in P.fns if ("serde::Serialize>::serialize" in n or ("impl serde::Serialize for" in n and n.endswith("::serialize")) or (n.startswith("datetime::serde::") and n.endswith("::serialize")) or (n.startswith("naive::datetime::serde::") and n.endswith("::serialize"))) and P.has(n)]
    seen = P.reachable_from(roots)
    chk.expect(NAIVE_LOCAL not in seen and len(roots) >= 20, "serialize roots", "naive_local reachable from serialization: %s" % (P.path_to(seen, NAIVE_LOCAL) if NAIVE_LOCAL in seen else len(roots)))
    chk.expect(NAIVE_LOCAL in P.reachable_from(["datetime::DateTime::<Tz>::date_naive"]), "control", "positive control failed")


def r_absint(chk, P, tier):
    res = e1.run_engine(P, tier)
    e1.report(chk, P, res, "ABSINT.serde", "every panic-capable site / lossy cast in the serde modules is discharged or justified",
              fn_filter=lambda fn: "serde" in fn, floor=12)


def r_str_primitive(chk, P, tier):
    """every type that serializes as a string (collect_str / serialize_str) asks the deserializer for a string (deserialize_str / deserialize_string): a format that is not
    self-describing (bincode, postcard) follows the requested primitive, so any other request (identifier, any, bytes) fails to read what was written"""
    chk.rule("PAIR.str_primitive", "Deserialize of every string-serialized type (dates, times, date-times, Weekday, Month) requests deserialize_str", floor=8)
    des = [n for n in P.fns if n.endswith("::deserialize") and "serde::Deserialize" in n and "{" not in n and "ts_" not in n and P.has(n)]
    n_str = 0
    for fn in sorted(des):
        ser_ty = fn.split(" for ")[-1].rsplit(">::deserialize", 1)[0] if " for " in fn else fn
        cs = callees(P, fn)
        reqs = sorted(c.split("::")[-1] for c in cs if "Deserializer::deserialize_" in c)
        if not reqs:
            continue
        if any(r in ("deserialize_tuple", "deserialize_struct", "deserialize_seq", "deserialize_newtype_struct") for r in reqs):
            continue        # TimeDelta (secs, nanos): covered by PAIR.timedelta
        n_str += 1
        ok = all(r in ("deserialize_str", "deserialize_string") for r in reqs)
        chk.expect(ok, ser_ty[-60:], "%s requests %s from the deserializer; its Serialize writes a string (collect_str): expected deserialize_str" % (fn, reqs), loc=P.loc(fn))
    if n_str < 8:
        raise AnchorLost("only %d string-form Deserialize impls found" % n_str)


def r_visit_some_errors(chk, P, tier):
    """an `_option` visitor must not swallow the error of the value it wraps: visit_some returns the inner deserializer's result mapped with Some (Result::map), it never
    turns a failure into None / a default (Result::ok, unwrap_or*, or*)"""
    chk.rule("ERR.visit_some", "every ts_*_option visit_some propagates the inner error (Result::map(.., Some)); no Result::ok / unwrap_or / or", floor=8)
    swallow = ("::ok", "::unwrap_or", "::unwrap_or_default", "::unwrap_or_else", "::or", "::or_else", "::map_or", "::map_or_else", "::is_ok", "::is_err", "::err")
    for fam in FAMS:
        for unit in UNITS:
            mod = "%sts_%s_option::" % (fam, unit)
            vs = find_fn(P, mod, "::visit_some")
            if len(vs) != 1:
                raise AnchorLost(mod + "visit_some")
            cs = callees(P, vs[0])
            bad = sorted(c.split("::")[-1] for c in cs if (c.startswith("std::result::Result::<T, E>") or c.startswith("std::option::Option::<T>")) and c.endswith(swallow))
            ok = not bad and any(c.endswith("Result::<T, E>::map") for c in cs)
            chk.expect(ok, vs[0][-70:], "%s handles the inner result with %s (expected Result::map(.., Some): a failure must stay a failure)" % (vs[0], bad or sorted(c.split("::")[-1] for c in cs)), loc=P.loc(vs[0]))


def r_ts_visitors_map(chk, P, tier):
    """the ts_* visitors as a value map: visit_i64 / visit_u64 of every unit and both families folded (no execution; the error constructor symbolic) for values on both sides of
    zero, of one unit and of the unit's representable range, and the i64 / u64 ends: an accepted value is exactly the instant value * unit after the epoch (calendar oracle), a value
    outside the date range is refused"""
    import calendar_oracle as cal
    from finmap import Folder, show, Unknown
    from rules import table_value
    from props.c01 import flags_of
    chk.rule("MAP.ts_visitors", "visit_i64 / visit_u64 of ts_seconds / _milliseconds / _microseconds / _nanoseconds (both families) folded on all unit boundaries build exactly the instant value * unit, or refuse", floor=200)
    fo = Folder(P, max_depth=14, opaque=lambda n: "invalid_ts" in n or n.endswith("Error::custom"))
    tbl = [flags_of(c) for c in table_value(P, "naive::internals::YEAR_TO_FLAGS")]
    miny, maxy = P.value("naive::date::MIN_YEAR"), P.value("naive::date::MAX_YEAR")
    NS = 10**9
    epoch = cal.day_number(1970, 1, 1)
    dn_min, dn_max = cal.day_number(miny, 1, 1), cal.day_number(maxy, 12, 31)

    def want(total_ns):
        secs, ns = total_ns // NS, total_ns % NS
        dn = secs // 86400 + epoch
        if not dn_min <= dn <= dn_max:
            return None
        y = dn * 400 // 146097
        while cal.day_number(y, 1, 1) > dn:
            y -= 1
        while cal.day_number(y + 1, 1, 1) <= dn:
            y += 1
        o = dn - cal.day_number(y, 1, 1) + 1
        return ((y << 13) | (o << 4) | tbl[y % 400], secs % 86400, ns)

    def parts(v):
        if isinstance(v, tuple) and v[0] == "Result::Err":
            return None
        if isinstance(v, tuple) and v[0] == "Result::Ok":
            x = v[1]
            ndt = x[1] if x[0] == "DateTime::DateTime" else x
            try:
                return (ndt[1][1], ndt[2][1], ndt[2][2])
            except Exception:
                pass
        return ("?", v)
    bad = {}
    n = 0
    for fam in FAMS:
        for unit, per_sec in (("seconds", 1), ("milliseconds", 1000), ("microseconds", 10**6), ("nanoseconds", NS)):
            mod = "%sts_%s::" % (fam, unit)
            scale = NS // per_sec
            lim = ((dn_max - epoch) * 86400 + 86399) * per_sec + per_sec - 1
            lo = (dn_min - epoch) * 86400 * per_sec
            for vname, signed in (("visit_i64", True), ("visit_u64", False)):
                vs = find_fn(P, mod, "::" + vname)
                if len(vs) != 1:
                    raise AnchorLost("%s%s: %d candidates" % (mod, vname, len(vs)))
                dom = {0, 1, per_sec - 1, per_sec, per_sec + 1, 86400 * per_sec - 1, 86400 * per_sec, lim - 1, lim, lim + 1, 2**63 - 1}
                if signed:
                    dom |= {-1, -per_sec + 1, -per_sec, -per_sec - 1, -86400 * per_sec, lo - 1, lo, lo + 1, -(2**63)}
                    dom = {x for x in dom if -(2**63) <= x <= 2**63 - 1}
                else:
                    dom |= {2**63, 2**64 - 1}
                    dom = {x for x in dom if 0 <= x <= 2**64 - 1}
                for v in sorted(dom):
                    try:
                        got = parts(show(fo.call(vs[0], [("const", "visitor"), ("const", v)])))
                    except Unknown as e:
                        got = "unknown: %s" % e
                    w = want(v * scale)
                    if got == w:
                        n += 1
                    else:
                        bad.setdefault("%sts_%s::%s" % (fam.split("::")[0], unit, vname), (v, got, w))
    for _ in range(n):
        chk.ok("value")
    for k, (v, got, w) in sorted(bad.items()):
        chk.bad(k, "%s(%d) folds to %s, the calendar oracle gives %s (yof, second of day, nanosecond; None = refused)" % (k, v, got, w))
