"""C18 — Local uses the zone the environment names, and notices changes (narrow: structure of the reload decision)."""
from core import Prog, AnchorLost
from sym import Sym, pp, walk_terms, const_of
from rules import is_call, find_calls, arg_field, result_variant, callees, unref, cond_constraints

CO = "offset::local::inner::Cache::offset"
T = "offset::local::tz_info::timezone::TimeZone::"


def run(chk, tier):
    P = Prog("default")
    chk.configs.add("default")
    for r in (r_thread_local, r_reload_table, r_threshold, r_fallbacks, r_dispatch, r_find_file, r_refresh_first, r_whole_sources, r_source_zone_pair):
        chk.guarded(r, P, tier)
    chk.assume("timing, file-system state, the actual zone selected for an environment and cross-thread histories are NOT decided: the property quantifies over histories and "
               "schedules; only the structure of the reload decision and of the selection order is")
    return {
        "explanation": "Narrow structural claim for C18: the zone cache is a thread_local referenced only from local::inner::offset (fresh thread => fresh cache, no sharing); in "
                       "Cache::offset the environment is re-read on every pass through the refresh branch, the reload decision table over (old source kind, new source kind, "
                       "hash/mtime differ) is exactly {kind changed or value differs => reload}, a reload stores the new zone before either lookup, and the cache is reused "
                       "only while less than the constant 1 s has passed; current_zone falls back TimeZone::local -> system zone -> UTC in that order; from_posix_tz dispatches "
                       "empty / `localtime` / ':'-prefix / file / rule; relative zone names are opened only under the zoneinfo directories.",
        "trusted_base": ["analysis/sym.py path enumeration"],
    }


def r_thread_local(chk, P, tier):
    chk.rule("VIS.tz_info", "TZ_INFO is a thread_local RefCell used only by local::inner::offset; no process-wide state in local::inner", floor=3)
    users = []
    for name, f in P.fns.items():
        if "mir" not in f:
            continue
        from core import operands_of_block
        for b in [b for m in [f["mir"]] + f.get("promoted", []) for b in m["blocks"]]:
            for st in b["s"]:
                rv = st.get("rv")
                if rv and rv["k"] == "tlref" and rv["def"].endswith("TZ_INFO"):
                    users.append(name)
            for op in operands_of_block(b):
                if op.get("k") == "const" and (str(op.get("def", "")).endswith("TZ_INFO") or str(op.get("fn", "")).endswith("TZ_INFO")):
                    users.append(name)
    users = sorted({u.split("::{")[0] for u in users if "TZ_INFO" not in u.split("::{")[0]})
    chk.expect(users == ["offset::local::inner::offset"], "users", "TZ_INFO is referenced from %s" % users)
    # "immediately on a new thread": no zone state is shared between threads - nothing in offset::local::inner reaches a process-wide cell (OnceLock / Mutex / RwLock / atomics /
    # lazy statics); the thread_local above is the only place a zone is kept
    shared = ("std::sync::OnceLock", "std::sync::once_lock::OnceLock", "std::sync::Mutex", "std::sync::RwLock", "std::sync::LazyLock", "std::sync::atomic::", "std::sync::Once::", "std::sync::poison::")
    users2 = {}
    for name in P.fns:
        if not (name.startswith("offset::local::inner::") or name.startswith("<offset::local::inner::")) or not P.has(name):
            continue
        for c in P.callees_of(name) if hasattr(P, "callees_of") else callees(P, name):
            if any(k in c for k in shared):
                users2.setdefault(name.split("::{")[0], set()).add(c.split("::")[-1])
    chk.expect(not users2, "no process-wide zone state", "offset::local::inner uses process-wide synchronised state: %s (a zone cached there is shared by all threads: a new thread no longer sees a changed TZ at once)" % {k: sorted(v) for k, v in users2.items()})
    tz = [n for n in P.fns if n.endswith("TZ_INFO") or "TZ_INFO::" in n]
    tl = any("std::thread::LocalKey" in P.ty_s(P.fns[n]["ty"]) for n in tz if "ty" in P.fns[n])
    chk.expect(bool(tz) and tl, "thread_local", "TZ_INFO is not a std::thread::LocalKey (items %s)" % tz[:3])


def r_reload_table(chk, P, tier):
    chk.rule("TBL.reload", "reload decision: kind of source changed, or hash / mtime differ => current_zone(); otherwise keep; TZ re-read on every refresh", floor=6)
    table = {}
    env_reads = set()
    store_before_lookup = True
    for p in Sym(P, CO).paths(max_paths=80000):
        if p.end[0] not in ("return", "diverge", "loop"):
            continue
        old = new = None
        ne = None
        for c in p.conds:
            if c[0][0] != "switch":
                continue
            d = c[1]
            if d[0] == "discr" and not isinstance(c[2], tuple):
                if arg_field(d[1]) == (1, 1):
                    old = c[2]
                elif any(is_call(x, suffix="Source::new") for x in walk_terms(d[1])):
                    new = c[2]
            if is_call(d) and isinstance(d[1], str) and d[1].split("::")[-1] in ("ne", "eq"):
                truth = (c[2] != 0) if not isinstance(c[2], tuple) else True
                ne = truth if d[1].endswith("::ne") else not truth
        if old is None or new is None:
            continue
        names = [c[1] for c in p.calls if isinstance(c[1], str)]
        cz = "offset::local::inner::current_zone" in names
        env_reads.add(names.count("std::env::var"))
        table.setdefault((old, new, ne), set()).add(cz)
        if cz:
            # current_zone must come before both lookups
            idx = names.index("offset::local::inner::current_zone")
            for look in (T + "find_local_time_type", T + "find_local_time_type_from_local"):
                if look in names and names.index(look) < idx:
                    store_before_lookup = False
    want = {}
    for o in (0, 1):
        for n in (0, 1):
            if o != n:
                want[(o, n, None)] = {True}
            else:
                want[(o, n, True)] = {True}
                want[(o, n, False)] = {False}
    for k, v in sorted(want.items(), key=str):
        chk.expect(table.get(k) == v, "old=%s new=%s differ=%s" % k, "reload decision for (old kind, new kind, value differs) = %s is %s, expected %s" % (k, table.get(k), v), loc=P.loc(CO))
    chk.expect(env_reads == {1}, "env re-read", "the refresh branch reads TZ %s times" % sorted(env_reads))
    chk.expect(store_before_lookup, "zone stored before lookup", "a lookup happens before the reloaded zone is stored")
    # the new zone is written to self.zone (field 0) on reload paths, and the source/last_checked are updated
    f = P.fn(CO)
    writes = set()
    for b in f["mir"]["blocks"]:
        for st in b["s"]:
            if st["k"] == "assign" and st["pl"]["l"] == 1 and len(st["pl"]["p"]) == 2 and st["pl"]["p"][1][0] == "f":
                writes.add(st["pl"]["p"][1][1])
        t = b["t"]
        if t["k"] == "call" and t["dest"]["l"] == 1 and len(t["dest"]["p"]) == 2:
            writes.add(t["dest"]["p"][1][1])
    chk.expect(writes >= {0, 1, 2}, "cache fields updated", "Cache::offset updates fields %s of the cache (expected zone, source, last_checked)" % sorted(writes))


def r_threshold(chk, P, tier):
    chk.rule("CONST.reuse_window", "the cache is reused only while as_secs() < 1", floor=1)
    consts = set()
    for p in Sym(P, CO).paths(max_paths=80000):
        for c in p.conds:
            if c[0][0] == "switch" and c[1][0] == "bin" and c[1][1] in ("Lt", "Le", "Ge", "Gt") and any(is_call(x, suffix="Duration::as_secs") for x in walk_terms(c[1])):
                consts.add((c[1][1], const_of(c[1][3])))
    chk.expect(consts == {("Lt", 1)}, "threshold", "reuse window test is %s, expected as_secs() < 1" % sorted(consts), loc=P.loc(CO))


def r_fallbacks(chk, P, tier):
    chk.rule("ORDER.fallback", "current_zone: TimeZone::local(var), else fallback_timezone(), else TimeZone::utc()", floor=1)
    fn = "offset::local::inner::current_zone"
    r = [p.ret for p in Sym(P, fn).paths() if p.end[0] == "return"]
    ok = len(r) == 1 and is_call(r[0], suffix="unwrap_or_else")
    if ok:
        inner = r[0][2][0]
        ok = is_call(inner, suffix="::or_else") and r[0][2][1] == ("fn", T + "utc")
        if ok:
            first, second = inner[2]
            ok = second == ("fn", "offset::local::inner::fallback_timezone") and any(is_call(x, name=T + "local") and arg_field(x[2][0]) == (1, None) for x in walk_terms(first))
    chk.expect(ok, "current_zone", "current_zone is %s" % [pp(x)[:200] for x in r], loc=P.loc(fn))
    # the initial cache (Default::default or a private constructor): whichever function builds a Cache from nothing reads TZ and selects the zone through current_zone
    builders = [n for n in P.fns if P.has(n) and n.startswith(("<offset::local::inner::Cache as", "offset::local::inner::Cache::")) and "{" not in n
                and "offset::local::inner::current_zone" in callees(P, n) and n.split("::")[-1] not in ("offset",)]
    ok = any("std::env::var" in callees(P, n) for n in builders)
    chk.expect(ok, "Cache::default", "no constructor of Cache reads TZ (std::env::var) and selects the zone through current_zone (found: %s)" % [b.split("::")[-1] for b in builders])


def r_dispatch(chk, P, tier):
    chk.rule("ORDER.posix_tz", "from_posix_tz: empty -> UTC, `localtime` -> /etc/localtime, ':'-prefix stripped, file if it exists, otherwise a TZ rule", floor=4)
    fn = T + "from_posix_tz"
    strs = set()
    from core import operands_of_block
    for b in P.fn(fn)["mir"]["blocks"]:
        for op in operands_of_block(b):
            if op.get("k") == "const" and isinstance(op.get("v"), str):
                strs.add(op["v"])
    chk.expect("localtime" in strs and "/etc/localtime" in strs, "localtime", "from_posix_tz constants %s" % sorted(strs))
    cs = callees(P, fn)
    need = {T + "utc", T + "from_file", "offset::local::tz_info::rule::TransitionRule::from_tz_string", "offset::local::tz_info::timezone::find_tz_file"}
    chk.expect(need <= cs, "callees", "from_posix_tz does not reach %s" % sorted(c.split("::")[-1] for c in need - cs), loc=P.loc(fn))
    # the empty-string test comes first
    first = None
    for p in Sym(P, fn).paths():
        for c in p.conds:
            if c[0][0] == "switch" and is_call(c[1]):
                first = c[1][1].split("::")[-1]
                break
        if first:
            break
    chk.expect(first == "is_empty", "empty first", "the first test of from_posix_tz is %s, expected is_empty()" % first)
    # the ':' prefix is stripped: where the colon test holds, find_tz_file gets a tail of the string, not the string itself
    n = colon_rule = 0
    for p in Sym(P, fn).paths():
        def holds(c):
            v = c[2]
            if c[1][0] == "discr":      # Option / Result discriminant: variant 1 is Some
                return v == 1 or (isinstance(v, tuple) and v[0] == "else" and 1 not in v[1])
            return (v != 0) if not isinstance(v, tuple) else (v[0] == "else" and 0 in v[1])
        colon = [c for c in p.conds if ("('char', 58)" in repr(c[1]) or "':'" in repr(c[1])) and holds(c)]
        if not colon:
            continue
        # ":name" names a file and nothing else: where the colon test holds the string is never read as a POSIX rule (a failed lookup is the answer)
        if any(isinstance(c[1], str) and c[1].endswith("TransitionRule::from_tz_string") for c in p.calls):
            colon_rule += 1
        for c in p.calls:
            if isinstance(c[1], str) and c[1].endswith("find_tz_file"):
                n += 1
                a = c[2][0]
                whole = a == ("arg", 1) or unref(a) == ("arg", 1)
                chk.expect(not whole, "colon branch #%d" % n, "with a leading ':' from_posix_tz hands the whole string (colon included) to find_tz_file", loc=P.loc(fn))
    chk.expect(colon_rule == 0, "colon never a rule", "from_posix_tz parses a ':'-prefixed value as a POSIX TZ rule on %d paths (after the file lookup failed); expected the lookup's error" % colon_rule, loc=P.loc(fn))
    chk.expect(n >= 1, "colon branch found", "no path of from_posix_tz tests for ':' and then calls find_tz_file (anchor lost)")
    # "file if it exists, otherwise a TZ rule": the string is read as a POSIX rule only after the file lookup was tried for it - on every path
    rule_fn = "offset::local::tz_info::rule::TransitionRule::from_tz_string"
    nr = bad_ = 0
    for p in Sym(P, fn).paths():
        names = [c[1] if isinstance(c[1], str) else "" for c in p.calls]
        if rule_fn in names:
            nr += 1
            i = names.index(rule_fn)
            if not any(x.endswith("timezone::find_tz_file") for x in names[:i]):
                bad_ += 1
    if not nr:
        raise AnchorLost("from_posix_tz: no path parses a TZ rule")
    chk.expect(bad_ == 0, "file lookup before rule", "from_posix_tz parses the string as a POSIX rule on %d of %d paths without having tried it as a zone file name first" % (bad_, nr), loc=P.loc(fn))
    loc = [p.ret for p in Sym(P, T + "local").paths() if p.end[0] == "return"]
    def to_localtime(x):
        """from_posix_tz("localtime"), or from_posix_tz(env_tz.unwrap_or("localtime"))"""
        if not is_call(x, name=fn):
            return False
        a = unref(x[2][0])
        return const_of(a) == "localtime" or (is_call(a, suffix="::unwrap_or") and const_of(unref(a[2][1])) == "localtime" and arg_field(unref(a[2][0])) == (1, None))
    ok = any(any(is_call(x, name=fn) for x in walk_terms(r)) for r in loc) and any(any(to_localtime(x) for x in walk_terms(r)) for r in loc)
    chk.expect(ok, "TimeZone::local", "TimeZone::local(None) does not fall back to from_posix_tz(\"localtime\")")


def r_find_file(chk, P, tier):
    chk.rule("OPEN.zoneinfo", "find_tz_file opens an absolute path as given and a relative name only under the zoneinfo directories; it decides by opening, not by inspecting metadata", floor=3)
    fn = "offset::local::tz_info::timezone::find_tz_file"
    meta = sorted(c.split("::")[-1] for c in callees(P, fn) if "std::fs::metadata" in c or "symlink_metadata" in c or "std::fs::Metadata::" in c or "::is_file" in c or "::is_symlink" in c or "read_link" in c)
    chk.expect(not meta, "no metadata filter", "find_tz_file filters candidates through %s: a zone file reached through a symbolic link (how zoneinfo aliases and /etc/localtime are installed) must be opened like any other" % meta, loc=P.loc(fn))
    ok_abs = ok_rel = True
    n_abs = n_rel = 0
    for p in Sym(P, fn).paths(max_paths=20000):
        absolute = None
        for c in p.conds:
            if c[0][0] == "switch" and is_call(c[1], suffix="Path::is_absolute"):
                absolute = (c[2] != 0) if not isinstance(c[2], tuple) else True
        opens = [c for c in p.calls if isinstance(c[1], str) and c[1] == "std::fs::File::open"]
        for o in opens:
            joined = any(is_call(x, suffix="Path::join") for x in walk_terms(o[2][0]))
            if absolute:
                n_abs += 1
                ok_abs = ok_abs and not joined
            elif absolute is False:
                n_rel += 1
                ok_rel = ok_rel and joined
    # the relative branch may open the file inside a closure (iterator adapter over the directories)
    for cl in P.closures_of(fn):
        for p in Sym(P, cl).paths():
            for o in [c for c in p.calls if isinstance(c[1], str) and c[1] == "std::fs::File::open"]:
                n_rel += 1
                ok_rel = ok_rel and any(is_call(x, suffix="Path::join") for x in walk_terms(o[2][0]))
    chk.expect(ok_abs and n_abs >= 1, "absolute", "absolute paths are not opened as given")
    chk.expect(ok_rel and n_rel >= 1, "relative", "a relative zone name is opened without joining it to a zoneinfo directory (it would resolve against the current directory)", loc=P.loc(fn))
    dirs = [n for n in P.fns if n.endswith("ZONE_INFO_DIRECTORIES") and "value" in P.fns[n]]
    v = P.fns[dirs[0]]["value"] if dirs else []
    chk.expect(bool(v) and all(isinstance(x, str) and x.startswith("/") for x in v), "directories", "ZONE_INFO_DIRECTORIES = %s" % v)


def r_refresh_first(chk, P, tier):
    """both kinds of conversion notice a change: in Cache::offset the staleness test (now.duration_since(self.last_checked)) dominates every zone lookup"""
    chk.rule("DOM.refresh_first", "in Cache::offset every find_local_time_type* call is dominated by the staleness test on last_checked", floor=2)
    fn = "offset::local::inner::Cache::offset"
    cfg = P.cfg(fn)
    test = [bi for bi, t, cs in P.calls(fn) if any(c.endswith("SystemTime::duration_since") for c in cs)]
    looks = [(bi, [c for c in cs if "find_local_time_type" in c][0]) for bi, t, cs in P.calls(fn) if any("find_local_time_type" in c for c in cs)]
    if len(test) != 1 or len(looks) < 2:
        raise AnchorLost("Cache::offset: %d staleness tests, %d lookups" % (len(test), len(looks)))
    for bi, c in looks:
        chk.expect(cfg.dominates(test[0], bi), c.split("::")[-1], "Cache::offset reaches %s without having tested whether the cached zone is stale" % c.split("::")[-1], loc=P.loc(fn))


def r_whole_sources(chk, P, tier):
    """the zone is read from the whole named file and the cache key is the whole TZ value: (1) TimeZone::from_file reads the File it was given to the end (read_to_end / read_to_string
    on the argument itself, not on a limiting adapter) and parses exactly the bytes read; (2) Source::new hashes the bytes of the TZ value it was given, unmodified - two TZ values
    that select different zones (`JST-9` is a rule, `:JST-9` a file name) must not share a key"""
    chk.rule("WHOLE.sources", "TimeZone::from_file reads its File argument to the end without an adapter; Source::new hashes as_bytes() of the unmodified TZ value", floor=2)
    fn = T + "from_file"
    reads = set()
    for p in Sym(P, fn).paths():
        for c in p.calls:
            if isinstance(c[1], str) and ("::read_to_end" in c[1] or "::read_to_string" in c[1] or "::read_exact" in c[1] or c[1].endswith("::read")):
                reads.add((c[1].split(" as ")[0].lstrip("<"), pp(unref(c[2][0]))))
    if not reads:
        raise AnchorLost("TimeZone::from_file: no read call found")
    ok = all(pp_ in ("arg1", "*arg1") and ("read_to_end" in n or True) for n, pp_ in reads) and all(n == "std::fs::File" for n, _ in reads) and any(True for _ in reads)
    whole = any("read_to_end" in c[1] or "read_to_string" in c[1] for p in Sym(P, fn).paths() for c in p.calls if isinstance(c[1], str))
    chk.expect(ok and whole, "from_file", "TimeZone::from_file reads through %s (expected: read_to_end on the File argument itself)" % sorted(reads), loc=P.loc(fn))
    fn = "offset::local::inner::Source::new"
    ws = set()
    for p in Sym(P, fn).paths():
        for c in p.calls:
            if isinstance(c[1], str) and c[1].endswith("Hasher>::write") or (isinstance(c[1], str) and "::hash::Hash" in c[1] and c[1].endswith("::hash")):
                a = c[2][1] if c[1].endswith("Hasher>::write") else c[2][0]
                inner = [x for x in walk_terms(a) if x[0] == "call"]
                names = sorted(str(x[1]).split("::")[-1] for x in inner)
                ws.add((tuple(names), any(x == ("as", ("arg", 1), "Some") or (x[0] == "as" and x[1] == ("arg", 1)) for x in walk_terms(a))))
    if not ws:
        raise AnchorLost("Source::new: no hashing call found")
    ok = all(names in (("as_bytes",), ()) and from_arg for names, from_arg in ws)
    chk.expect(ok, "Source::new", "Source::new hashes %s of the TZ value (expected: as_bytes() of the value itself, no stripping or trimming)" % sorted(ws), loc=P.loc(fn))


def r_source_zone_pair(chk, P, tier):
    """the source remembered for the change test and the zone loaded are built from one and the same TZ value, both when the cache is created and when it is
    refreshed: a cache that records another source than the one its zone came from keeps a stale zone (or reloads needlessly) at the next comparison"""
    chk.rule("SIB.source_zone", "wherever the cache is (re)built, Source::new and current_zone receive the same TZ value (same term: env::var(\"TZ\").ok().as_deref())", floor=2)
    # found by what they do, not by name: every function of local::inner that calls Source::new or current_zone (today Cache::default and Cache::offset)
    fns = [n for n in P.fns if P.has(n) and "{" not in n and (n.startswith("offset::local::inner::") or n.startswith("<offset::local::inner::"))
           and any(c.endswith("inner::Source::new") or c.endswith("inner::current_zone") for c in callees(P, n, with_closures=False))]
    if len(fns) < 2:
        raise AnchorLost("the two places that build the zone cache (creation and refresh)")
    for fn in sorted(fns):
        src, zone = set(), set()
        for p in Sym(P, fn).paths():
            for c in p.calls:
                if isinstance(c[1], str) and c[1].endswith("inner::Source::new"):
                    src.add(c[2][0])
                elif isinstance(c[1], str) and c[1].endswith("inner::current_zone"):
                    zone.add(c[2][0])
        if not src or not zone:
            raise AnchorLost(fn + ": Source::new / current_zone calls")
        reads_tz = all(any(x[0] == "call" and isinstance(x[1], str) and x[1].endswith("env::var") for x in walk_terms(a)) or "var('TZ')" in pp(a) for a in src | zone)
        chk.expect(src == zone and len(src) == 1 and reads_tz, fn.split("::")[-1], "%s: Source::new gets %s, current_zone gets %s (expected the same TZ value)" % (
            fn, sorted(pp(a)[:60] for a in src), sorted(pp(a)[:60] for a in zone)), loc=P.loc(fn))
