"""C03 — adding/subtracting elapsed time is exact or refused, never wrapped."""
from core import Prog, AnchorLost
from sym import Sym, pp, walk_terms, const_of
from rules import is_call, find_calls, arg_field, result_variant, callees, unref
import e1

OPS = {"std::ops::Add": "add", "std::ops::AddAssign": "add", "std::ops::Sub": "sub", "std::ops::SubAssign": "sub",
       "std::ops::Mul": "mul", "std::ops::Div": "div", "std::ops::Neg": "neg"}
OPPOSITE = {"add": "sub", "sub": "add", "mul": "div", "div": "mul"}
# operator bodies with arithmetic of their own (confirmed by reading): reason
OWN_ARITH = {
    "<naive::time::NaiveTime as std::ops::Add<std::time::Duration>>::add": "reduces the unsigned std Duration modulo two days before delegating",
    "<naive::time::NaiveTime as std::ops::Sub<std::time::Duration>>::sub": "reduces the unsigned std Duration modulo two days before delegating",
    "<time_delta::TimeDelta as std::ops::Neg>::neg": "negation is implemented directly (range symmetric)",
}
DT = "datetime::DateTime::<Tz>::"
NDT = "naive::datetime::NaiveDateTime::"
ND = "naive::date::NaiveDate::"


def run(chk, tier):
    P = Prog("default")
    chk.configs.add("default")
    for r in (r_operators, r_operator_directions, r_offset_independent, r_iterators, r_size_hint, r_date_arith, r_absint):
        chk.guarded(r, P, tier)
    chk.assume("that the carry / 400-year-cycle arithmetic is numerically exact (b + (a - b) = a) is not decided")
    return {
        "explanation": "C03 statically: every operator impl (+, -, +=, -=, *, /) of the date/time/duration types delegates to the same-direction checked_/overflowing_ "
                       "function and has no arithmetic of its own (3 named exceptions); DateTime arithmetic and differences operate on the stored UTC field, never on the "
                       "offset; the week iterator steps by Days(7) in both directions and the day iterator by succ/pred; every arithmetic step, cast (`days as i32`) and "
                       "construction on the checked paths is overflow-free for all operands (abstract interpretation).",
        "trusted_base": ["analysis/sym.py", "analysis/abs*.py", "specs/justifications.txt"],
    }


def r_operators(chk, P, tier):
    chk.rule("SIB.operators", "operator impls delegate to the same-direction checked form and do no arithmetic themselves", floor=55)
    for n, f in sorted(P.fns.items()):
        tr = f.get("trait")
        if tr not in OPS or "mir" not in f or f.get("file", "").endswith("date.rs") or "{" in n:
            continue
        d = OPS[tr]
        cs = {c for c in callees(P, n) if P.has(c) or c.startswith("offset::")}
        names = {c.split("::{")[0].split("::")[-1] for c in cs}
        own = sum(1 for b in f["mir"]["blocks"] if not b.get("cleanup") and b["t"]["k"] == "assert" and b["t"]["ak"].startswith(("Overflow", "Division", "Remainder")))
        if n in OWN_ARITH:
            chk.ok(n, "own arithmetic accepted: " + OWN_ARITH[n])
            continue
        same = [x for x in names if d in x or (d == "sub" and x == "signed_duration_since")]
        opp = [x for x in names if d in OPPOSITE and OPPOSITE[d] in x and x not in ("signed_duration_since",) and not (d in x)]
        ok = bool(same) and not opp and own == 0
        chk.expect(ok, n, "%s: delegates to %s (same direction %s, opposite %s), own arithmetic asserts %d" % (n, sorted(names), same, opp, own), loc=P.loc(n))
        # operand order: the left operand of the operator is the receiver / first argument of the function it delegates to
        if ok and f["mir"]["argc"] == 2:
            from rules import tag_locals
            tags, of = tag_locals(P, n, lambda a, b: None, arg_tag=lambda i: "lhs" if i == 1 else "rhs")
            for b in f["mir"]["blocks"]:
                t = b["t"]
                if b.get("cleanup") or t["k"] != "call" or len(t["args"]) < 2:
                    continue
                r = t["callee"].get("resolved") or t["callee"].get("def") or ""
                short = r.split("::{")[0].split("::")[-1]
                if short not in same or not (P.has(r) or r.startswith("offset::")):
                    continue
                a0, a1 = of(t["args"][0]), of(t["args"][1])
                swapped = "rhs" in a0 and "lhs" not in a0 and "lhs" in a1 and "rhs" not in a1
                chk.expect(not swapped, n + " operand order", "%s passes its right operand as the receiver of %s and its left operand as the argument (a - b computed as b - a)" % (n, short), loc=P.loc(n, t.get("ln")))


def single(P, fn):
    r = [p.ret for p in Sym(P, fn).paths() if p.end[0] == "return"]
    return r


def r_offset_independent(chk, P, tier):
    chk.rule("READS.utc_arith", "DateTime arithmetic and differences use the stored UTC value of both operands", floor=6)
    for m, target in (("checked_add_signed", NDT + "checked_add_signed"), ("checked_sub_signed", NDT + "checked_sub_signed")):
        rets = single(P, DT + m)
        calls = [c for t in rets for c in find_calls(t) if c[1] == target]
        calls += [c[1][1] for p in Sym(P, DT + m).paths() for c in p.conds if c[1][0] == "discr" and is_call(c[1][1]) and False]
        allc = [c for p in Sym(P, DT + m).paths() for t in ([p.ret] if p.ret else []) + [c[1] for c in p.conds] for c in find_calls(t) if c[1] == target]
        ok = allc and all(arg_field(c[2][0]) == (1, 0) and c[2][1] == ("arg", 2) for c in allc)
        chk.expect(ok, m, "%s does not apply %s to self.datetime" % (m, target.split("::")[-1]), loc=P.loc(DT + m))
    rets = single(P, DT + "signed_duration_since")
    ok = len(rets) == 1 and is_call(rets[0], name=NDT + "signed_duration_since") and arg_field(rets[0][2][0]) == (1, 0)
    if ok:
        b = rets[0][2][1]
        # rhs.borrow().datetime
        ok = b[0] in ("field", "deref") and any(x[0] == "field" and x[2] == 0 for x in walk_terms(b)) and ("arg", 2) in set(walk_terms(b))
    chk.expect(ok, "signed_duration_since", "DateTime::signed_duration_since is not self.datetime - rhs.datetime: %s" % [pp(r) for r in rets], loc=P.loc(DT + "signed_duration_since"))
    for fn in ("<datetime::DateTime<Tz> as std::ops::Sub>::sub", "<datetime::DateTime<Tz> as std::ops::Sub<&datetime::DateTime<Tz>>>::sub"):
        rets = single(P, fn)
        ok = len(rets) == 1 and is_call(rets[0], name=DT + "signed_duration_since") and arg_field(rets[0][2][0]) == (1, None) and arg_field(rets[0][2][1]) == (2, None)
        chk.expect(ok, fn, "%s is not self.signed_duration_since(rhs): %s" % (fn, [pp(r) for r in rets]), loc=P.loc(fn))
    for fn, target in (("<datetime::DateTime<Tz> as std::ops::AddAssign<time_delta::TimeDelta>>::add_assign", NDT + "checked_add_signed"),
                       ("<datetime::DateTime<Tz> as std::ops::SubAssign<time_delta::TimeDelta>>::sub_assign", NDT + "checked_sub_signed")):
        allc = [c for p in Sym(P, fn).paths() for c in p.calls if c[1] == target]
        ok = allc and all(arg_field(c[2][0]) == (1, 0) for c in allc)
        chk.expect(ok, fn, "%s does not operate on self.datetime" % fn, loc=P.loc(fn))


def r_iterators(chk, P, tier):
    chk.rule("STEP.iterators", "day iterator steps by succ_opt / pred_opt, week iterator by Days(7) forward and backward; each yields the value held before the step", floor=8)
    pre = "<naive::date::NaiveDate"
    for it, nxt, back in (("NaiveDateDaysIterator", {"succ_opt"}, {"pred_opt"}), ("NaiveDateWeeksIterator", {"checked_add_days"}, {"checked_sub_days"})):
        for m, want in (("std::iter::Iterator>::next", nxt), ("std::iter::DoubleEndedIterator>::next_back", back)):
            fn = "<naive::date::%s as %s" % (it, m)
            cs = {c.split("::")[-1] for c in callees(P, fn) if c.startswith("naive::date::NaiveDate::")}
            ok = want <= cs and not ((nxt | back) - want) & cs
            if ok and "Weeks" in it:
                days = [const_of(c[2][0]) for p in Sym(P, fn).paths() for c in p.calls if isinstance(c[1], str) and c[1].endswith("Days::new")]
                ok = bool(days) and all(d == 7 for d in days)
            chk.expect(ok, it + "::" + m.split("::")[-1], "%s uses %s (expected %s; week step must be Days::new(7))" % (fn, sorted(cs), sorted(want)), loc=P.loc(fn))
            # the item yielded is the value held BEFORE the step (the iterator starts at its own value in both directions): the Some payload is the stored field, not a stepped value
            pays = [result_variant(p_.ret)[1][0] for p_ in Sym(P, fn).paths() if p_.end[0] == "return" and result_variant(p_.ret)[0] == "Some"]
            if not pays:
                raise AnchorLost(fn + ": no Some return")
            def old_value(t):
                """the stored field itself, or mem::replace(&mut self.value, new) - which returns the value held before"""
                if is_call(t, suffix="mem::replace") and not any(x[0] == "call" for x in walk_terms(t[2][0])):
                    return True
                return not any(x[0] == "call" for x in walk_terms(t))
            stepped = [pp(t)[:80] for t in pays if not old_value(t)]
            chk.expect(not stepped, it + "::" + m.split("::")[-1] + " yields the current value", "%s yields %s (expected the value stored before the step)" % (fn, stepped), loc=P.loc(fn))


def r_size_hint(chk, P, tier):
    chk.rule("STEP.size_hint", "the remaining-length unit of each date iterator matches its step: whole days for the day iterator, whole weeks (num_weeks, or num_days / 7) for the week iterator", floor=6)
    for it, unit in (("NaiveDateDaysIterator", "num_days"), ("NaiveDateWeeksIterator", "num_weeks")):
        fn = "<naive::date::%s as std::iter::Iterator>::size_hint" % it
        cs = {c.split("::")[-1] for c in callees(P, fn) if c.startswith("time_delta::TimeDelta::num_")}
        ok = cs == {unit}
        if not ok and unit == "num_weeks" and cs == {"num_days"}:
            # accepted idiom: num_days() / 7
            from rules import consts_in_fn
            ok = 7 in consts_in_fn(P, fn)
        chk.expect(ok, it, "%s measures the remaining length with %s (expected %s)" % (fn, sorted(cs), unit), loc=P.loc(fn))
        # exactness: the iterator never yields NaiveDate::MAX itself, so the remaining length is the plain distance: lower and upper hint are the same
        # term and no constant is added to, subtracted from or multiplied into it (the only constant accepted is the divisor 7 of the week idiom)
        for p_ in Sym(P, fn).paths():
            if p_.end[0] != "return":
                continue
            r = p_.ret
            if not (r[0] == "agg" and len(r[4]) == 2):
                chk.bad(it + " shape", "%s returns %s, not a (lower, upper) pair" % (fn, pp(r)[:160]), loc=P.loc(fn))
                continue
            lo, hi = r[4]
            v, pay = result_variant(hi)
            same = v == "Some" and len(pay) == 1 and pp(pay[0]) == pp(lo)
            chk.expect(same, it + " bounds", "%s: lower hint %s and upper hint %s differ (the length is known exactly)" % (fn, pp(lo)[:120], pp(hi)[:120]), loc=P.loc(fn))
            offs = [x for x in walk_terms(lo) if x[0] == "bin" and any(const_of(y) not in (None, 0) for y in (x[2], x[3]))
                    and not (x[1] == "Div" and const_of(x[3]) == 7 and unit == "num_weeks") and x[1] not in ("Eq", "Ne", "Lt", "Le", "Gt", "Ge")]
            chk.expect(not offs, it + " exact", "%s adjusts the distance to NaiveDate::MAX by a constant: %s (the iterator never yields MAX itself, the distance is the length)" % (fn, [pp(x)[:80] for x in offs]), loc=P.loc(fn))


def r_absint(chk, P, tier):
    res = e1.run_engine(P, tier)
    names = ("add_days", "checked_add_days", "checked_sub_days", "checked_add_signed", "checked_sub_signed", "signed_duration_since", "overflowing_add_signed",
             "overflowing_sub_signed", "size_hint", "next", "next_back", "diff_days", "add", "sub", "add_assign", "sub_assign")

    def flt(fn):
        base = fn.split("::{")[0]
        return base.split("::")[-1] in names and ("naive::" in base or "datetime::DateTime" in base)
    e1.report(chk, P, res, "ABSINT.arith", "arithmetic, casts (`days as i32`) and construction sites on the checked add/sub paths are discharged or justified",
              fn_filter=flt, floor=25)


def r_date_arith(chk, P, tier):
    """Day arithmetic on plain dates as a region-representative value map. add_days has a same-year fast path and a 400-year-cycle path whose pieces are delimited by
    ordinal 0 / 365 / 366, the year-class table and the range ends. The def-use terms are folded (no execution) for base dates at both ends, around the leap day and in the
    middle of one year per year class (all 14 classes) and at both ends of the supported range, with day counts on both sides of every piece boundary (a month, a year
    with and without leap day, four years, a century, a 400-year cycle, the whole range, the i32 ends), against day-number arithmetic of the calendar oracle. The
    TimeDelta forms add a partial day of either sign (truncation toward zero); differences are folded for all pairs of base dates."""
    import calendar_oracle as cal
    from finmap import Folder, show, Unknown
    from props.c01 import _date, _yof_of, flags_of, ND as NDT
    from rules import table_value
    chk.rule("MAP.date_arith", "add_days, checked_add/sub_days, checked_add/sub_signed and signed_duration_since of NaiveDate folded on all region boundaries equal day-number arithmetic of the calendar", floor=8000)
    fo = Folder(P, max_depth=12)
    tbl = [flags_of(c) for c in table_value(P, "naive::internals::YEAR_TO_FLAGS")]
    miny, maxy = P.value("naive::date::MIN_YEAR"), P.value("naive::date::MAX_YEAR")
    NS = 10**9

    def yof(y, o):
        return (y << 13) | (o << 4) | tbl[y % 400]
    dn_min, dn_max = cal.day_number(miny, 1, 1), cal.day_number(maxy, 12, 31)

    def from_dn(n):
        y = n * 400 // 146097
        while cal.day_number(y, 1, 1) > n:
            y -= 1
        while cal.day_number(y + 1, 1, 1) <= n:
            y += 1
        return y, n - cal.day_number(y, 1, 1) + 1
    quick = tier != "thorough"
    reps = {}
    for y in range(2000, 2400):
        reps.setdefault(tbl[y % 400], y)
    bases = []
    for y in sorted(reps.values()):
        nd = cal.days_in_year(y)
        bases += [(y, o) for o in ((1, 60, 200, nd) if tier != "thorough" else (1, 2, 59, 60, 61, 200, nd - 1, nd))]
    for y in (1900, 2100, 2200):        # common years divisible by 4 (and 2000 above is the leap century): the leap rule's other pieces
        bases += [(y, 1), (y, 59), (y, 60), (y, 365)]
    bases += [(miny, 1), (miny, 2), (miny, cal.days_in_year(miny)), (maxy, 1), (maxy, cal.days_in_year(maxy) - 1), (maxy, cal.days_in_year(maxy)), (0, 1), (-1, 365), (1, 1), (-400, 366 if cal.leap(-400) else 365)]
    mags = (0, 1, 2, 6, 7, 28, 29, 30, 31, 58, 59, 60, 164, 165, 166, 199, 200, 305, 306, 364, 365, 366, 367, 730, 731, 1460, 1461, 1462, 36524, 36525, 146096, 146097, 146098,
            dn_max - dn_min - 1, dn_max - dn_min, dn_max - dn_min + 1, 2**31 - 2, 2**31 - 1)
    deltas = sorted({m for m in mags} | {-m for m in mags} | {-(2**31)})
    bad = {}
    n_ok = 0

    def fold(fn, args):
        try:
            return _yof_of(show(fo.call(NDT + "::" + fn, args)))
        except Unknown as e:
            return "unknown: %s" % e

    def want_date(n):
        if not dn_min <= n <= dn_max:
            return None
        return yof(*from_dn(n))

    def td(n):
        return ("agg", "adt", "time_delta::TimeDelta", "TimeDelta", (("const", n // NS), ("const", n % NS)), 0)

    def days(n):
        return ("agg", "adt", "naive::Days", "Days", (("const", n),), 0)
    quick = tier != "thorough"
    for (y, o) in bases:
        base = _date(yof(y, o))
        n0 = cal.day_number(y, 1, 1) + o - 1
        for d in deltas:
            got = fold("add_days", [base, ("const", d)])
            w = want_date(n0 + d)
            if got == w:
                n_ok += 1
            else:
                bad.setdefault("add_days (%s)" % ("same year" if w is not None and (w >> 13) == y else "other year" if w is not None else "out of range"), ((y, o), d, got, w))
            if d >= 0 and (not quick or d in (0, 1, 31, 165, 166, 365, 366, 1461, 146097, dn_max - dn_min, 2**31 - 1)):
                for fn, sg in (("checked_add_days", 1), ("checked_sub_days", -1)):
                    got = fold(fn, [base, days(d)])
                    w = want_date(n0 + sg * d)
                    if got == w:
                        n_ok += 1
                    else:
                        bad.setdefault(fn, ((y, o), d, got, w))
            if quick and abs(d) not in (0, 1, 31, 166, 365, 366, 146097, dn_max - dn_min):
                continue
            if abs(d) > 106751991167:
                continue
            for part in (0, 1, 86400 * NS - 1):
                dur = d * 86400 * NS + (part if d >= 0 else -part)      # |dur| = |d| days + part: truncation toward zero leaves d whole days
                if abs(dur) > (2**63 - 1) * 10**6:
                    continue
                for fn, sg in (("checked_add_signed", 1), ("checked_sub_signed", -1)):
                    got = fold(fn, [base, td(dur)])
                    w = want_date(n0 + sg * d)
                    if got == w:
                        n_ok += 1
                    else:
                        bad.setdefault("%s (%s)" % (fn, "whole days" if part == 0 else "partial day"), ((y, o), dur, got, w))
    for i, (y1, o1) in enumerate(bases):
        for (y2, o2) in (bases if not quick else bases[::3] + bases[-10:]):
            try:
                v = show(fo.call(NDT + "::signed_duration_since", [_date(yof(y1, o1)), _date(yof(y2, o2))]))
                got = v[1] * NS + v[2] if isinstance(v, tuple) and v[0] == "TimeDelta::TimeDelta" else v
            except Unknown as e:
                got = "unknown: %s" % e
            w = (cal.day_number(y1, 1, 1) + o1 - cal.day_number(y2, 1, 1) - o2) * 86400 * NS
            if got == w:
                n_ok += 1
            else:
                bad.setdefault("signed_duration_since", ((y1, o1), (y2, o2), got, w))
    for _ in range(n_ok):
        chk.ok("value")
    for cls, (a, b, got, want) in sorted(bad.items()):
        chk.bad(cls, "NaiveDate %s: (year, ordinal) %s with %s folds to %s, day-number arithmetic gives %s" % (cls, a, b, got, want), loc=P.loc(NDT + "::add_days"))


def r_operator_directions(chk, P, tier=None):
    import rules
    rules.operator_directions(chk, P, {"time_delta::TimeDelta", "std::time::Duration", "naive::Days", "offset::fixed::FixedOffset"}, floor=44)
