"""C17 — rounding and truncation (narrow: failure classification, guards, digit table, non-panicking basis)."""
from core import Prog, AnchorLost
from sym import Sym, pp, walk_terms, const_of
from rules import is_call, find_calls, arg_field, result_variant, callees, unref, extract_switch_map
import e1
import os

FNS = ("round::duration_round", "round::duration_trunc", "round::duration_round_up")
NAIVE_LOCAL = "datetime::DateTime::<Tz>::naive_local"


def run(chk, tier):
    P = Prog("default")
    chk.configs.add("default")
    for r in (r_guards, r_digits, r_basis, r_subsecs, r_unchanged, r_rounding_map, r_error_text, r_absint):
        chk.guarded(r, P, tier)
    chk.assume("which multiple is returned, tie breaking and idempotence are numerical and NOT decided")
    return {
        "explanation": "Narrow claim for C17: the three rounding helpers classify failures identically and exactly as documented (span not expressible in ns or <= 0 -> "
                       "DurationExceedsLimit; timestamp outside the i64-ns window -> TimestampExceedsLimit; the remainder is only taken after span > 0); the zone-aware impl "
                       "rounds the non-panicking wall-clock reading; span_for_digits is 10^(9 - min(9, d)) for every digit count (match table + default arm); round/trunc_subsecs "
                       "structure; all arithmetic in round.rs overflow-free (abstract interpretation, the `original +- delta` operator calls justified by name).",
        "trusted_base": ["analysis/sym.py", "analysis/abs*.py", "specs/justifications.txt"],
    }


def r_guards(chk, P, tier):
    chk.rule("SIB.guards", "duration_round / _trunc / _round_up share the guard prefix and the error classification", floor=18)
    for fn in FNS:
        errs = []
        oks = 0
        rem_guarded = True
        for p in Sym(P, fn).paths():
            if p.end[0] != "return":
                continue
            sw = [c for c in p.conds if c[0][0] == "switch"]
            var, payload = result_variant(p.ret)
            if is_call(p.ret) and str(p.ret[1]).endswith("::from_residual"):
                # `expr.ok_or(RoundingError::X)?` : the error is X, decided by the Option that ok_or was applied to
                oks_ = [x for x in walk_terms(p.ret) if is_call(x, suffix="Option::<T>::ok_or") and x[2][1][0] == "agg"]
                if oks_:
                    errs.append((oks_[0][2][1][3], [pp(oks_[0][2][0])[:400]] + [pp(c[1])[:400] for c in sw], oks_[0][2][0]))
                    continue
                # the residual of an inlined helper's explicit `return Err(RoundingError::X)`
                direct = [x for x in walk_terms(p.ret) if x[0] == "agg" and x[1] == "adt" and x[2] == "round::RoundingError"]
                if direct:
                    errs.append((direct[0][3], [pp(c[1])[:400] for c in sw]))
                    continue
            if var == "Err":
                errs.append((payload[0][3], [pp(c[1])[:400] for c in sw]))
            elif var == "Ok":
                oks += 1
                # every success path has passed `span <= 0` == false
                g = [c for c in sw if c[1][0] == "bin" and c[1][1] in ("Le", "Lt", "Gt", "Ge") and const_of(c[1][3]) == 0 and any(is_call(x, suffix="num_nanoseconds") for x in walk_terms(c[1][2]))]
                rem_guarded = rem_guarded and bool(g)
        dur = [e for e in errs if e[0] == "DurationExceedsLimit"]
        ok = len(dur) == 2 and all(any("num_nanoseconds" in c for c in e[1]) for e in dur)
        chk.expect(ok, fn + ": DurationExceedsLimit", "%s: DurationExceedsLimit must be returned exactly for num_nanoseconds() == None and for span <= 0 (found %s)" % (fn, errs), loc=P.loc(fn))
        # TimestampExceedsLimit comes from ok_or(..)? on timestamp_nanos_opt
        tl = False
        for p in Sym(P, fn).paths():
            for t in [c[1] for c in p.conds]:
                for x in walk_terms(t):
                    if is_call(x, suffix="Option::<T>::ok_or") and is_call(x[2][0], suffix="timestamp_nanos_opt") and x[2][1][0] == "agg" and x[2][1][3] == "TimestampExceedsLimit":
                        tl = True
        chk.expect(tl, fn + ": TimestampExceedsLimit", "%s does not map a missing nanosecond timestamp to TimestampExceedsLimit" % fn, loc=P.loc(fn))
        # ... and from nothing else: each TimestampExceedsLimit result is the ok_or of timestamp_nanos_opt itself, or an explicit Err whose deciding (last) test
        # is on timestamp_nanos_opt (the error is reported exactly for date-times whose nanosecond timestamp does not fit)
        other = []
        for e in errs:
            if e[0] != "TimestampExceedsLimit":
                continue
            if len(e) > 2:
                src = e[2]
                while src[0] in ("ref", "deref"):
                    src = src[1]
                if not is_call(src, suffix="timestamp_nanos_opt"):
                    other.append(pp(src)[:120])
            elif not (len(e[1]) and "timestamp_nanos_opt" in e[1][-1]):
                other.append(e[1][-1][:120] if e[1] else "unconditional")
        chk.expect(not other, fn + ": TimestampExceedsLimit only from the timestamp", "%s reports TimestampExceedsLimit from %s (expected: only when timestamp_nanos_opt() is None)" % (fn, other), loc=P.loc(fn))
        # the span that is classified is the caller's span, unmodified (no clamping / normalising before the test)
        recv = set()
        for p in Sym(P, fn).paths():
            for c in p.calls:
                if isinstance(c[1], str) and c[1].endswith("TimeDelta::num_nanoseconds"):
                    a = c[2][0]
                    while a[0] in ("ref", "deref"):
                        a = a[1]
                    recv.add(a)
        chk.expect(bool(recv) and all(a[0] == "arg" for a in recv), fn + ": span unmodified", "%s classifies %s, not the span argument itself, with num_nanoseconds()" % (
            fn, sorted(pp(a)[:50] for a in recv if a[0] != "arg")), loc=P.loc(fn))
        # one basis for all spans: every value is computed from the nanosecond timestamp of the wall-clock reading (no per-span shortcut)
        nobasis = 0
        nok = 0
        for p in Sym(P, fn).paths():
            if p.end[0] == "return" and result_variant(p.ret)[0] == "Ok":
                nok += 1
                if not any(isinstance(c[1], str) and c[1].endswith("timestamp_nanos_opt") for c in p.calls):
                    nobasis += 1
        chk.expect(nok > 0 and nobasis == 0, fn + ": epoch basis", "%s returns Ok on %d of %d paths without having taken timestamp_nanos_opt() (multiples are counted from the Unix epoch for every span)" % (fn, nobasis, nok), loc=P.loc(fn))
        chk.expect(rem_guarded and oks >= 3, fn + ": span > 0 before %", "%s has a success path that does not pass the `span <= 0` guard" % fn, loc=P.loc(fn))


def r_digits(chk, P, tier):
    """span_for_digits as a complete finite map: the argument is a u16, all 65 536 values are folded (def-use terms, no execution) - independent of whether
    the function is written as a match, a table lookup or arithmetic"""
    from finmap import Folder, Unknown
    chk.rule("TBL.span_for_digits", "span_for_digits(d) = 10^(9 - min(9, d)) for every d in 0..=65535 (complete finite map)", floor=10)
    fo = Folder(P)
    fn = "round::span_for_digits"
    bad = {}
    for d in range(65536):
        try:
            r = fo.call(fn, [("const", d)])
            v = r[1] if isinstance(r, tuple) and r and r[0] == "const" else r
        except Unknown as e:
            v = "unknown: %s" % e
        if v != 10 ** (9 - min(9, d)):
            bad.setdefault(min(d, 9), (d, v))
    for d in range(9):
        chk.expect(d not in bad, "digits=%d" % d, "span_for_digits(%s) = %s, expected %d" % (bad.get(d, (d, 0))[0], bad.get(d, (d, 0))[1], 10 ** (9 - d)), loc=P.loc(fn))
    chk.expect(9 not in bad, "digits>=9", "span_for_digits(%s) = %s, expected 1 for every d >= 9" % bad.get(9, (9, 1)), loc=P.loc(fn))


def r_basis(chk, P, tier):
    chk.rule("NOREACH.round", "DurationRound for DateTime<Tz> rounds overflowing_naive_local(), never the panicking naive_local()", floor=4)
    for m, helper in (("duration_round", FNS[0]), ("duration_trunc", FNS[1]), ("duration_round_up", FNS[2])):
        fn = "<datetime::DateTime<Tz> as round::DurationRound>::" + m
        r = [p.ret for p in Sym(P, fn).paths() if p.end[0] == "return"]
        ok = len(r) == 1 and is_call(r[0], name=helper) and arg_field(r[0][2][1]) == (1, None)
        if ok:
            basis = r[0][2][0]
            # the wall-clock basis: overflowing_naive_local() of the receiver, or its body naive_utc().overflowing_add_offset(offset().fix()) - computed from the receiver only
            names = {str(x[1]).split("::")[-1] for x in walk_terms(basis) if x[0] == "call"}
            from_recv = all(y == ("arg", 1) for y in walk_terms(basis) if y[0] == "arg")
            ok = from_recv and (names == {"overflowing_naive_local"} or names == {"naive_utc", "overflowing_add_offset", "offset", "fix"})
        seen = P.reachable_from([fn])
        chk.expect(ok and NAIVE_LOCAL not in seen, m, "%s: %s (naive_local reachable: %s)" % (fn, [pp(x)[:150] for x in r], NAIVE_LOCAL in seen), loc=P.loc(fn))
    ctl = P.reachable_from(["datetime::DateTime::<Tz>::date_naive"])
    chk.expect(NAIVE_LOCAL in ctl, "control", "positive control failed")


def r_subsecs(chk, P, tier):
    chk.rule("SIB.subsecs", "round_subsecs / trunc_subsecs take span_for_digits(digits) and the nanosecond modulo that span", floor=2)
    for m in ("round_subsecs", "trunc_subsecs"):
        fns = [n for n in P.fns if n.endswith("round::SubsecRound>::" + m) and P.has(n)]
        if not fns:
            raise AnchorLost("SubsecRound::" + m)
        fn = fns[0]
        cs = callees(P, fn)
        rem = False
        for p in Sym(P, fn).paths():
            for t in [c[1] for c in p.conds] + ([p.ret] if p.ret else []):
                for x in walk_terms(t):
                    if x[0] == "bin" and x[1] == "Rem" and any(is_call(y, name="round::span_for_digits") for y in walk_terms(x[3])) and any(is_call(y, suffix="nanosecond") for y in walk_terms(x[2])):
                        rem = True
        chk.expect("round::span_for_digits" in cs and rem, m, "%s does not compute nanosecond() %% span_for_digits(digits)" % m, loc=P.loc(fn))


def r_absint(chk, P, tier):
    res = e1.run_engine(P, tier)
    e1.report(chk, P, res, "ABSINT.round", "arithmetic in round.rs (and the operator calls it makes) is discharged or justified",
              fn_filter=lambda fn: fn.startswith("round::") or "round::" in fn, floor=12)


def r_unchanged(chk, P, tier):
    """"multiples are returned unchanged" and idempotence: the input comes back untouched exactly on the paths that found stamp % span == 0"""
    chk.rule("COND.unchanged_iff_multiple", "duration_round / _trunc / _round_up return `original` itself on exactly the paths where (stamp % span) was tested equal to 0", floor=3)
    for fn in FNS:
        n = 0
        for p in Sym(P, fn).paths():
            if p.end[0] != "return" or result_variant(p.ret)[0] != "Ok":
                continue
            payload = p.ret[4][0]
            zero_rem = False
            for c in p.conds:
                t = c[1]
                if c[0][0] != "switch":
                    continue
                if t[0] == "bin" and t[1] == "Eq" and const_of(t[3]) == 0 and (t[2][0] == "bin" and t[2][1] == "Rem" or is_call(t[2], suffix="::rem_euclid")) and c[2] != 0:
                    zero_rem = True
                if t[0] == "discr" and is_call(t[1]) and str(t[1][1]).endswith("Ord for i64>::cmp") and c[2] == 0:
                    a, b = t[1][2]
                    a, b = unref(a), unref(b)
                    if a[0] == "bin" and a[1] == "Rem" and const_of(b) == 0:
                        zero_rem = True
            unchanged = payload[0] == "arg"
            n += 1
            if unchanged != zero_rem and not os.environ.get("VERIF_NO_VALUE_MAPS") and not any(
                    x[0] == "bin" and x[1] == "Rem" for c in p.conds for x in walk_terms(c[1])):
                # the remainder is not computed with `%` on this path (another idiom): which value is returned for a multiple is decided by MAP.rounding
                chk.assume("COND.unchanged_iff_multiple: %s does not test `stamp %% span == 0` in the recognised form; decided by MAP.rounding" % fn)
                continue
            if unchanged != zero_rem:
                chk.bad(fn + ": path %d" % n, "%s returns %s on a path where stamp %% span %s found equal to 0" % (fn, "the input unchanged" if unchanged else "a modified value", "was NOT" if unchanged else "was"), loc=P.loc(fn))
                break
        else:
            chk.ok(fn + " (%d Ok paths)" % n)


def r_rounding_map(chk, P, tier):
    """Which multiple is returned, as a residue-class value map. The three helpers compute from (stamp, span) a signed correction that is added to or subtracted from the
    caller's value with the type's own operator (kept symbolic: the helpers are generic). The correction depends on the sign of the stamp and on where stamp mod span lies
    relative to 0, span/2 and span. The def-use terms are folded (no execution) for spans 1, 2, 3, 7, 10, 10^3, 10^6, 10^9, a minute, an hour, a day, a week, 2^62 and
    i64::MAX ns, and for every span for stamps k*span + r with k in -3..=2 and r on both sides of each of those residue boundaries, plus both ends of the
    64-bit-nanosecond window; expected: floor / ceiling / nearest-with-ties-up multiple in exact integers. Also folded: the failure classes (span <= 0, span not expressible
    in ns, stamp outside the window) and round_subsecs / trunc_subsecs for every digit count 0..=10 over the residues of the nanosecond field including leap-second values."""
    import calendar_oracle as cal
    from finmap import Folder, show, Unknown
    from rules import table_value
    from props.c01 import flags_of
    chk.rule("MAP.rounding", "duration_round / _trunc / _round_up and round_subsecs / trunc_subsecs folded on all residue boundaries return the nearest-ties-up / floor / ceiling multiple; failures as documented", floor=1700)
    fo = Folder(P, max_depth=14, opaque=lambda n: n in ("std::ops::Add::add", "std::ops::Sub::sub"))
    tbl = [flags_of(c) for c in table_value(P, "naive::internals::YEAR_TO_FLAGS")]
    NS = 10**9
    epoch = cal.day_number(1970, 1, 1)
    I64 = (-(2**63), 2**63 - 1)

    def from_dn(n):
        y = n * 400 // 146097
        while cal.day_number(y, 1, 1) > n:
            y -= 1
        while cal.day_number(y + 1, 1, 1) <= n:
            y += 1
        return y, n - cal.day_number(y, 1, 1) + 1

    def ndt(stamp):
        secs, frac = stamp // NS, stamp % NS
        y, o = from_dn(secs // 86400 + epoch)
        yof = (y << 13) | (o << 4) | tbl[y % 400]
        return ("agg", "adt", "naive::datetime::NaiveDateTime", "NaiveDateTime",
                (("agg", "adt", "naive::date::NaiveDate", "NaiveDate", (("const", yof),), 0), ("agg", "adt", "naive::time::NaiveTime", "NaiveTime", (("const", secs % 86400), ("const", frac)), 0)), 0)

    def td(n):
        return ("agg", "adt", "time_delta::TimeDelta", "TimeDelta", (("const", n // NS), ("const", n % NS)), 0)

    def correction(v):
        """signed correction in ns of a shown Ok(original [+|- TimeDelta]) value, or the error name"""
        if isinstance(v, tuple) and v[0] == "Result::Err":
            e = v[1]
            while isinstance(e, tuple) and len(e) == 2 and e[0] == "Result::Err":
                e = e[1]        # the residual of a `?` on an inlined private helper is shown as a nested Err
            return e
        if isinstance(v, tuple) and v[0] == "Result::Ok":
            r = v[1]
            if r == "arg99":
                return 0
            if isinstance(r, tuple) and r[0] == "opaque" and r[2] == "arg99" and isinstance(r[3], tuple) and r[3][0] == "TimeDelta::TimeDelta":
                n = r[3][1] * NS + r[3][2]
                return n if r[1].endswith("add") else -n
        return ("?", v)
    spans = (1, 2, 3, 7, 10, 1000, 10**6, NS, 60 * NS, 3600 * NS, 86400 * NS, 7 * 86400 * NS, 2**62, I64[1])
    bad = {}
    n_ok = [0]

    def expect(cls, a, got, w):
        if got == w:
            n_ok[0] += 1
        else:
            bad.setdefault(cls, (a, got, w))
    for span in spans:
        rs = sorted({r for r in (0, 1, span // 2 - 1, span // 2, span // 2 + 1, (span + 1) // 2, span - 1) if 0 <= r < span})
        stamps = {k * span + r for k in (-3, -2, -1, 0, 1, 2) for r in rs} | {I64[0] + 1, I64[0] + 2, I64[1] - 1, I64[1], -1, 0, 1}
        for t in sorted(stamps):
            if not I64[0] < t <= I64[1]:
                continue
            lo = t - t % span
            hi = lo if lo == t else lo + span
            want = {"round::duration_trunc": lo - t, "round::duration_round_up": hi - t, "round::duration_round": (hi - t) if (hi - t) <= (t - lo) else (lo - t)}
            for fn in FNS:
                try:
                    got = correction(show(fo.call(fn, [ndt(t), ("arg", 99), td(span)])))
                except Unknown as e:
                    got = "unknown: %s" % e
                side = "multiple" if t % span == 0 else ("stamp < 0" if t < 0 else "stamp > 0")
                expect("%s (%s)" % (fn.split("::")[-1], side), (t, span), got, want[fn])
    mid = ndt(1234567890123456789)
    for fn in FNS:
        for span, w in ((0, "RoundingError::DurationExceedsLimit"), (-1, "RoundingError::DurationExceedsLimit"), (-(2**63 - 1) * 10**6, "RoundingError::DurationExceedsLimit"),
                        (I64[1] + 1, "RoundingError::DurationExceedsLimit"), ((2**63 - 1) * 10**6, "RoundingError::DurationExceedsLimit")):
            try:
                got = correction(show(fo.call(fn, [mid, ("arg", 99), td(span)])))
            except Unknown as e:
                got = "unknown: %s" % e
            expect("%s (span refused)" % fn.split("::")[-1], span, got, w)
        for t in (I64[0] - 1, I64[0] - NS, I64[1] + 1, I64[1] + 400 * 365 * 86400 * NS, -(300 * 365 * 86400 * NS) * 2):
            try:
                got = correction(show(fo.call(fn, [ndt(t), ("arg", 99), td(NS)])))
            except Unknown as e:
                got = "unknown: %s" % e
            # i64::MIN itself is representable by timestamp_nanos_opt; one below is not
            expect("%s (stamp outside the window)" % fn.split("::")[-1], t, got, "RoundingError::TimestampExceedsLimit")
    # sub-second rounding: the nanosecond() call of the generic receiver is bound to each value
    for fn, mode in (("<T as round::SubsecRound>::round_subsecs", "round"), ("<T as round::SubsecRound>::trunc_subsecs", "trunc")):
        keys = {pp(c) for p_ in Sym(P, fn).paths() for t in [x[1] for x in p_.conds] + ([p_.ret] if p_.end[0] == "return" else []) for c in find_calls(t) if c[1].endswith("Timelike::nanosecond") or str(c[1]).endswith("::nanosecond")}
        if len(keys) != 1:
            raise AnchorLost("%s: expected one nanosecond() term, found %s" % (fn, sorted(keys)))
        key = keys.pop()
        for digits in list(range(0, 11)) + [65535]:
            span = 10 ** (9 - min(9, digits))
            rs = sorted({r for r in (0, 1, span // 2 - 1, span // 2, span // 2 + 1, span - 1) if 0 <= r < span})
            vals = sorted({k * span + r for k in (0, 1, (NS // span) - 1, NS // span, 2 * (NS // span) - 1) for r in rs if 0 <= k * span + r < 2 * NS})
            for nano in vals:
                lo = nano - nano % span
                hi = lo if lo == nano else lo + span
                w = (lo - nano) if mode == "trunc" else ((hi - nano) if (hi - nano) <= (nano - lo) else (lo - nano))
                try:
                    v = show(fo.call(fn, [("arg", 99), ("const", digits)], bind={key: nano}))
                    got = correction(("Result::Ok", v))
                except Unknown as e:
                    got = "unknown: %s" % e
                expect("%s_subsecs" % mode, (nano, digits), got, w)
    for _ in range(n_ok[0]):
        chk.ok("value")
    for cls, (a, got, w) in sorted(bad.items()):
        chk.bad(cls, "%s: (stamp / nanosecond, span / digits) = %s folds to a correction of %s, exact arithmetic gives %s" % (cls, a, got, w), loc=P.loc("round::duration_round"))


def r_error_text(chk, P, tier):
    """the failure that is reported is named for what exceeded what: the Display text of RoundingError::<Subject>Exceeds<Object> begins with the subject (`duration ...`,
    `timestamp ...`) - two variants must not carry each other's message"""
    import re
    chk.rule("MATCH.error_text", "the Display text of each RoundingError variant starts with the subject of its name (duration / timestamp)", floor=3)
    fn = "<round::RoundingError as std::fmt::Display>::fmt"
    vs = P.adts["round::RoundingError"]["variants"]
    got = {}
    for p in Sym(P, fn).paths():
        if p.end[0] != "return":
            continue
        d = [c for c in p.conds if c[0][0] == "switch" and c[1][0] == "discr"]
        strs = [const_of(x) for x in walk_terms(p.ret) if x[0] == "const" and isinstance(const_of(x), str)]
        if len(d) == 1 and not isinstance(d[0][2], tuple) and strs:
            got[d[0][2]] = strs[0]
    for v in vs:
        subject = re.findall("[A-Z][a-z]*", v["name"])[0].lower()
        txt = got.get(v["discr"])
        if txt is None:
            raise AnchorLost("RoundingError Display: no text for " + v["name"])
        chk.expect(txt.lower().startswith(subject), v["name"], "RoundingError::%s is displayed as `%s` (expected a text about the %s)" % (v["name"], txt, subject), loc=P.loc(fn))
