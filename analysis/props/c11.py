"""C11 — RFC 2822: obsolete zone table, year-length rule, reader widths, writer structure (narrow)."""
from core import Prog, AnchorLost
from sym import Sym, pp, walk_terms, const_of
from rules import is_call, find_calls, arg_field, result_variant, callees, unref, cond_constraints
from props.c09 import skeletons
import scan_tables
from format_locales import default_tables
import e1

TZ2822 = "format::scan::timezone_offset_2822"
PR = "format::parse::parse_rfc2822"
WR = "format::formatting::write_rfc2822"
ZONES = {"gmt": 0, "ut": 0, "z": 0, "edt": -4, "est": -5, "cdt": -5, "cst": -6, "mdt": -6, "mst": -7, "pdt": -7, "pst": -8}     # RFC 2822 section 4.3


def cdeep(t):
    while t[0] in ("cast", "ref", "deref"):
        t = t[1]
    return const_of(t)


def run(chk, tier):
    P = Prog("default")
    chk.configs.add("default")
    from props import c12
    chk.guarded(c12.r_offset_writer_map, P, tier)
    for r in (r_zones, r_year_rule, r_reader_widths, r_writer, r_weekday, r_absint, r_flow, r_own_ranges, r_comments, r_colon_ws, r_item_arms, r_mandatory_space):
        chk.guarded(r, P, tier)
    chk.assume("optional-part acceptance, comments, white-space runs and the values returned (the round trip) are NOT decided")
    return {
        "explanation": "Narrow claim for C11: the obsolete zone-name table of the reader (11 names and the military letters except J) is extracted from the comparison chain "
                       "and compared with RFC 2822 section 4.3 (the tests cover 3 of the names); the year-length rule (2 digits: 00-49 -> 20xx, 50-99 -> 19xx; 3 digits -> "
                       "+1900) as boxes on the path conditions; the reader's field widths; the writer's skeleton `Www, D Mon YYYY HH:MM:SS +HHMM`, its name-table indexing "
                       "(Sunday-based weekdays, month0) and OffsetFormat {Minutes, no colon, no Z, zero-padded}; a contradicting weekday is checked by resolution (C14); no "
                       "panic / lossy cast in reader, comment scanner and writer (abstract interpretation).",
        "trusted_base": ["RFC 2822 section 4.3 transcription (ZONES table in this file)", "analysis/sym.py", "analysis/abs*.py", "specs/justifications.txt"],
    }


def r_zones(chk, P, tier):
    chk.rule("TBL.zones", "zone names map to the RFC 2822 offsets; single letters except J read as +0000; everything else is invalid", floor=13)
    tbl = {}
    letters = set()
    for p in Sym(P, TZ2822).paths():
        if p.end[0] != "return":
            continue
        names = []
        for c in p.conds:
            if c[0][0] == "switch" and is_call(c[1], suffix="eq_ignore_ascii_case"):
                v = cdeep(c[1][2][1])
                truth = (c[2] != 0) if not isinstance(c[2], tuple) else True
                names.append((bytes(v).decode() if isinstance(v, tuple) else v, truth))
        lt = [n for n, t in names if t]
        if lt and is_call(p.ret) and isinstance(p.ret[1], str) and "closure" in p.ret[1]:
            hours = [const_of(x) for x in walk_terms(p.ret[2][-1]) if x[0] == "const" and isinstance(const_of(x), int) and not isinstance(const_of(x), bool)]
            tbl.setdefault(lt[-1], set()).update(hours)
        elif not lt and result_variant(p.ret)[0] == "Ok":
            idx = [x for c in p.conds if c[0][0] == "switch" for x in walk_terms(c[1]) if x[0] == "index"]
            if idx:
                box, other = cond_constraints(p.conds, {"b": idx[0]})
                lo, hi = box["b"]
                if lo is not None and hi is not None and lo <= hi:
                    letters.add((lo, hi))
                    val = p.ret[4][0][4][1]
                    if const_of(val) != 0:
                        letters.add(("value", pp(val)))
    for n, h in sorted(ZONES.items()):
        chk.expect(tbl.get(n) == {h}, n.upper(), "zone %s reads as %s hours, RFC 2822 says %+d" % (n.upper(), sorted(tbl.get(n, [])), h), loc=P.loc(TZ2822))
    chk.expect(set(tbl) == set(ZONES), "no other names", "other zone names accepted: %s" % sorted(set(tbl) - set(ZONES)))
    want = {(65, 73), (75, 89), (97, 105), (107, 121)}
    chk.expect(letters == want, "military letters", "single letters accepted: %s, expected A-I, K-Y in both cases with value 0" % sorted(letters, key=str), loc=P.loc(TZ2822))
    cl = [p.ret for p in Sym(P, TZ2822 + "::{closure#1}").paths() if p.end[0] == "return"]
    ok = len(cl) == 1 and any(x[0] == "bin" and x[1].startswith("Mul") and const_of(x[3]) == 3600 for x in walk_terms(cl[0]))
    chk.expect(ok, "hours to seconds", "offset_hours does not multiply by 3600: %s" % [pp(x) for x in cl])


def r_year_rule(chk, P, tier):
    chk.rule("BOX.year_length", "2-digit years 00-49 -> +2000, 50-99 -> +1900, 3-digit years -> +1900, others unchanged", floor=3)
    found = set()
    for p in Sym(P, PR).paths(max_paths=100000):
        adds = [c for c in p.conds if c[0][0] == "assert" and c[0][1] == "Overflow" and c[0][2] == "Add"]
        # collect (yearlen value, year box, constant added to year) on paths that reach set_year
        sy = [c for c in p.calls if isinstance(c[1], str) and c[1].endswith("Parsed::set_year")]
        if not sy:
            continue
        arg = sy[0][2][1]
        num = [x for x in walk_terms(arg) if is_call(x, name="format::scan::number")]
        if not num:
            continue
        year_term = [x for x in walk_terms(arg) if x[0] == "field" and x[2] == 1 and x[1][0] in ("as", "field", "call")]
        added = [const_of(x[3]) for x in walk_terms(arg) if x[0] == "bin" and x[1].startswith("Add") and const_of(x[3]) is not None]
        ylen = None
        ybox = [None, None]
        for c in p.conds:
            if c[0][0] != "switch":
                continue
            d, v = c[1], c[2]
            if d[0] == "bin" and d[1].startswith("Sub") and not isinstance(v, tuple):
                ylen = v
            if d[0] == "field" and d[2] == 0 and d[1][0] == "bin" and d[1][1].startswith("Sub") and not isinstance(v, tuple):
                ylen = v
        # year range conditions: comparisons of the parsed number with constants
        subj = None
        for c in p.conds:
            if c[0][0] == "switch" and c[1][0] == "bin" and c[1][1] in ("Le", "Lt", "Ge", "Gt") and const_of(c[1][3]) in (0, 49, 50, 99, 100) and any(is_call(x, name="format::scan::number") for x in walk_terms(c[1][2])):
                subj = c[1][2]
        if subj is not None:
            box, _ = cond_constraints(p.conds, {"y": subj})
            ybox = box["y"]
        found.add((ylen, tuple(ybox), tuple(added)))
    found = {(l, b, a) for (l, b, a) in found if not (b[0] is not None and b[1] is not None and b[0] > b[1])}
    got = {(l, b, a) for (l, b, a) in found if a}
    want = {(2, (0, 49), (2000,)), (2, (50, 99), (1900,)), (3, (None, None), (1900,))}
    norm = {(l, (b[0] if b[0] is not None and l == 2 else (0 if l == 2 else None), b[1] if l == 2 else None), a) for (l, b, a) in got}
    chk.expect(norm == want, "year rule", "year-length rule extracted as %s, RFC 2822 section 4.3 says %s" % (sorted(norm, key=str), sorted(want, key=str)), loc=P.loc(PR))
    unchanged = {(l, a) for (l, b, a) in found if not a}
    chk.expect(bool(unchanged), "4-digit years unchanged", "no path leaves the year unchanged")
    chk.expect(len(found) >= 3, "paths", "only %d year paths" % len(found))


def r_reader_widths(chk, P, tier):
    chk.rule("SHAPE.reader", "field widths of the RFC 2822 reader: day 1-2, year >= 2, hour/minute/second exactly 2 digits", floor=4)
    widths = {}
    for p in Sym(P, PR).paths(max_paths=100000):
        calls = [c for c in p.calls if isinstance(c[1], str)]
        for j, c in enumerate(calls):
            if c[1] == "format::scan::number":
                setter = next((d[1].split("::")[-1] for d in calls[j + 1:] if "Parsed::set_" in d[1]), None)
                if setter:
                    widths.setdefault(setter, set()).add((const_of(c[2][1]), const_of(c[2][2])))
    want = {"set_day": {(1, 2)}, "set_year": {(2, (1 << 64) - 1)}, "set_hour": {(2, 2)}, "set_minute": {(2, 2)}, "set_second": {(2, 2)}}
    for k, v in want.items():
        chk.expect(widths.get(k) == v, k, "%s is fed by number%s, expected %s" % (k, sorted(widths.get(k, [])), sorted(v)), loc=P.loc(PR))
    cs = callees(P, PR)
    chk.expect({"format::scan::short_weekday", "format::scan::short_month0", TZ2822, "format::scan::comment_2822"} <= cs, "scanners", "parse_rfc2822 callees: %s" % sorted(c.split("::")[-1] for c in cs if "scan" in c))


def r_writer(chk, P, tier):
    chk.rule("SHAPE.writer", "write_rfc2822 emits `Www, D Mon YYYY HH:MM:SS +HHMM` with Sunday-based weekday and month0 indices", floor=4)
    sk = skeletons(P, WR)
    sk = {s for s in sk if s and "?" not in s[:0]}
    ok = bool(sk) and all(s.count(":") == 2 and s.count(", ") == 1 for s in sk if ":" in s)
    chk.expect(ok, "skeleton", "write_rfc2822 writes %s" % sorted(sk)[:3], loc=P.loc(WR))
    # name table indexing
    idx_ok = {"short_weekdays": False, "short_months": False}
    for p in Sym(P, WR).paths():
        for t in [c for c in p.calls] + [c[1] for c in p.conds]:
            for x in walk_terms(t):
                if x[0] == "index" or (x[0] == "call" and isinstance(x[1], str) and x[1].endswith("for [T]>::index")):
                    base, ix = (x[1], x[2]) if x[0] == "index" else (x[2][0], x[2][1])
                    b = [c[1].split("::")[-1] for c in find_calls(base)]
                    i = [c[1].split("::")[-1] for c in find_calls(ix)]
                    if "short_weekdays" in b and "num_days_from_sunday" in i:
                        idx_ok["short_weekdays"] = True
                    if "short_months" in b and "month0" in i:
                        idx_ok["short_months"] = True
    chk.expect(all(idx_ok.values()), "name indices", "weekday/month names are not indexed by num_days_from_sunday()/month0(): %s" % idx_ok, loc=P.loc(WR))
    t = default_tables(P)
    chk.expect(t["short_weekdays"][0] == "Sun" and t["short_months"][0] == "Jan", "tables", "default tables start with %s / %s" % (t["short_weekdays"][0], t["short_months"][0]))
    aggs = [x for p in Sym(P, WR).paths() for c in p.calls for x in walk_terms(c) if x[0] == "agg" and x[1] == "adt" and x[2] == "format::OffsetFormat"]
    ok = bool(aggs)
    for a in aggs:
        prec, colons, zulu, pad = a[4]
        ok = ok and prec[3] == "Minutes" and colons[3] == "None" and const_of(zulu) is False and pad[3] == "Zero"
    if not aggs:
        from sym import thaw
        consts = [thaw(const_of(x)) for p in Sym(P, WR).paths() for c in p.calls for x in walk_terms(c) if x[0] in ("const", "named") and isinstance(const_of(x), tuple)]
        ofs = [c for c in consts if isinstance(c, dict) and c.get("adt") == "format::OffsetFormat"]
        ok = bool(ofs)
        for c in ofs:
            f = c["fields"]
            ok = ok and f["precision"]["variant"] == "Minutes" and f["colons"]["variant"] == "None" and f["allow_zulu"] is False and f["padding"]["variant"] == "Zero"
    chk.expect(ok, "offset format", "write_rfc2822's OffsetFormat is not {Minutes, no colon, no Z, Zero}", loc=P.loc(WR))
    # the year field: exactly four digits, written as two zero-padded pairs write_hundreds(year / 100), write_hundreds(year % 100)
    good = 0
    total = 0
    for p in Sym(P, WR).paths():
        if p.end[0] != "return" or not any(isinstance(c[1], str) and "OffsetFormat>::format" in c[1] for c in p.calls):
            continue        # complete renderings only (the offset is written last)
        total += 1
        ops = set()
        for c in p.calls:
            if isinstance(c[1], str) and c[1].endswith("write_hundreds"):
                for x in walk_terms(c[2][1]):
                    if x[0] == "bin" and x[1] in ("Div", "Rem") and const_of(x[3]) == 100 and any(is_call(y) and str(y[1]).endswith("::year") for y in walk_terms(x[2])):
                        ops.add(x[1])
        if ops == {"Div", "Rem"}:
            good += 1
    chk.expect(total > 0 and good == total, "four-digit year", "write_rfc2822 does not write the year as write_hundreds(year / 100) + write_hundreds(year %% 100) on %d of %d complete paths "
               "(RFC 2822 needs exactly four digits for 0..=9999; the reader decides by the digit count)" % (total - good, total), loc=P.loc(WR))


def r_weekday(chk, P, tier):
    chk.rule("REACH.weekday", "parse_from_rfc2822 resolves through to_datetime -> to_naive_date, which consults the weekday (see C14)", floor=1)
    fn = "datetime::DateTime::<offset::fixed::FixedOffset>::parse_from_rfc2822"
    seen = P.reachable_from([fn])
    ok = "format::parsed::Parsed::to_naive_date" in seen and PR in seen
    chk.expect(ok, "resolution", "parse_from_rfc2822 does not reach parse_rfc2822 + Parsed::to_naive_date", loc=P.loc(fn))


def r_absint(chk, P, tier):
    res = e1.run_engine(P, tier, extra_roots=(WR,))
    e1.report(chk, P, res, "ABSINT.rfc2822", "reader, zone/comment scanners and writer of RFC 2822 are free of panics and lossy casts (discharged or justified)",
              fn_filter=lambda fn: fn.split("::{")[0] in (PR, WR, TZ2822, "format::scan::comment_2822", "format::scan::short_weekday", "format::scan::short_month0", "format::scan::space",
                                                          "format::formatting::<impl format::OffsetFormat>::format", "format::formatting::write_hundreds"), floor=25)


def r_flow(chk, P, tier):
    """no scanned field is dropped: the value of every value-returning scan call reaches a Parsed setter on every successful path"""
    from fmt_tables import scanned_value_flow
    chk.rule("FLOW.scanned", "every value a format::scan function returned Ok for is handed to a Parsed setter on each successful path (no scanned field is silently dropped)", floor=8)
    for fn in ('format::parse::parse_rfc2822',):
        rows = scanned_value_flow(P, fn)
        if not rows:
            raise AnchorLost("no value-returning scan call found in " + fn)
        for name, ln, ok, dropped in rows:
            chk.expect(dropped == 0 and ok > 0, "%s: %s #%d" % (fn.split("::")[-1], name, [r_ for r_ in rows if r_[0] == name].index((name, ln, ok, dropped)) + 1),
                       "the value scanned by scan::%s (line %s) does not reach a Parsed setter on %d of %d successful paths" % (name, ln, dropped, ok + dropped), loc=P.loc(fn, ln))


def r_own_ranges(chk, P, tier):
    """range decisions on scanned values are made by the Parsed setters (checked in C14) and by the one bound the RFC gives; a reader that rejects a
    scanned value on its own narrows the accepted language (and breaks the round trip for values the writer can produce)"""
    from fmt_tables import own_value_rejections
    chk.rule("ERR.own_ranges", "the readers reject a scanned VALUE on their own only where listed (strict RFC 3339: offset beyond 23:59 -> OUT_OF_RANGE); every other range decision is a Parsed setter's", floor=1)
    allowed = {}
    for fn in ('format::parse::parse_rfc2822',):
        got = own_value_rejections(P, fn)
        extra = got - allowed.get(fn, set())
        missing = allowed.get(fn, set()) - got
        chk.expect(not extra and not missing, fn.split("::")[-1], "%s rejects scanned values on its own: %s (allowed: %s)%s" % (fn, sorted(extra), sorted(allowed.get(fn, set())),
                   "; expected rejection missing: %s" % sorted(missing) if missing else ""), loc=P.loc(fn))


def r_comments(chk, P, tier):
    """trailing comments / folding white space are tried unconditionally: every accepting path of parse_rfc2822 has called scan::comment_2822 (which does its
    own white-space skipping) at least once after the zone"""
    chk.rule("DOM.comments", "every Ok path of parse_rfc2822 passes through scan::comment_2822 (no precondition on what follows the zone)", floor=1)
    fn = "format::parse::parse_rfc2822"
    oks = [p_ for p_ in Sym(P, fn).paths(max_paths=6000) if p_.end[0] in ("return", "loop") and (p_.end[0] == "loop" or result_variant(p_.ret)[0] == "Ok")]
    if not oks:
        raise AnchorLost("parse_rfc2822: no accepting path")
    bad = [p_ for p_ in oks if not any(isinstance(c[1], str) and c[1].endswith("scan::comment_2822") for c in p_.calls)]
    chk.expect(not bad, "comment scan", "parse_rfc2822 accepts on %d of %d paths without trying scan::comment_2822 (a comment after other white space would be rejected as trailing text)" % (len(bad), len(oks)), loc=P.loc(fn))


def r_colon_ws(chk, P, tier):
    """RFC 2822 (4.3, obs-hour / obs-minute / obs-second) allows folding white space on either side of the time-of-day colons; the reader implements
    `*S ":"` by probing for the colon on the white-space-trimmed rest. Both colon probes (hour:minute and the optional :second) must do so."""
    chk.rule("SIB.colon_ws", "every scan::char(.., ':') probe of parse_rfc2822 is applied to a trim_start()ed rest (white space before either time colon is skipped)", floor=2)
    fn = "format::parse::parse_rfc2822"
    sites = {}
    for p_ in Sym(P, fn).paths(max_paths=20000):
        for c in p_.calls:
            if isinstance(c[1], str) and c[1].endswith("scan::char") and const_of(c[2][1]) == 58:
                a = c[2][0]
                while a[0] in ("ref", "deref"):
                    a = a[1]
                sites.setdefault(c[3:], set()).add(is_call(a, suffix="::trim_start"))
    if len(sites) < 2:
        raise AnchorLost("parse_rfc2822: %d colon probes found, expected the hour:minute and the optional :second probe" % len(sites))
    for i, (site, vs) in enumerate(sorted(sites.items(), key=lambda kv: str(kv[0]))):
        chk.expect(vs == {True}, "colon probe #%d" % (i + 1), "parse_rfc2822 probes for a time colon without skipping the white space before it (colon probe #%d in source order)" % (i + 1), loc=P.loc(fn))


def r_item_arms(chk, P, tier):
    """the RFC 2822 / RFC 3339 items of a format string render the very value being formatted: in DelayedFormat::format_fixed both writers receive
    NaiveDateTime::new(date, time) of the pattern-bound date and time, unmodified (no call on either part: a leap second or a fraction must reach the writer), and the bound offset"""
    chk.rule("COPY.item_arms", "format_fixed hands write_rfc2822 / write_rfc3339 NaiveDateTime::new of the bound date and time unmodified, and the bound offset", floor=2)
    fn = "format::formatting::DelayedFormat::<I>::format_fixed"
    seen = {}
    for p_ in Sym(P, fn).paths(max_paths=20000):
        for c in p_.calls:
            if isinstance(c[1], str) and (c[1].endswith("formatting::write_rfc2822") or c[1].endswith("formatting::write_rfc3339")):
                dt = c[2][1]
                ok = is_call(dt, suffix="NaiveDateTime::new") and len(dt[2]) == 2
                if ok:
                    for part, idx in zip(dt[2], (0, 1)):
                        calls = [x for x in walk_terms(part) if x[0] == "call"]
                        flds = [x for x in walk_terms(part) if x[0] == "field" and x[1] in (("deref", ("arg", 1)), ("arg", 1))]
                        ok = ok and not calls and len(flds) == 1 and flds[0][2] == idx
                seen.setdefault(c[1].split("::")[-1], set()).add((ok, pp(dt)[:160]))
    for w in ("write_rfc2822", "write_rfc3339"):
        if w not in seen:
            raise AnchorLost("format_fixed: no call of " + w)
        chk.expect(all(o for o, _ in seen[w]), w, "format_fixed passes %s to %s (expected NaiveDateTime::new(self.date?, self.time?) with both parts unmodified)" % (sorted(t for _, t in seen[w]), w), loc=P.loc(fn))


def r_mandatory_space(chk, P, tier):
    """RFC 2822 has exactly four places where white space is mandatory (day FWS month FWS year FWS time FWS zone); everywhere else it is optional (trim_start). Every accepting path
    of parse_rfc2822 calls scan::space exactly four times: a fifth call makes an optional space mandatory (`Tue,20 Jan ..` is valid), a missing one accepts run-together fields"""
    chk.rule("COUNT.mandatory_space", "every accepting path of parse_rfc2822 passes scan::space exactly 4 times", floor=1)
    fn = "format::parse::parse_rfc2822"
    oks = [p_ for p_ in Sym(P, fn).paths(max_paths=20000) if p_.end[0] in ("return", "loop") and (p_.end[0] == "loop" or result_variant(p_.ret)[0] == "Ok")]
    if not oks:
        raise AnchorLost("parse_rfc2822: no accepting path")
    counts = sorted({sum(1 for c in p_.calls if isinstance(c[1], str) and c[1].endswith("scan::space")) for p_ in oks})
    chk.expect(counts == [4], "scan::space count", "accepting paths of parse_rfc2822 call scan::space %s times (expected exactly 4: after day, month, year and time)" % counts, loc=P.loc(fn))
