"""C19 — Weekday, Month and WeekdaySet algebra (finite maps, name tables, lossy-cast rule)."""
from core import Prog, AnchorLost
from sym import Sym, pp, walk_terms, const_of
from finmap import Folder, show, Unknown
from rules import extract_switch_map, result_variant, fields_private, aggregate_sites

WD = "weekday::Weekday"
MO = "month::Month"
WS = "weekday_set::WeekdaySet"
WDN = ["Mon", "Tue", "Wed", "Thu", "Fri", "Sat", "Sun"]
MON = ["January", "February", "March", "April", "May", "June", "July", "August", "September", "October", "November", "December"]


def enum_val(P, adt, i):
    return ("agg", "adt", adt, P.adts[adt]["variants"][i]["name"], (), i)


def ws_val(bits):
    return ("agg", "adt", WS, "WeekdaySet", (("const", bits),), 0)


def ref(v):
    return ("ref", v)


def run(chk, tier):
    P = Prog("default")
    chk.configs.add("default")
    fo = Folder(P)
    for r in (r_enums, r_weekday, r_month, r_conversions, r_names, r_set, r_iter, r_whole_input, r_from_iter):
        chk.guarded(r, P, fo)
    from props import c13
    chk.guarded(c13.r_long_names, P, tier)      # Month / Weekday FromStr read their long names through these two scanners
    chk.assume("finite maps are obtained by folding the def-use terms of the function bodies over the finite argument domain; "
               "std integer helpers (trailing_zeros, leading_zeros, count_ones) are modelled")
    return {
        "explanation": "C19 over finite domains: every Weekday/Month function is extracted from MIR as a finite map (7, 12, 7x7 entries) and checked for the "
                       "cyclic-group laws, inverse numbering and agreement between TryFrom/FromPrimitive; every WeekdaySet operation is extracted as a "
                       "finite map over all 128 sets (x 128 sets, x 7 days) and compared with mathematical set algebra, including first/last/len/split_at "
                       "and one step of the iterator from either end; numeric conversions are checked for narrowing casts of the argument; name tables "
                       "of the writers are compared with the scanners' tables.",
        "trusted_base": ["def-use term reconstruction and constant folding (analysis/sym.py, analysis/finmap.py)", "MIR from rustc nightly"],
    }


def r_enums(chk, P, fo):
    chk.rule("ENUM.discr", "Weekday is Mon=0..Sun=6 and Month is January=0..December=11 in declaration order", floor=2)
    w = [(v["name"], v["discr"]) for v in P.adts[WD]["variants"]]
    chk.expect(w == list(zip(WDN, range(7))), "Weekday", "Weekday variants/discriminants are %s" % w)
    m = [(v["name"], v["discr"]) for v in P.adts[MO]["variants"]]
    chk.expect(m == list(zip(MON, range(12))), "Month", "Month variants/discriminants are %s" % m)


def idx(P, adt, shown):
    """variant index from show() output 'Weekday::Tue'"""
    name = shown.split("::")[-1] if isinstance(shown, str) else None
    for i, v in enumerate(P.adts[adt]["variants"]):
        if v["name"] == name:
            return i
    return None


def fmap1(P, fo, fn, adt, n, by_ref=True):
    out = []
    for i in range(n):
        v = enum_val(P, adt, i)
        try:
            out.append(show(fo.call(fn, [ref(v) if by_ref else v])))
        except Unknown as e:
            out.append("unknown: %s" % e)
    return out


def r_weekday(chk, P, fo):
    chk.rule("MAP.weekday", "Weekday succ/pred are inverse 7-cycles; numbering functions and days_since agree with (a - b) mod 7", floor=7 * 6 + 49)
    succ = [idx(P, WD, x) for x in fmap1(P, fo, WD + "::succ", WD, 7)]
    pred = [idx(P, WD, x) for x in fmap1(P, fo, WD + "::pred", WD, 7)]
    for i in range(7):
        chk.expect(succ[i] == (i + 1) % 7, "succ(%s)" % WDN[i], "Weekday::succ(%s) = %s" % (WDN[i], succ[i]), loc=P.loc(WD + "::succ"))
        chk.expect(pred[i] == (i - 1) % 7, "pred(%s)" % WDN[i], "Weekday::pred(%s) = %s" % (WDN[i], pred[i]), loc=P.loc(WD + "::pred"))
    for fn, f in (("number_from_monday", lambda i: i + 1), ("num_days_from_monday", lambda i: i),
                  ("number_from_sunday", lambda i: (i + 1) % 7 + 1), ("num_days_from_sunday", lambda i: (i + 1) % 7)):
        got = fmap1(P, fo, WD + "::" + fn, WD, 7)
        for i in range(7):
            chk.expect(got[i] == f(i), "%s(%s)" % (fn, WDN[i]), "Weekday::%s(%s) = %s, expected %s" % (fn, WDN[i], got[i], f(i)), loc=P.loc(WD + "::" + fn))
    for i in range(7):
        for j in range(7):
            try:
                got = show(fo.call(WD + "::days_since", [ref(enum_val(P, WD, i)), enum_val(P, WD, j)]))
            except Unknown as e:
                got = "unknown: %s" % e
            chk.expect(got == (i - j) % 7, "days_since(%s,%s)" % (WDN[i], WDN[j]), "days_since(%s, %s) = %s, expected %d" % (WDN[i], WDN[j], got, (i - j) % 7),
                       loc=P.loc(WD + "::days_since"))


def r_month(chk, P, fo):
    chk.rule("MAP.month", "Month succ/pred are inverse 12-cycles; number_from_month = index + 1; name() is the English name", floor=48)
    succ = [idx(P, MO, x) for x in fmap1(P, fo, MO + "::succ", MO, 12)]
    pred = [idx(P, MO, x) for x in fmap1(P, fo, MO + "::pred", MO, 12)]
    num = fmap1(P, fo, MO + "::number_from_month", MO, 12)
    name = fmap1(P, fo, MO + "::name", MO, 12)
    for i in range(12):
        chk.expect(succ[i] == (i + 1) % 12, "succ(%s)" % MON[i], "Month::succ(%s) = %s" % (MON[i], succ[i]), loc=P.loc(MO + "::succ"))
        chk.expect(pred[i] == (i - 1) % 12, "pred(%s)" % MON[i], "Month::pred(%s) = %s" % (MON[i], pred[i]), loc=P.loc(MO + "::pred"))
        chk.expect(num[i] == i + 1, "number_from_month(%s)" % MON[i], "number_from_month(%s) = %s" % (MON[i], num[i]), loc=P.loc(MO + "::number_from_month"))
        chk.expect(name[i] == MON[i], "name(%s)" % MON[i], "Month::name(%s) = %r" % (MON[i], name[i]), loc=P.loc(MO + "::name"))


def switch_table(P, fn):
    """{int: result} of a `match n {..}` function, the discriminant term, and the result of the default arm"""
    m, discr = extract_switch_map(Sym(P, fn))
    return m, discr


def narrowing_casts(P, fn):
    """IntToInt casts applied (transitively) to argument 1 in a function's conditions/results that can lose information"""
    from finmap import INT_RANGE
    f = P.fn(fn)
    src = P.ty_s(f["mir"]["locals"][1])
    bad = []
    for p in Sym(P, fn).paths():
        terms = [c[1] for c in p.conds] + ([p.ret] if p.ret else []) + list(p.calls)
        for t in terms:
            for x in walk_terms(t):
                if x[0] == "cast" and x[3].startswith("IntToInt") and x[1] == ("arg", 1):
                    dst = x[2]
                    if src in INT_RANGE and dst in INT_RANGE:
                        (sl, sh), (dl, dh) = INT_RANGE[src], INT_RANGE[dst]
                        if dl > sl or dh < sh:
                            bad.append("%s as %s" % (src, dst))
    return sorted(set(bad))


def r_conversions(chk, P, fo):
    chk.rule("MAP.from_int", "TryFrom<u8>/FromPrimitive tables of Weekday and Month invert the numbering and reject everything else", floor=5)
    for adt, names, base, fns in (
        (WD, WDN, 0, ["<weekday::Weekday as std::convert::TryFrom<u8>>::try_from", "<weekday::Weekday as num_traits::FromPrimitive>::from_i64",
                      "<weekday::Weekday as num_traits::FromPrimitive>::from_u64"]),
        (MO, MON, 1, ["<month::Month as std::convert::TryFrom<u8>>::try_from", "<month::Month as num_traits::FromPrimitive>::from_u32"]),
    ):
        for fn in fns:
            m, discr = switch_table(P, fn)
            want = {}
            for i, n in enumerate(names):
                want[i + base] = n
            ok = discr == ("arg", 1)
            for k, n in want.items():
                r = m.get(k)
                ok = ok and r is not None and r[1] in ("Some", "Ok") and r[2] == (adt, n)
            ok = ok and set(k for k in m if k != "else") == set(want)
            d = m.get("else")
            ok = ok and d is not None and d[1] in ("None", "Err")
            if not ok:
                # shape-independent fallback: fold the function over a window around the table and the integer extremes (the wide conversions are
                # separately required to reach the table without a narrowing cast: CAST.from_int / MAP.wide_int)
                signed = fn.endswith("from_i64")
                pts = list(range(-3 if signed else 0, 16)) + [255] + ([256, 65535, 65536, (1 << 32) - 1, 1 << 32, (1 << 32) + 1, (1 << 63) - 1] if not fn.endswith("<u8>>::try_from") else [])
                if signed:
                    pts += [-(1 << 63), -(1 << 32) - 1, -256]
                if fn.endswith("from_u32"):
                    pts = [x for x in pts if 0 <= x < (1 << 32)]
                if fn.endswith("from_u64"):
                    pts += [(1 << 64) - 1]
                ok = True
                detail = None
                for v in pts:
                    try:
                        r = show(fo.call(fn, [("const", v)]))
                    except Unknown as e:
                        r = "unknown: %s" % e
                    exp_name = want.get(v)
                    good = (isinstance(r, tuple) and r[0] in ("Option::Some", "Result::Ok") and str(r[1]).endswith("::" + exp_name)) if exp_name else (r in ("Option::None",) or (isinstance(r, tuple) and r[0] == "Result::Err"))
                    if not good and detail is None:
                        ok, detail = False, (v, r, exp_name)
                m = {"fold": detail}
            chk.expect(ok, fn, "%s is not the inverse of the numbering (switch on %s): %s" % (fn, pp(discr), {k: v for k, v in list(m.items())[:14]}), loc=P.loc(fn))
    chk.rule("CAST.from_int", "no narrowing `as` cast of the argument before the table in any numeric conversion", floor=7)
    convs = [n for n in P.fns if ("num_traits::FromPrimitive" in n or "std::convert::TryFrom<u8>" in n) and ("weekday::Weekday" in n or "month::Month" in n) and "{" not in n]
    for fn in sorted(convs):
        bad = narrowing_casts(P, fn)
        chk.expect(not bad, fn, "%s narrows its argument before matching: %s (values differing by a multiple of 2^k would be accepted)" % (fn, bad), loc=P.loc(fn))
    # the wide conversions must funnel into the checked table through a fallible conversion
    chk.rule("MAP.wide_int", "Month::from_u64/from_i64 reach from_u32 only through a checked conversion", floor=2)
    for fn in ("<month::Month as num_traits::FromPrimitive>::from_u64", "<month::Month as num_traits::FromPrimitive>::from_i64"):
        ps = [p for p in Sym(P, fn).paths() if p.end[0] == "return"]
        ok = True
        saw = False
        for p in ps:
            for c in p.calls:
                if c[1] == "<month::Month as num_traits::FromPrimitive>::from_u32":
                    saw = True
                    inner = [x for x in walk_terms(c[2][0]) if x[0] == "call" and "TryFrom" in str(x[1]) and x[2] and x[2][0] == ("arg", 1)]
                    ok = ok and bool(inner)
        chk.expect(ok and saw, fn, "%s does not guard the conversion to u32 with try_from" % fn, loc=P.loc(fn))


def r_names(chk, P, fo):
    chk.rule("TBL.names", "writer name tables (Weekday Display, Month::name) agree with the scanners' tables", floor=4)
    # Weekday's Display
    fn = "<weekday::Weekday as std::fmt::Display>::fmt"
    m, discr = None, None
    s = Sym(P, fn)
    names = {}
    for p in s.paths():
        sw = [c for c in p.conds if c[0][0] == "switch" and c[1][0] == "discr"]
        if not sw or p.end[0] != "return":
            continue
        strs = [const_of(a) for c in p.calls for a in c[2] if isinstance(const_of(unref_(a)), str)] + \
               [const_of(unref_(a)) for c in p.calls for a in c[2] if isinstance(const_of(unref_(a)), str)]
        if strs and not isinstance(sw[0][2], tuple):
            names[sw[0][2]] = strs[-1]
        elif strs:
            names["else"] = strs[-1]
    got = [names.get(i, names.get("else")) for i in range(7)]
    chk.expect(got == WDN, "Weekday Display", "Weekday's Display writes %s" % got, loc=P.loc(fn))
    # scanners
    from scan_tables import short_weekday_table, short_month_table, long_suffixes
    sw = short_weekday_table(P)
    chk.expect(sw == {n.lower(): n for n in WDN}, "scan::short_weekday", "short_weekday recognises %s" % sw)
    sm = short_month_table(P)
    chk.expect(sm == {n[:3].lower(): i for i, n in enumerate(MON)}, "scan::short_month0", "short_month0 recognises %s" % sm)
    lw, lm = long_suffixes(P)
    full_w = ["Monday", "Tuesday", "Wednesday", "Thursday", "Friday", "Saturday", "Sunday"]
    chk.expect(lw == [n[3:].lower() for n in full_w], "LONG_WEEKDAY_SUFFIXES", "long weekday suffixes are %s" % lw)
    chk.expect(lm == [n[3:].lower() for n in MON], "LONG_MONTH_SUFFIXES", "long month suffixes are %s" % lm)


def unref_(t):
    while t[0] in ("ref", "deref"):
        t = t[1]
    return t


def bits_of(shown):
    if isinstance(shown, tuple) and shown and shown[0] == "WeekdaySet::WeekdaySet":
        return shown[1]
    return None


def r_set(chk, P, fo):
    S = WS + "::"
    chk.rule("MAP.set_binary", "union, intersection, difference, symmetric_difference, is_subset over all 128 x 128 sets equal set algebra", floor=5)
    ops = {
        "union": lambda a, b: a | b, "intersection": lambda a, b: a & b, "difference": lambda a, b: a & ~b & 0x7f,
        "symmetric_difference": lambda a, b: a ^ b,
    }
    for name, f in ops.items():
        bad = None
        n = 0
        for a in range(128):
            for b in range(128):
                n += 1
                try:
                    got = bits_of(show(fo.call(S + name, [ws_val(a), ws_val(b)])))
                except Unknown as e:
                    got = "unknown: %s" % e
                if got != f(a, b) and bad is None:
                    bad = (a, b, got, f(a, b))
        chk.expect(bad is None, name, "WeekdaySet::%s(%#x, %#x) = %s, set algebra says %#x" % ((name,) + bad if bad else (name, 0, 0, 0, 0)), loc=P.loc(S + name),
                   detail_ok="%d pairs" % n)
    bad = None
    for a in range(128):
        for b in range(128):
            try:
                got = show(fo.call(S + "is_subset", [ws_val(a), ws_val(b)]))
            except Unknown as e:
                got = "unknown: %s" % e
            if got != ((a & b) == a) and bad is None:
                bad = (a, b, got)
    chk.expect(bad is None, "is_subset", "WeekdaySet::is_subset%s" % (bad,), loc=P.loc(S + "is_subset"))

    chk.rule("MAP.set_unary", "single, contains, insert, remove, first, last, len, is_empty, split_at, single_day over all 128 sets (x 7 days)", floor=10)

    def days(a):
        return [i for i in range(7) if a >> i & 1]

    def run(fn, args):
        try:
            return show(fo.call(S + fn, args))
        except Unknown as e:
            return "unknown: %s" % e

    bad = {}

    def note(fn, *x):
        bad.setdefault(fn, x)

    for d in range(7):
        if bits_of(run("single", [enum_val(P, WD, d)])) != 1 << d:
            note("single", d, run("single", [enum_val(P, WD, d)]))
    for a in range(128):
        ds = days(a)
        r = run("first", [ws_val(a)])
        exp = ("Option::Some", "Weekday::" + WDN[ds[0]]) if ds else "Option::None"
        if r != exp:
            note("first", a, r, exp)
        r = run("last", [ws_val(a)])
        exp = ("Option::Some", "Weekday::" + WDN[ds[-1]]) if ds else "Option::None"
        if r != exp:
            note("last", a, r, exp)
        r = run("len", [ws_val(a)])
        if r != len(ds):
            note("len", a, r, len(ds))
        r = run("is_empty", [ws_val(a)])
        if r != (a == 0):
            note("is_empty", a, r)
        r = run("single_day", [ws_val(a)])
        exp = ("Option::Some", "Weekday::" + WDN[ds[0]]) if len(ds) == 1 else "Option::None"
        if r != exp:
            note("single_day", a, r, exp)
        for d in range(7):
            dv = enum_val(P, WD, d)
            r = run("contains", [ws_val(a), dv])
            if r != bool(a >> d & 1):
                note("contains", a, d, r)
            r = run("split_at", [ws_val(a), dv])
            lo, hi = a & ((1 << d) - 1), a & ~((1 << d) - 1) & 0x7f
            if not (isinstance(r, tuple) and len(r) == 2 and bits_of(r[0]) == lo and bits_of(r[1]) == hi):
                note("split_at", a, d, r, (lo, hi))
    # insert / remove mutate through &mut self: checked as (returned flag, new value) from the terms of the single assignment
    for fn, f in (("insert", lambda a, d: (a | 1 << d, not (a >> d & 1))), ("remove", lambda a, d: (a & ~(1 << d) & 0x7f, bool(a >> d & 1)))):
        res = mut_map(P, fo, S + fn)
        for a in range(128):
            for d in range(7):
                got = res(a, d)
                if got != f(a, d):
                    note(fn, a, d, got, f(a, d))
    for fn in ("single", "first", "last", "len", "is_empty", "single_day", "contains", "split_at", "insert", "remove"):
        chk.expect(fn not in bad, fn, "WeekdaySet::%s deviates from set semantics at %s" % (fn, bad.get(fn),), loc=P.loc(S + fn))

    chk.rule("INV.set", "WeekdaySet values never use the 8th bit: ALL = 0x7f, EMPTY = 0, the field is private, construction sites are the confirmed ones", floor=4)
    allv = P.value(S + "ALL")["fields"]["0"]
    emp = P.value(S + "EMPTY")["fields"]["0"]
    chk.expect(allv == 0x7f and emp == 0, "ALL/EMPTY", "ALL = %#x, EMPTY = %#x" % (allv, emp))
    chk.expect(fields_private(P, WS), "private", "WeekdaySet's field is public")
    sites = sorted({fn.split("::{")[0] for fn, _, _, _ in aggregate_sites(P, WS)})
    known = {S + x for x in ("single", "from_array", "intersection", "union", "symmetric_difference", "difference", "first", "last", "split_at", "EMPTY", "ALL",
                             "insert", "remove")} | {"<weekday_set::WeekdaySet as std::clone::Clone>::clone", "<weekday_set::WeekdaySet as std::iter::FromIterator<weekday::Weekday>>::from_iter",
                                                    "<weekday_set::WeekdaySet as std::default::Default>::default"}
    extra = [s for s in sites if s not in known]
    chk.expect(not extra, "construction sites", "new WeekdaySet construction sites outside the confirmed set: %s" % extra)
    # every binary op result stays within 0x7f is implied by the map rule above (results compared with 7-bit set algebra)
    chk.ok("results within 7 bits (implied by MAP.set_*)")


def mut_map(P, fo, fn):
    """(set bits, day) -> (new bits, returned bool) for `fn(&mut self, day) -> bool`, from the terms on each path"""
    s = Sym(P, fn)
    paths = [p for p in s.paths() if p.end[0] == "return"]

    def run(a, d):
        env = {("arg", 1): ("ref", ws_val(a)), ("arg", 2): enum_val(P, WD, d)}
        for p in paths:
            try:
                taken = True
                for c in p.conds:
                    if c[0][0] != "switch":
                        continue
                    v = fo.ev(c[1], env, None, 0)
                    val = int(v[1])
                    want = c[2]
                    if (isinstance(want, tuple) and val in want[1]) or (not isinstance(want, tuple) and val != want):
                        taken = False
                        break
                if not taken:
                    continue
                ret = show(fo.ev(p.ret, env, None, 0))
                new = p.env.get(1)
                if new is None or new == ("arg", 1):
                    nb = a
                else:
                    nv = fo.ev(new, env, None, 0)
                    nb = bits_of(show(nv))
                return nb, ret
            except Unknown as e:
                return "unknown: %s" % e
        return "no path"
    return run


def r_iter(chk, P, fo):
    chk.rule("MAP.set_iter", "one step of WeekdaySetIter from the front / back removes and yields the cyclically first / last member", floor=2)
    IT = "weekday_set::WeekdaySetIter"
    for fn, front in (("<weekday_set::WeekdaySetIter as std::iter::Iterator>::next", True),
                      ("<weekday_set::WeekdaySetIter as std::iter::DoubleEndedIterator>::next_back", False)):
        s = Sym(P, fn)
        paths = [p for p in s.paths() if p.end[0] == "return"]
        bad = None
        n = 0
        for a in range(128):
            for st in range(7):
                n += 1
                order = [(st + k) % 7 for k in range(7)]
                members = [d for d in order if a >> d & 1]
                if not front:
                    members = list(reversed(members))
                exp_item = members[0] if members else None
                exp_rest = a & ~(1 << exp_item) if members else a
                itv = ("agg", "adt", IT, "WeekdaySetIter", (ws_val(a), enum_val(P, WD, st)), 0)
                # field order of the iterator struct
                fnames = [f["name"] for f in P.adts[IT]["variants"][0]["fields"]]
                if fnames == ["start", "days"] or fnames[0] == "start":
                    itv = ("agg", "adt", IT, "WeekdaySetIter", (enum_val(P, WD, st), ws_val(a)), 0)
                env = {("arg", 1): ("ref", itv)}
                got = step(fo, paths, env, a)
                exp = (("Option::Some", "Weekday::" + WDN[exp_item]) if members else "Option::None", exp_rest)
                if got != exp and bad is None:
                    bad = (a, st, got, exp)
        chk.expect(bad is None, fn, "%s deviates from cyclic iteration at (set, start, got, expected) = %s" % (fn, bad), loc=P.loc(fn), detail_ok="%d states" % n)


def step(fo, paths, env, a):
    """one iterator step: (yielded item, remaining set). The only state change allowed on a path is one call
    `WeekdaySet::remove(&mut self.days, <the yielded day>)` (whose own finite map is checked by MAP.set_unary)."""
    from rules import arg_field
    for p in paths:
        try:
            taken = True
            for c in p.conds:
                if c[0][0] != "switch":
                    continue
                v = fo.ev(c[1], env, None, 0)
                if v[0] != "const":
                    raise Unknown("non-constant condition")
                val = int(v[1])
                want = c[2]
                if (isinstance(want, tuple) and val in want[1]) or (not isinstance(want, tuple) and val != want):
                    taken = False
                    break
            if not taken:
                continue
            ret = show(fo.ev(p.ret, env, None, 0))
            if p.env.get(1) is not None and p.env.get(1) != ("arg", 1):
                return "iterator state written directly"
            muts = [c for c in p.calls if isinstance(c[1], str) and c[1].startswith("weekday_set::WeekdaySet::") and c[2] and c[2][0][0] == "ref"
                    and c[1].split("::")[-1] in ("remove", "insert")]
            rest = a
            for c in muts:
                if c[1] != "weekday_set::WeekdaySet::remove" or arg_field(c[2][0]) is None or arg_field(c[2][0])[0] != 1:
                    return "unexpected mutation %s" % c[1]
                d = show(fo.ev(c[2][1], env, None, 0))
                if not (isinstance(ret, tuple) and ret[0] == "Option::Some" and ret[1] == d):
                    return "removes %s but yields %s" % (d, ret)
                rest = rest & ~(1 << WDN.index(d.split("::")[-1]))
            if isinstance(ret, tuple) and ret[0] == "Option::Some" and len(muts) != 1:
                return "yields a day without removing it exactly once"
            return ret, rest
        except Unknown as e:
            return "unknown: %s" % e
    return "no path"


def r_whole_input(chk, P, tier):
    """FromStr for Weekday / Month accept a name only when nothing is left over: every Ok path has tested the scanner's remainder for emptiness"""
    chk.rule("WHOLE.from_str", "Weekday::from_str and Month::from_str return Ok only on paths that found the scanner's remainder empty", floor=2)
    for ty, scanner in (("weekday::Weekday", "short_or_long_weekday"), ("month::Month", "short_or_long_month0")):
        fn = "format::<impl std::str::FromStr for %s>::from_str" % ty
        oks = [p for p in Sym(P, fn).paths() if p.end[0] == "return" and result_variant(p.ret)[0] == "Ok"]
        if not oks:
            raise AnchorLost(fn + ": no Ok path")
        bad = 0
        for p in oks:
            tested = False
            for c in p.conds:
                t = c[1]
                if not (isinstance(t, tuple) and t and t[0] == "call" and isinstance(t[1], str)):
                    continue
                name = t[1]
                rem = [a for a in walk_terms(t) if a[0] == "field" and a[2] == 0 and a[1][0] == "field" and a[1][2] == 0 and any(
                    x[0] == "call" and str(x[1]).endswith(scanner) for x in walk_terms(a))]
                if not rem:
                    continue
                truthy = c[2] != 0
                if name.endswith("PartialEq for str>::eq") and truthy and any(x[0] == "const" and x[1] == "" for x in walk_terms(t)):
                    tested = True
                if name.endswith("<impl str>::is_empty") and truthy:
                    tested = True
            if not tested:
                bad += 1
        chk.expect(bad == 0, ty.split("::")[-1], "%s returns Ok on %d of %d paths without having found the remainder of %s empty (trailing text accepted)" % (fn, bad, len(oks), scanner), loc=P.loc(fn))


def r_from_iter(chk, P, tier):
    chk.rule("ALL.from_iter", "WeekdaySet::from_iter folds the whole iterator: no truncating or filtering adapter between into_iter and the fold", floor=1)
    fn = "<weekday_set::WeekdaySet as std::iter::FromIterator<weekday::Weekday>>::from_iter"
    from rules import callees
    cs = callees(P, fn)
    drop = sorted(c for c in cs if c.split("::")[-1] in ("take", "skip", "step_by", "take_while", "skip_while", "filter", "filter_map", "nth", "last", "find", "position", "peekable", "map_while", "scan"))
    consume = [c for c in cs if c.split("::")[-1] in ("fold", "for_each", "next", "reduce")]
    chk.expect(not drop and consume, "from_iter", "WeekdaySet::from_iter %s" % ("passes the iterator through %s (elements can be lost)" % drop if drop else "does not consume the iterator (callees %s)" % sorted(cs)), loc=P.loc(fn))
