"""C02 — Unix timestamps <-> UTC date-times: epoch constant, Euclidean split, unit factors, no wrap."""
import calendar_oracle as cal
from core import Prog, AnchorLost
from sym import Sym, pp, walk_terms, const_of
from rules import is_call, find_calls, arg_field, result_variant, unref, callees
import e1
from props import c07

U = "datetime::DateTime::<offset::utc::Utc>::"
T = "datetime::DateTime::<Tz>::"


def rets(P, fn):
    return [p.ret for p in Sym(P, fn).paths() if p.end[0] == "return"]


def run(chk, tier):
    P = Prog("default")
    chk.configs.add("default")
    for r in (r_epoch, r_from_timestamp, r_units, r_accessors, r_wrappers, r_absint):
        chk.guarded(r, P, tier)
    chk.guarded(c07.r_boxes, P, tier)   # the nanosecond-field acceptance (leap second only on second 59) is the NaiveTime box
    chk.assume("exact equality of the two directions and SystemTime interop are value-level and not decided")
    return {
        "explanation": "C02 statically: UNIX_EPOCH_DAY equals the oracle's day number of 1970-01-01 and is the one constant both directions use; the signed input is split by "
                       "div_euclid/rem_euclid (floor, not truncation) with the same divisor D and scaled by M with D*M = 10^9 in every sub-second constructor; the day number "
                       "is range-checked against i32 before the cast; accessors multiply by the same unit factors through checked arithmetic where the result can exceed i64; "
                       "zone-generic wrappers delegate; nanosecond-field acceptance via the NaiveTime box; all arithmetic on these paths overflow-free (abstract interpretation).",
        "trusted_base": ["specs/tables/calendar_oracle.py", "analysis/sym.py", "analysis/abs*.py", "specs/justifications.txt"],
    }


def r_epoch(chk, P, tier):
    chk.rule("CONST.epoch", "UNIX_EPOCH_DAY is the day number of 1970-01-01 and is used by both directions", floor=3)
    v = P.value("datetime::UNIX_EPOCH_DAY")
    chk.expect(v == cal.day_number(1970, 1, 1), "value", "UNIX_EPOCH_DAY = %s, calendar says %d" % (v, cal.day_number(1970, 1, 1)))
    for fn, op in ((U + "from_timestamp", "Add"), (T + "timestamp", "Sub")):
        found = []
        for p in Sym(P, fn).paths():
            for t in [c[1] for c in p.conds] + ([p.ret] if p.ret else []):
                for x in walk_terms(t):
                    if x[0] == "bin" and x[1].replace("WithOverflow", "") in ("Add", "Sub") and any(y[0] == "named" and y[1].endswith("UNIX_EPOCH_DAY") for y in (x[2], x[3])):
                        found.append(x[1].replace("WithOverflow", ""))
        chk.expect(found and set(found) == {op}, fn, "%s must %s UNIX_EPOCH_DAY (found %s)" % (fn, op, sorted(set(found))), loc=P.loc(fn))


def r_from_timestamp(chk, P, tier):
    chk.rule("SPLIT.from_timestamp", "from_timestamp floors: day = div_euclid(86400) + epoch (i32 range-checked), second of day = rem_euclid(86400)", floor=4)
    fn = U + "from_timestamp"
    some = [p for p in Sym(P, fn).paths() if p.end[0] == "return" and result_variant(p.ret)[0] == "Some"]
    chk.expect(len(some) == 1, "one success path", "%d success paths" % len(some))
    p = some[0]
    calls = {c[1].split("::")[-1]: c for t in [p.ret] + [c[1] for c in p.conds] for c in find_calls(t)}
    de, re_ = calls.get("div_euclid"), calls.get("rem_euclid")
    ok = de is not None and re_ is not None and de[2][0] == ("arg", 1) and re_[2][0] == ("arg", 1) and const_of(de[2][1]) == 86400 and const_of(re_[2][1]) == 86400
    chk.expect(ok, "euclid", "seconds are not split by div_euclid/rem_euclid(86_400): %s" % sorted(calls), loc=P.loc(fn))
    # no truncating Div/Rem on the input
    trunc = [x for t in [p.ret] + [c[1] for c in p.conds] for x in walk_terms(t) if x[0] == "bin" and x[1] in ("Div", "Rem")]
    chk.expect(not trunc, "no truncation", "truncating division on the signed input: %s" % [pp(x) for x in trunc][:2], loc=P.loc(fn))
    # range guard against i32 on the day count dominates the cast
    guards = [c for c in p.conds if c[0][0] == "switch" and c[1][0] == "bin" and c[1][1] in ("Lt", "Gt", "Le", "Ge")
              and any(y[0] == "named" and y[1].endswith("UNIX_EPOCH_DAY") for y in walk_terms(c[1][2]))]
    bounds = sorted(const_of(c[1][3]) for c in guards if const_of(c[1][3]) is not None)
    # accepted idioms: explicit comparison with i32::MIN / i32::MAX, or a checked round trip `d as i32 as i64 != d => None`
    rt = False
    if bounds != [-(1 << 31), (1 << 31) - 1]:
        from absint import Engine
        import absfn
        F = absfn.Fn(Engine(P), fn, (), 0)
        checked, cmps = F.roundtrip()
        rt = bool(checked) and any(P.ty_s(t) == "i32" for x, t in cmps.values())
    chk.expect(bounds == [-(1 << 31), (1 << 31) - 1] or rt, "i32 guard", "the day number is neither compared with i32::MIN and i32::MAX nor round-trip checked before `as i32` (found %s)" % bounds, loc=P.loc(fn))
    nd = calls.get("from_num_days_from_ce_opt")
    nt = calls.get("from_num_seconds_from_midnight_opt")
    ok = nd is not None and nt is not None and nt[2][1] == ("arg", 2) and any(is_call(x, suffix="rem_euclid") for x in walk_terms(nt[2][0])) \
        and any(is_call(x, suffix="div_euclid") for x in walk_terms(nd[2][0]))
    chk.expect(ok, "constructors", "date/time are not built by from_num_days_from_ce_opt(days) / from_num_seconds_from_midnight_opt(secs, nsecs)", loc=P.loc(fn))


def r_units(chk, P, tier):
    chk.rule("SIB.units", "milli/micro/nano constructors split by div_euclid/rem_euclid(D) and scale the remainder by M with D*M = 10^9", floor=3)
    for fn, D, M in ((U + "from_timestamp_millis", 1000, 10**6), (U + "from_timestamp_micros", 10**6, 1000), (U + "from_timestamp_nanos", 10**9, 1)):
        r = rets(P, fn)
        calls = [c for t in r for c in find_calls(t)]
        ft = [c for c in calls if c[1] == U + "from_timestamp"]
        ok = len(ft) == 1
        if ok:
            a, b = ft[0][2]
            ok = is_call(a, suffix="div_euclid") and a[2][0] == ("arg", 1) and const_of(a[2][1]) == D
            rem = [c for c in find_calls(b) if c[1].endswith("rem_euclid")]
            ok = ok and len(rem) == 1 and rem[0][2][0] == ("arg", 1) and const_of(rem[0][2][1]) == D
            muls = [const_of(x[3]) for x in walk_terms(b) if x[0] == "bin" and x[1].startswith("Mul")]
            ok = ok and (muls == [M] if M != 1 else muls == [])
        chk.expect(ok and D * M == 10**9, fn, "%s: %s" % (fn, [pp(x)[:200] for x in r]), loc=P.loc(fn))


def r_accessors(chk, P, tier):
    chk.rule("SIB.accessors", "timestamp accessors use 86400 / 10^3 / 10^6 / 10^9 and the matching sub-second divisor; nanos is checked", floor=6)
    r = rets(P, T + "timestamp")
    ok = len(r) == 1
    if ok:
        muls = [const_of(x[3]) for x in walk_terms(r[0]) if x[0] == "bin" and x[1].startswith("Mul")]
        names = {c[1].split("::")[-1] for c in find_calls(r[0])}
        ok = muls == [86400] and {"num_days_from_ce", "num_seconds_from_midnight"} <= names
    chk.expect(ok, "timestamp", "timestamp() is not (days - epoch) * 86400 + second of day: %s" % [pp(x)[:200] for x in r], loc=P.loc(T + "timestamp"))
    for fn, F, sub in (("timestamp_millis", 1000, "timestamp_subsec_millis"), ("timestamp_micros", 10**6, "timestamp_subsec_micros")):
        r = rets(P, T + fn)
        ok = len(r) == 1
        if ok:
            muls = [const_of(x[3]) for x in walk_terms(r[0]) if x[0] == "bin" and x[1].startswith("Mul")]
            names = {c[1].split("::")[-1] for c in find_calls(r[0])}
            ok = muls == [F] and names == {"timestamp", sub}
        chk.expect(ok, fn, "%s: %s" % (fn, [pp(x)[:200] for x in r]), loc=P.loc(T + fn))
    for fn, d in (("timestamp_subsec_millis", 10**6), ("timestamp_subsec_micros", 1000)):
        r = rets(P, T + fn)
        ok = len(r) == 1 and r[0][0] == "bin" and r[0][1] == "Div" and const_of(r[0][3]) == d and is_call(r[0][2], name=T + "timestamp_subsec_nanos")
        chk.expect(ok, fn, "%s: %s" % (fn, [pp(x) for x in r]), loc=P.loc(T + fn))
    # timestamp_nanos_opt: the multiplication that can exceed i64 is a checked_mul by 10^9; the remaining steps are obligations of ABSINT
    fn = T + "timestamp_nanos_opt"
    cm = [c for p in Sym(P, fn).paths() if p.end[0] == "return" for t_ in [p.ret] + [c[1] for c in p.conds] for c in find_calls(t_) if c[1].endswith("::checked_mul")]
    ok = cm and all(const_of(c[2][1]) == 10**9 for c in cm)
    chk.expect(ok, "timestamp_nanos_opt", "the seconds are not scaled by checked_mul(1_000_000_000)", loc=P.loc(fn))


def r_wrappers(chk, P, tier):
    chk.rule("SIB.wrappers", "TimeZone::timestamp_* delegate to the matching DateTime::<Utc>::from_timestamp*", floor=4)
    for w, target in (("timestamp_opt", "from_timestamp"), ("timestamp_millis_opt", "from_timestamp_millis"), ("timestamp_micros", "from_timestamp_micros"), ("timestamp_nanos", "from_timestamp_nanos")):
        fn = "offset::TimeZone::" + w
        r = rets(P, fn)
        calls = {c[1] for t in r for c in find_calls(t)}
        others = {c for c in calls if c.startswith(U + "from_timestamp") and c != U + target}
        chk.expect(U + target in calls and not others, w, "%s does not delegate to %s only: %s" % (w, target, sorted(c.split("::")[-1] for c in calls)), loc=P.loc(fn))
    chk.rule("DOM.wrappers", "no wrapper decides on its own: every return of TimeZone::timestamp_* lies behind the call of the DateTime::<Utc>::from_timestamp* it wraps, and the instant reaches the zone through from_utc_datetime", floor=8)
    for w, target in (("timestamp_opt", "from_timestamp"), ("timestamp_millis_opt", "from_timestamp_millis"), ("timestamp_micros", "from_timestamp_micros"), ("timestamp_nanos", "from_timestamp_nanos")):
        fn = "offset::TimeZone::" + w
        paths = [p_ for p_ in Sym(P, fn).paths() if p_.end[0] == "return"]
        if not paths:
            raise AnchorLost(fn + " has no return path")
        bad = [p_ for p_ in paths if not any(c[1] == U + target for c in p_.calls)]
        chk.expect(not bad, w, "%s returns on %d of %d paths without having called %s (a rejection or result of its own)" % (w, len(bad), len(paths), target), loc=P.loc(fn))
        # the instant is UTC: it is handed to the zone as a UTC value (from_utc_datetime), never re-read as a wall-clock value
        cs = {c.split("::")[-1] for c in callees(P, fn) if c.startswith("offset::TimeZone::from_")}
        chk.expect(cs == {"from_utc_datetime"}, w + " utc", "%s converts the UTC instant through %s (expected from_utc_datetime only)" % (w, sorted(cs)), loc=P.loc(fn))


def r_absint(chk, P, tier):
    res = e1.run_engine(P, tier)
    names = ("from_timestamp", "timestamp", "from_num_days_from_ce_opt", "num_days_from_ce", "num_seconds_from_midnight", "from_num_seconds_from_midnight_opt")
    e1.report(chk, P, res, "ABSINT.timestamps", "arithmetic and casts on the timestamp paths are discharged or justified",
              fn_filter=lambda fn: any(fn.split("::{")[0].split("::")[-1].startswith(n) for n in names) and ("datetime::" in fn or "naive::" in fn or "offset::" in fn), floor=12)
