"""C02 — Unix timestamps <-> UTC date-times: epoch constant, Euclidean split, unit factors, no wrap."""
import calendar_oracle as cal
from core import Prog, AnchorLost
from sym import Sym, pp, walk_terms, const_of
from rules import is_call, find_calls, arg_field, result_variant, unref, callees
import e1
from props import c07

U = "datetime::DateTime::<offset::utc::Utc>::"
T = "datetime::DateTime::<Tz>::"


def rets(P, fn):
    return [p.ret for p in Sym(P, fn).paths() if p.end[0] == "return"]


def run(chk, tier):
    P = Prog("default")
    chk.configs.add("default")
    for r in (r_epoch, r_from_timestamp, r_units, r_accessors, r_wrappers, r_opt_wrappers, r_timestamp_map, r_absint):
        chk.guarded(r, P, tier)
    chk.guarded(c07.r_boxes, P, tier)   # the nanosecond-field acceptance (leap second only on second 59) is the NaiveTime box
    chk.assume("exact equality of the two directions and SystemTime interop are value-level and not decided")
    return {
        "explanation": "C02 statically: UNIX_EPOCH_DAY equals the oracle's day number of 1970-01-01 and is the one constant both directions use; the signed input is split by "
                       "div_euclid/rem_euclid (floor, not truncation) with the same divisor D and scaled by M with D*M = 10^9 in every sub-second constructor; the day number "
                       "is range-checked against i32 before the cast; accessors multiply by the same unit factors through checked arithmetic where the result can exceed i64; "
                       "zone-generic wrappers delegate; nanosecond-field acceptance via the NaiveTime box; all arithmetic on these paths overflow-free (abstract interpretation).",
        "trusted_base": ["specs/tables/calendar_oracle.py", "analysis/sym.py", "analysis/abs*.py", "specs/justifications.txt"],
    }


def r_epoch(chk, P, tier):
    chk.rule("CONST.epoch", "UNIX_EPOCH_DAY is the day number of 1970-01-01 and is used by both directions", floor=3)
    v = P.value("datetime::UNIX_EPOCH_DAY")
    chk.expect(v == cal.day_number(1970, 1, 1), "value", "UNIX_EPOCH_DAY = %s, calendar says %d" % (v, cal.day_number(1970, 1, 1)))
    for fn, op in ((U + "from_timestamp", "Add"), (T + "timestamp", "Sub")):
        found = []
        for p in Sym(P, fn).paths():
            for t in [c[1] for c in p.conds] + ([p.ret] if p.ret else []):
                for x in walk_terms(t):
                    if x[0] == "bin" and x[1].replace("WithOverflow", "") in ("Add", "Sub") and any(y[0] == "named" and y[1].endswith("UNIX_EPOCH_DAY") for y in (x[2], x[3])):
                        found.append(x[1].replace("WithOverflow", ""))
        chk.expect(found and set(found) == {op}, fn, "%s must %s UNIX_EPOCH_DAY (found %s)" % (fn, op, sorted(set(found))), loc=P.loc(fn))


def r_from_timestamp(chk, P, tier):
    chk.rule("SPLIT.from_timestamp", "from_timestamp floors: day = div_euclid(86400) + epoch (i32 range-checked), second of day = rem_euclid(86400)", floor=4)
    fn = U + "from_timestamp"
    some = [p for p in Sym(P, fn).paths() if p.end[0] == "return" and result_variant(p.ret)[0] == "Some"]
    chk.expect(len(some) == 1, "one success path", "%d success paths" % len(some))
    p = some[0]
    calls = {c[1].split("::")[-1]: c for t in [p.ret] + [c[1] for c in p.conds] for c in find_calls(t)}
    de, re_ = calls.get("div_euclid"), calls.get("rem_euclid")
    ok = de is not None and re_ is not None and de[2][0] == ("arg", 1) and re_[2][0] == ("arg", 1) and const_of(de[2][1]) == 86400 and const_of(re_[2][1]) == 86400
    chk.expect(ok, "euclid", "seconds are not split by div_euclid/rem_euclid(86_400): %s" % sorted(calls), loc=P.loc(fn))
    # no truncating Div/Rem on the input
    trunc = [x for t in [p.ret] + [c[1] for c in p.conds] for x in walk_terms(t) if x[0] == "bin" and x[1] in ("Div", "Rem")]
    chk.expect(not trunc, "no truncation", "truncating division on the signed input: %s" % [pp(x) for x in trunc][:2], loc=P.loc(fn))
    # range guard against i32 on the day count dominates the cast
    guards = [c for c in p.conds if c[0][0] == "switch" and c[1][0] == "bin" and c[1][1] in ("Lt", "Gt", "Le", "Ge")
              and any(y[0] == "named" and y[1].endswith("UNIX_EPOCH_DAY") for y in walk_terms(c[1][2]))]
    bounds = sorted(const_of(c[1][3]) for c in guards if const_of(c[1][3]) is not None)
    # accepted idioms: explicit comparison with i32::MIN / i32::MAX, or a checked round trip `d as i32 as i64 != d => None`
    rt = False
    if bounds != [-(1 << 31), (1 << 31) - 1]:
        from absint import Engine
        import absfn
        F = absfn.Fn(Engine(P), fn, (), 0)
        checked, cmps = F.roundtrip()
        rt = bool(checked) and any(P.ty_s(t) == "i32" for x, t in cmps.values())
    chk.expect(bounds == [-(1 << 31), (1 << 31) - 1] or rt, "i32 guard", "the day number is neither compared with i32::MIN and i32::MAX nor round-trip checked before `as i32` (found %s)" % bounds, loc=P.loc(fn))
    nd = calls.get("from_num_days_from_ce_opt")
    nt = calls.get("from_num_seconds_from_midnight_opt")
    ok = nd is not None and nt is not None and nt[2][1] == ("arg", 2) and any(is_call(x, suffix="rem_euclid") for x in walk_terms(nt[2][0])) \
        and any(is_call(x, suffix="div_euclid") for x in walk_terms(nd[2][0]))
    chk.expect(ok, "constructors", "date/time are not built by from_num_days_from_ce_opt(days) / from_num_seconds_from_midnight_opt(secs, nsecs)", loc=P.loc(fn))


def r_units(chk, P, tier):
    chk.rule("SIB.units", "milli/micro/nano constructors split by div_euclid/rem_euclid(D) and scale the remainder by M with D*M = 10^9", floor=3)
    for fn, D, M in ((U + "from_timestamp_millis", 1000, 10**6), (U + "from_timestamp_micros", 10**6, 1000), (U + "from_timestamp_nanos", 10**9, 1)):
        r = rets(P, fn)
        calls = [c for t in r for c in find_calls(t)]
        ft = [c for c in calls if c[1] == U + "from_timestamp"]
        ok = len(ft) == 1
        if ok:
            a, b = ft[0][2]
            ok = is_call(a, suffix="div_euclid") and a[2][0] == ("arg", 1) and const_of(a[2][1]) == D
            rem = [c for c in find_calls(b) if c[1].endswith("rem_euclid")]
            ok = ok and len(rem) == 1 and rem[0][2][0] == ("arg", 1) and const_of(rem[0][2][1]) == D
            muls = [const_of(x[3]) for x in walk_terms(b) if x[0] == "bin" and x[1].startswith("Mul")]
            ok = ok and (muls == [M] if M != 1 else muls == [])
        chk.expect(ok and D * M == 10**9, fn, "%s: %s" % (fn, [pp(x)[:200] for x in r]), loc=P.loc(fn))


def r_accessors(chk, P, tier):
    chk.rule("SIB.accessors", "timestamp accessors use 86400 / 10^3 / 10^6 / 10^9 and the matching sub-second divisor; nanos is checked", floor=6)
    r = rets(P, T + "timestamp")
    ok = len(r) == 1
    if ok:
        muls = [const_of(x[3]) for x in walk_terms(r[0]) if x[0] == "bin" and x[1].startswith("Mul")]
        names = {c[1].split("::")[-1] for c in find_calls(r[0])}
        ok = muls == [86400] and {"num_days_from_ce", "num_seconds_from_midnight"} <= names
    chk.expect(ok, "timestamp", "timestamp() is not (days - epoch) * 86400 + second of day: %s" % [pp(x)[:200] for x in r], loc=P.loc(T + "timestamp"))
    for fn, F, sub in (("timestamp_millis", 1000, "timestamp_subsec_millis"), ("timestamp_micros", 10**6, "timestamp_subsec_micros")):
        r = rets(P, T + fn)
        ok = len(r) == 1
        if ok:
            muls = [const_of(x[3]) for x in walk_terms(r[0]) if x[0] == "bin" and x[1].startswith("Mul")]
            names = {c[1].split("::")[-1] for c in find_calls(r[0])}
            ok = muls == [F] and names == {"timestamp", sub}
        chk.expect(ok, fn, "%s: %s" % (fn, [pp(x)[:200] for x in r]), loc=P.loc(T + fn))
    for fn, d in (("timestamp_subsec_millis", 10**6), ("timestamp_subsec_micros", 1000)):
        r = rets(P, T + fn)
        ok = len(r) == 1 and r[0][0] == "bin" and r[0][1] == "Div" and const_of(r[0][3]) == d and is_call(r[0][2], name=T + "timestamp_subsec_nanos")
        chk.expect(ok, fn, "%s: %s" % (fn, [pp(x) for x in r]), loc=P.loc(T + fn))
    # timestamp_nanos_opt: the multiplication that can exceed i64 is a checked_mul by 10^9; the remaining steps are obligations of ABSINT
    fn = T + "timestamp_nanos_opt"
    cm = [c for p in Sym(P, fn).paths() if p.end[0] == "return" for t_ in [p.ret] + [c[1] for c in p.conds] for c in find_calls(t_) if c[1].endswith("::checked_mul")]
    ok = cm and all(const_of(c[2][1]) == 10**9 for c in cm)
    chk.expect(ok, "timestamp_nanos_opt", "the seconds are not scaled by checked_mul(1_000_000_000)", loc=P.loc(fn))


def r_wrappers(chk, P, tier):
    chk.rule("SIB.wrappers", "TimeZone::timestamp_* delegate to the matching DateTime::<Utc>::from_timestamp*", floor=4)
    for w, target in (("timestamp_opt", "from_timestamp"), ("timestamp_millis_opt", "from_timestamp_millis"), ("timestamp_micros", "from_timestamp_micros"), ("timestamp_nanos", "from_timestamp_nanos")):
        fn = "offset::TimeZone::" + w
        r = rets(P, fn)
        calls = {c[1] for t in r for c in find_calls(t)}
        others = {c for c in calls if c.startswith(U + "from_timestamp") and c != U + target}
        chk.expect(U + target in calls and not others, w, "%s does not delegate to %s only: %s" % (w, target, sorted(c.split("::")[-1] for c in calls)), loc=P.loc(fn))
    chk.rule("DOM.wrappers", "no wrapper decides on its own (one call of the wrapped constructor, on the wrapper's own parameters): every return of TimeZone::timestamp_* lies behind the call of the DateTime::<Utc>::from_timestamp* it wraps, and the instant reaches the zone through from_utc_datetime", floor=12)
    for w, target in (("timestamp_opt", "from_timestamp"), ("timestamp_millis_opt", "from_timestamp_millis"), ("timestamp_micros", "from_timestamp_micros"), ("timestamp_nanos", "from_timestamp_nanos")):
        fn = "offset::TimeZone::" + w
        paths = [p_ for p_ in Sym(P, fn).paths() if p_.end[0] == "return"]
        if not paths:
            raise AnchorLost(fn + " has no return path")
        bad = [p_ for p_ in paths if not any(c[1] == U + target for c in p_.calls)]
        chk.expect(not bad, w, "%s returns on %d of %d paths without having called %s (a rejection or result of its own)" % (w, len(bad), len(paths), target), loc=P.loc(fn))
        # one decision: the wrapped constructor is called at one site, with the wrapper's own parameters unmodified (no retry with adjusted arguments)
        sites = [t for _i, t, cs_ in P.calls(fn) if U + target in cs_]
        argsets = {c[2] for p_ in paths for x in [p_.ret] + [c_[1] for c_ in p_.conds] if x is not None for c in find_calls(x, lambda c: c[1] == U + target)}
        own = all(tuple(unref(a) for a in args) == tuple(("arg", i + 2) for i in range(len(args))) for args in argsets)
        chk.expect(len(sites) == 1 and argsets and own, w + " one call", "%s calls %s at %d sites with arguments %s (expected one call on its own parameters)" % (
            w, target, len(sites), sorted(str([pp(a)[:30] for a in args]) for args in argsets)[:3]), loc=P.loc(fn))
        # the instant is UTC: it is handed to the zone as a UTC value (from_utc_datetime), never re-read as a wall-clock value
        cs = {c.split("::")[-1] for c in callees(P, fn) if c.startswith("offset::TimeZone::from_")}
        chk.expect(cs == {"from_utc_datetime"}, w + " utc", "%s converts the UTC instant through %s (expected from_utc_datetime only)" % (w, sorted(cs)), loc=P.loc(fn))


def r_absint(chk, P, tier):
    res = e1.run_engine(P, tier)
    names = ("from_timestamp", "timestamp", "from_num_days_from_ce_opt", "num_days_from_ce", "num_seconds_from_midnight", "from_num_seconds_from_midnight_opt")
    e1.report(chk, P, res, "ABSINT.timestamps", "arithmetic and casts on the timestamp paths are discharged or justified",
              fn_filter=lambda fn: any(fn.split("::{")[0].split("::")[-1].startswith(n) for n in names) and ("datetime::" in fn or "naive::" in fn or "offset::" in fn), floor=12)


def r_timestamp_map(chk, P, tier):
    """from_timestamp* and the timestamp accessors as a region-representative value map: their pieces are delimited by the day and second boundaries (Euclidean split),
    the unit factors, the leap-second box and the ends of the date range. Folded (no execution) for timestamps on both sides of every such boundary - around zero, one day
    and one minute either side of the epoch, both ends of the representable range, the i64 ends - with sub-second parts 0, 1, 10^9-1, 10^9, 2*10^9-1, 2*10^9, against
    the calendar oracle; every accepted value is read back through all accessors."""
    from finmap import Folder, show, Unknown
    from rules import table_value
    from props.c01 import flags_of
    chk.rule("MAP.timestamps", "from_timestamp / _millis / _micros / _nanos and timestamp / _millis / _micros / _nanos_opt / _subsec_* folded on all region boundaries agree with the calendar oracle in both directions", floor=1100)
    fo = Folder(P, max_depth=14)
    tbl = [flags_of(c) for c in table_value(P, "naive::internals::YEAR_TO_FLAGS")]
    miny, maxy = P.value("naive::date::MIN_YEAR"), P.value("naive::date::MAX_YEAR")
    NS = 10**9
    epoch = cal.day_number(1970, 1, 1)
    dn_min, dn_max = cal.day_number(miny, 1, 1), cal.day_number(maxy, 12, 31)
    ts_min, ts_max = (dn_min - epoch) * 86400, (dn_max - epoch) * 86400 + 86399
    I64 = (-(2**63), 2**63 - 1)

    def from_dn(n):
        y = n * 400 // 146097
        while cal.day_number(y, 1, 1) > n:
            y -= 1
        while cal.day_number(y + 1, 1, 1) <= n:
            y += 1
        return y, n - cal.day_number(y, 1, 1) + 1

    def want(secs, nsecs):
        dn = secs // 86400 + epoch
        sod = secs % 86400
        if not dn_min <= dn <= dn_max:
            return None
        if not (nsecs < NS or (nsecs < 2 * NS and sod % 60 == 59)):
            return None
        y, o = from_dn(dn)
        return ((y << 13) | (o << 4) | tbl[y % 400], sod, nsecs)

    def parts(v):
        """(yof, secs of day, frac) of a shown DateTime<Utc> / Option of it"""
        if v == "Option::None":
            return None
        if isinstance(v, tuple) and v[0] == "Option::Some":
            v = v[1]
        try:
            ndt = v[1]
            return (ndt[1][1], ndt[2][1], ndt[2][2])
        except Exception:
            return ("?", v)
    bad = {}
    n_ok = [0]

    def expect(cls, args, got, w):
        if got == w:
            n_ok[0] += 1
        else:
            bad.setdefault(cls, (args, got, w))

    def fold(fn, args):
        try:
            return fo.call(fn, args)
        except Unknown as e:
            return ("const", "unknown: %s" % e)
    secs_dom = sorted({ts_min - 86401, ts_min - 1, ts_min, ts_min + 1, ts_min + 59, -86401, -86400, -86399, -61, -60, -59, -2, -1, 0, 1, 58, 59, 60, 86399, 86400, 86401,
                       -(2**63) // NS - 1, -(2**63) // NS, -(2**63) // NS + 1, (2**63 - 1) // NS - 1, (2**63 - 1) // NS, (2**63 - 1) // NS + 1,
                       ts_max - 60, ts_max - 1, ts_max, ts_max + 1, ts_max + 86400, I64[0], I64[0] + 1, I64[1] - 1, I64[1]})
    nsec_dom = (0, 1, NS - 1, NS, NS + 1, 2 * NS - 1, 2 * NS, 2**32 - 1)
    for secs in secs_dom:
        for nsecs in nsec_dom:
            v = fold(U + "from_timestamp", [("const", secs), ("const", nsecs)])
            w = want(secs, nsecs)
            expect("from_timestamp (%s)" % ("accepted" if w else "refused"), (secs, nsecs), parts(show(v)), w)
            if w is None or not (v[0] == "agg" and v[3] == "Some"):
                continue
            dt = ("ref", v[4][0])
            total = secs * NS + nsecs
            for g, e in (("timestamp", secs), ("timestamp_subsec_nanos", nsecs), ("timestamp_subsec_micros", nsecs // 1000), ("timestamp_subsec_millis", nsecs // 10**6),
                         ("timestamp_millis", secs * 1000 + nsecs // 10**6), ("timestamp_micros", secs * 10**6 + nsecs // 1000),
                         ("timestamp_nanos_opt", ("Option::Some", total) if I64[0] <= total <= I64[1] else "Option::None")):
                expect(g, (secs, nsecs), show(fold(T + g, [dt])), e)
    for fn, unit in (("from_timestamp_millis", 1000), ("from_timestamp_micros", 10**6), ("from_timestamp_nanos", NS)):
        dom = set()
        for sec in (ts_min - 1, ts_min, ts_min + 1, -86400, -60, -1, 0, 1, 59, 86400, ts_max - 1, ts_max, ts_max + 1):
            for sub in (-1, 0, 1, unit - 1, unit, unit + 1):
                dom.add(sec * unit + sub)
        dom |= {I64[0], I64[0] + 1, I64[1] - 1, I64[1], -unit - 1, -unit + 1}
        for x in sorted(dom):
            if not I64[0] <= x <= I64[1]:
                continue
            w = want(x // unit, (x % unit) * (NS // unit))
            got = parts(show(fold(U + fn, [("const", x)])))
            expect("%s (%s)" % (fn, "accepted" if w else "refused"), x, got, w)
    # SystemTime interop: the std calls are kept symbolic. From<SystemTime>: duration_since(UNIX_EPOCH) is bound to Ok / Err and the (as_secs, subsec_nanos) of the resulting
    # Duration to each value; expected: the instant that many seconds and nanoseconds after / before the epoch.
    fs = '<datetime::DateTime<offset::utc::Utc> as std::convert::From<std::time::SystemTime>>::from'
    roles = {}
    for p_ in Sym(P, fs).paths():
        for t in [c[1] for c in p_.conds] + ([p_.ret] if p_.ret else []):
            for x in walk_terms(t):
                if x[0] == "call" and isinstance(x[1], str) and "std::time::" in x[1] and x[1].split("::")[-1] in ("as_secs", "subsec_nanos", "subsec_micros", "subsec_millis", "as_millis", "as_micros", "as_nanos", "duration_since"):
                    roles[pp(x)] = x[1].split("::")[-1]
    if not {"as_secs", "duration_since"} <= set(roles.values()) and not {"duration_since"} <= set(roles.values()):
        chk.assume("MAP.timestamps: From<SystemTime> no longer reads duration_since / as_secs / subsec_nanos: idiom not recognised, conversion undecided")
    else:
        for before in (False, True):
            for secs in (0, 1, 59, 60, 86399, 86400, 4102444800):
                for ns in (0, 1, 999, 1000, 500000000, 999999001, NS - 1):
                    if before and secs == 0 and ns == 0:
                        continue
                    bind = {}
                    for k, role in roles.items():
                        bind[k] = (("agg", "adt", "std::result::Result", "Err" if before else "Ok", (("opaque", "duration", ()),), 1 if before else 0) if role == "duration_since"
                                   else {"as_secs": secs, "subsec_nanos": ns, "subsec_micros": ns // 1000, "subsec_millis": ns // 10**6, "as_millis": secs * 1000 + ns // 10**6,
                                         "as_micros": secs * 10**6 + ns // 1000, "as_nanos": secs * NS + ns}[role])
                    total = (secs * NS + ns) * (-1 if before else 1)
                    try:
                        got = parts(show(fo.call(fs, [("arg", 1)], bind=bind)))
                    except Unknown as e:
                        got = "unknown: %s" % e
                    expect("From<SystemTime> (%s the epoch)" % ("before" if before else "after"), (secs, ns), got, want(total // NS, total % NS))
    # From<DateTime<Tz>> for SystemTime: UNIX_EPOCH +/- Duration::new(secs, nanos) with the operators and the Duration constructor symbolic
    fd = [n for n in P.fns if n.endswith("From<datetime::DateTime<Tz>> for std::time::SystemTime>::from") and P.has(n)]
    if fd:
        fo2 = Folder(P, max_depth=14, opaque=lambda n: n.endswith("Duration::new") or n in ("<std::time::SystemTime as std::ops::Add<std::time::Duration>>::add", "<std::time::SystemTime as std::ops::Sub<std::time::Duration>>::sub"))

        def st_value(v):
            """signed nanoseconds relative to UNIX_EPOCH of a folded chain of symbolic +/- Duration::new(s, n)"""
            if isinstance(v, tuple) and v[0] == "opaque" and v[1].endswith(("::add", "::sub")):
                base = st_value(v[2])
                d = v[3]
                if base is None or not (isinstance(d, tuple) and d[0] == "opaque" and d[1].endswith("Duration::new")):
                    return None
                n = d[2] * NS + d[3]
                return base + (n if v[1].endswith("::add") else -n)
            if isinstance(v, str) and "UNIX_EPOCH" in v:
                return 0
            if isinstance(v, tuple) and v and v[0] == ("adt", "std::time::SystemTime") and "('tv_sec', 0)" in repr(v) and "('0', 0)" in repr(v):
                return 0        # the constant UNIX_EPOCH as the compiler evaluated it
            return None
        for secs in (-86401, -86400, -61, -60, -1, 0, 1, 59, 86400, 4102444800, ts_min, ts_max):
            for ns in (0, 1, NS - 1, NS, NS + 1, 2 * NS - 1):
                w = want(secs, ns)
                if w is None:
                    continue
                dtv = fold(U + "from_timestamp", [("const", secs), ("const", ns)])
                try:
                    got = st_value(show(fo2.call(fd[0], [dtv[4][0]])))
                except Unknown as e:
                    got = "unknown: %s" % e
                expect("From<DateTime> for SystemTime", (secs, ns), got, secs * NS + ns)
    for _ in range(n_ok[0]):
        chk.ok("value")
    for cls, (a, got, w) in sorted(bad.items()):
        chk.bad(cls, "%s%s folds to %s, the calendar oracle gives %s (yof, second of day, nanosecond)" % (cls.split(" ")[0], a if isinstance(a, tuple) else "(%s)" % a, got, w), loc=P.loc(U + "from_timestamp"))


def r_opt_wrappers(chk, P, tier=None):
    import rules
    rules.opt_wrappers(chk, P, ("offset::TimeZone::", "datetime::DateTime::"), floor=6)
