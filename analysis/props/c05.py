"""C05 — local time follows the zone data (narrow claim: result ordering and contract glue)."""
from core import Prog, AnchorLost
from sym import Sym, pp, walk_terms, const_of
from rules import is_call, find_calls, arg_field, result_variant, callees, unref

TZ = "offset::local::tz_info::"
LR = "offset::LocalResult"


T = "offset::local::tz_info::"
RULE = "offset::local::tz_info::rule::"
CUMUL = [0, 31, 59, 90, 120, 151, 181, 212, 243, 273, 304, 334]
DIM = [31, 28, 31, 30, 31, 30, 31, 31, 30, 31, 30, 31]


def r_day_tables(chk, P, tier):
    """the month tables of the TZ-rule day arithmetic against the calendar (all 12 cells, both leap cases)"""
    from rules import table_value
    import calendar_oracle as cal
    chk.rule("TBL.rule_days", "month-length and cumulative-day tables of RuleDay::transition_date equal the calendar's (normal year; +1 from March on in a leap year)", floor=4)
    want_dim = [cal.days_in_month(2023, m) for m in range(1, 13)]
    want_cum = [sum(want_dim[:m]) for m in range(12)]
    want_cum_leap = [sum(cal.days_in_month(2024, k) for k in range(1, m + 1)) for m in range(12)]
    assert want_dim == DIM and want_cum == CUMUL
    for name, want in (("DAY_IN_MONTHS_NORMAL_YEAR", want_dim), ("CUMUL_DAY_IN_MONTHS_NORMAL_YEAR", want_cum)):
        got = table_value(P, "offset::local::tz_info::" + name)
        chk.expect(list(got) == want, name, "%s = %s, calendar says %s" % (name, list(got), want))
    # the array literal of the Julian0WithLeap arm: const or const + (is_leap_year(year) as i64)
    fn = RULE + "RuleDay::transition_date"
    arrays = {}
    for p_ in Sym(P, fn).paths():
        for v in p_.env.values():
            for t in walk_terms(v):
                if isinstance(t, tuple) and t and t[0] == "agg" and len(t) > 4 and isinstance(t[4], (list, tuple)) and len(t[4]) == 12 and t[1] == "array":
                    arrays[pp(t)] = t
    if not arrays:
        raise AnchorLost("no 12-element array literal in RuleDay::transition_date")
    for key, t in arrays.items():
        cells = []
        for e in t[4]:
            base, leap = None, False
            ts = list(walk_terms(e))
            consts = [const_of(x) for x in ts if x[0] in ("const", "named") and isinstance(const_of(x), int)]
            leap = any(is_call(x) and str(x[1]).endswith("is_leap_year") for x in ts)
            adds = [x for x in ts if x[0] == "bin" and x[1] in ("Add", "AddWithOverflow")]
            if len(consts) == 1 and (leap == bool(adds)) and len(adds) <= 1:
                base = consts[0]
            cells.append((base, leap))
        normal = [b for b, l in cells]
        leapy = [None if b is None else b + (1 if l else 0) for b, l in cells]
        chk.expect(normal == want_cum and leapy == want_cum_leap, "Julian0WithLeap cumulative array",
                   "cumulative-day array of the Julian0WithLeap arm is %s in a normal and %s in a leap year; calendar says %s / %s" % (normal, leapy, want_cum, want_cum_leap), loc=P.loc(fn))
    fn2 = RULE + "RuleDay::unix_time"
    chk.expect(P.has(fn2) and fn in callees(P, fn2), "unix_time uses transition_date", "RuleDay::unix_time no longer derives the date through transition_date (anchor lost)")


def r_dimension(chk, P, tier):
    """wall-clock seconds and UTC instants are different coordinates: the wall-clock lookup may compare its argument with a
    transition instant only after a UTC offset has been applied to that instant"""
    from rules import tag_locals, comparisons
    fn = T + "timezone::TimeZoneRef::<'a>::find_local_time_type_from_local"
    chk.rule("DIM.local_vs_utc", "in the wall-clock lookup no comparison relates the wall-clock argument to a bare transition instant (Transition.unix_leap_time without a ut_offset added)", floor=4)
    tr = T + "timezone::Transition"
    ltt = T + "timezone::LocalTimeType"
    fi_tr = [f["name"] for f in P.adts[tr]["variants"][0]["fields"]].index("unix_leap_time")
    fi_off = [f["name"] for f in P.adts[ltt]["variants"][0]["fields"]].index("ut_offset")

    def field_tag(tys, idx):
        base = tys.lstrip("&").replace("mut ", "")
        if base == tr and idx == fi_tr:
            return "utc-instant"
        if base == ltt and idx == fi_off:
            return "offset"
        return None
    tags, of = tag_locals(P, fn, field_tag, arg_tag=lambda i: "wall-clock" if i == 2 else None)
    n = 0
    for ln, a, b in comparisons(P, fn):
        ta, tb = of(a), of(b)
        for x, y in ((ta, tb), (tb, ta)):
            if "wall-clock" in x and "wall-clock" not in y and "utc-instant" in y:
                n += 1
                chk.expect("offset" in y, "comparison #%d" % n, "the wall-clock argument is compared with a transition instant to which no UTC offset was applied (line %s): "
                           "local and UTC seconds are different coordinates" % ln, loc="%s:%s" % (P.fn(fn).get("file"), ln))
    # positive control: the UTC lookup does compare its argument with bare instants (so the tags are live)
    fn2 = T + "timezone::TimeZoneRef::<'a>::find_local_time_type"
    tags2, of2 = tag_locals(P, fn2, field_tag, arg_tag=lambda i: "wall-clock" if i == 2 else None)
    ctl = any("utc-instant" in (of2(a) | of2(b)) for ln, a, b in comparisons(P, fn2))
    chk.expect(ctl, "control: utc-instant tag is live in find_local_time_type", "positive control failed: no comparison against Transition.unix_leap_time found in the UTC lookup")


def run(chk, tier):
    P = Prog("default")
    chk.configs.add("default")
    for r in (r_ord, r_projections, r_glue, r_passthrough, r_day_tables, r_dimension, r_at_transition, r_days_since_epoch, r_offset_sign_shared, r_rule_day_time, r_rule_map):
        chk.guarded(r, P, tier)
    chk.assume("which transition applies to an instant, gap/fold classification on the exact second, the hemisphere/sign branches and rule-day arithmetic are "
               "comparisons between runtime quantities and are NOT decided; only the ordering of the two fold candidates and the contract glue are")
    return {
        "explanation": "Narrow structural claim for C05: at every construction of MappedLocalTime::Ambiguous(a, b) in the TZif/TZ-rule lookups the path conditions entail "
                       "a.ut_offset >= b.ut_offset (the earlier instant of a repeated wall time is the one with the larger offset, and the contract is earliest first); "
                       "earliest()/latest()/single() project components 0/1/only-Single; Cache::offset dispatches on `local` to the instant resp. wall-clock lookup and "
                       "passes the pair through in order. The zone arithmetic itself is not decided.",
        "trusted_base": ["analysis/sym.py path conditions"],
    }


def off_of(t):
    """X if t is X.ut_offset (field 0 of a LocalTimeType term), modulo refs"""
    t = unref(t)
    if t[0] == "field" and t[2] == 0:
        return unref(t[1])
    return None


def facts_of(p):
    """set of (X, Y, rel) with rel in {'>', '>=', '<', '<=', '=='} from the path conditions on ut_offset"""
    out = set()
    for c in p.conds:
        if c[0][0] != "switch":
            continue
        d, v = c[1], c[2]
        if d[0] == "bin" and d[1] in ("Gt", "Ge", "Lt", "Le", "Eq", "Ne"):
            x, y = off_of(d[2]), off_of(d[3])
            if x is None or y is None:
                continue
            truth = (v != 0) if not isinstance(v, tuple) else (0 in v[1])
            op = d[1]
            rel = {("Gt", True): ">", ("Gt", False): "<=", ("Ge", True): ">=", ("Ge", False): "<", ("Lt", True): "<", ("Lt", False): ">=",
                   ("Le", True): "<=", ("Le", False): ">", ("Eq", True): "==", ("Ne", False): "=="}.get((op, truth))
            if rel:
                out.add((x, y, rel))
        elif d[0] == "discr" and is_call(d[1]) and isinstance(d[1][1], str) and d[1][1].endswith("::cmp") and len(d[1][2]) == 2:
            x, y = off_of(d[1][2][0]), off_of(d[1][2][1])
            if x is None or y is None or isinstance(v, tuple):
                continue
            out.add((x, y, {-1: "<", 0: "==", 1: ">"}[v]))
    return out


def entails_ge(facts, a, b):
    for x, y, rel in facts:
        if x == a and y == b and rel in (">", ">=", "=="):
            return True
        if x == b and y == a and rel in ("<", "<=", "=="):
            return True
    return a == b


def r_ord(chk, P, tier):
    chk.rule("ORD.ambiguous", "every Ambiguous(a, b) built by the zone lookups has a.ut_offset >= b.ut_offset (earliest instant first)", floor=8)
    total = 0
    for fn in (TZ + "timezone::TimeZoneRef::<'a>::find_local_time_type_from_local", TZ + "rule::AlternateTime::find_local_time_type_from_local"):
        sites = 0
        for p in Sym(P, fn).paths(max_paths=20000):
            if p.end[0] != "return" or p.ret is None:
                continue
            amb = [x for x in walk_terms(p.ret) if x[0] == "agg" and x[1] == "adt" and x[2] == LR and x[3] == "Ambiguous"]
            for a in amb:
                sites += 1
                x, y = unref(a[4][0]), unref(a[4][1])
                ok = entails_ge(facts_of(p), x, y)
                chk.expect(ok, "%s#%d" % (fn.split("::")[-3] + "::" + fn.split("::")[-1], sites),
                           "Ambiguous(%s, %s) is built on a path whose conditions do not entail first.ut_offset >= second.ut_offset (latest-first order?)" % (
                               pp(x)[:60], pp(y)[:60]), loc=P.loc(fn))
        chk.expect(sites >= 4, fn + " sites", "only %d Ambiguous construction paths found in %s" % (sites, fn))
        total += sites
    # no other function of the unix backend builds Ambiguous
    from rules import aggregate_sites
    others = sorted({f for f, _, _, st in aggregate_sites(P, LR) if st["rv"].get("variant") == "Ambiguous" and f.startswith("offset::local::") and "find_local_time_type_from_local" not in f
                     and "lookup_with_dst_transitions" not in f})
    # a helper extracted after the review is part of the lookups when it is called only from them (the order rule above sees through it)
    from rules import is_new_helper
    def only_from_lookups(f):
        callers = [n for n in P.fns if P.has(n) and n != f and any(f in cs for bi, t, cs in P.calls(n))]
        base = lambda n: n.split("::{")[0]
        return is_new_helper(P, f) and bool(callers) and all("find_local_time_type_from_local" in base(n) or "lookup_with_dst_transitions" in base(n) for n in callers)
    others = [f for f in others if not only_from_lookups(f)]
    chk.expect(not others, "no other builders", "other functions of the local backend build Ambiguous: %s" % others)


def r_projections(chk, P, tier):
    chk.rule("MATCH.local_result", "earliest() is component 0, latest() component 1, single() only Single", floor=3)
    for m, amb_idx in (("earliest", 0), ("latest", 1), ("single", None)):
        fn = "offset::LocalResult::<T>::" + m
        got = {}
        for p in Sym(P, fn).paths():
            if p.end[0] != "return":
                continue
            var, payload = result_variant(p.ret)
            if var == "Some":
                t = payload[0]
                if t[0] == "field" and t[1][0] == "as":
                    got[t[1][2]] = t[2]
        exp = {"Single": 0}
        if amb_idx is not None:
            exp["Ambiguous"] = amb_idx
        chk.expect(got == exp, m, "%s returns %s (variant -> component), expected %s" % (m, got, exp), loc=P.loc(fn))


def r_glue(chk, P, tier):
    chk.rule("DOM.dispatch", "Cache::offset answers instants with find_local_time_type and wall-clock times with find_local_time_type_from_local", floor=2)
    fn = "offset::local::inner::Cache::offset"
    A = TZ + "timezone::TimeZone::find_local_time_type"
    B = TZ + "timezone::TimeZone::find_local_time_type_from_local"
    f = P.fn(fn)
    cfg = P.cfg(fn)
    # blocks calling A / B and the switch on the `local` argument (arg 3)
    blocks = f["mir"]["blocks"]
    callA = [i for i, t, cs in P.calls(fn) if A in cs]
    callB = [i for i, t, cs in P.calls(fn) if B in cs]
    sw = [i for i in cfg.reach if blocks[i]["t"]["k"] == "switch" and _derives_from_arg(blocks, blocks[i]["t"]["discr"], 3)]
    ok = len(callA) == 1 and len(callB) == 1 and len(sw) >= 1
    if ok:
        s = sw[-1]
        t = blocks[s]["t"]
        # `if !local`: the branch taken when local == false must reach A and not B
        false_edge = [b for v, b in t["targets"] if v == 0]
        other = t["otherwise"]
        neg = _is_negated(blocks, t["discr"])
        e_false, e_true = (false_edge[0], other) if false_edge else (None, None)
        if neg and e_false is not None:
            e_false, e_true = e_true, e_false
        ok = e_false is not None and cfg.reaches_without(e_false, {callA[0]}, set()) and not cfg.reaches_without(e_false, {callB[0]}, set()) \
            and cfg.reaches_without(e_true, {callB[0]}, set()) and not cfg.reaches_without(e_true, {callA[0]}, set())
    chk.expect(ok, "dispatch", "Cache::offset does not dispatch `local == false` to find_local_time_type and `true` to find_local_time_type_from_local", loc=P.loc(fn))
    cs = callees(P, "offset::local::inner::offset_from_utc_datetime") | callees(P, "offset::local::inner::offset_from_local_datetime")
    r1 = [p.ret for p in Sym(P, "offset::local::inner::offset_from_utc_datetime").paths() if p.end[0] == "return"]
    r2 = [p.ret for p in Sym(P, "offset::local::inner::offset_from_local_datetime").paths() if p.end[0] == "return"]
    ok = len(r1) == 1 and len(r2) == 1 and const_of(r1[0][2][1]) is False and const_of(r2[0][2][1]) is True
    chk.expect(ok, "direction flags", "offset_from_utc_datetime / offset_from_local_datetime do not pass local = false / true: %s %s" % ([pp(x) for x in r1], [pp(x) for x in r2]))


def _derives_from_arg(blocks, op, arg, depth=0):
    if op["k"] not in ("copy", "move") or depth > 4:
        return False
    l = op["pl"]["l"]
    if l == arg:
        return True
    for b in blocks:
        for st in b["s"]:
            if st["k"] == "assign" and st["pl"]["l"] == l and not st["pl"]["p"]:
                rv = st["rv"]
                for k in ("x",):
                    if k in rv and _derives_from_arg(blocks, rv[k], arg, depth + 1):
                        return True
    return False


def _is_negated(blocks, op, depth=0):
    if op["k"] not in ("copy", "move") or depth > 4:
        return False
    l = op["pl"]["l"]
    for b in blocks:
        for st in b["s"]:
            if st["k"] == "assign" and st["pl"]["l"] == l and not st["pl"]["p"]:
                rv = st["rv"]
                if rv["k"] == "un" and rv["op"] == "Not":
                    return not _is_negated(blocks, rv["x"], depth + 1)
                if rv["k"] == "use":
                    return _is_negated(blocks, rv["x"], depth + 1)
    return False


def r_passthrough(chk, P, tier):
    chk.rule("COPY.pair_order", "LocalResult::and_then / map keep the order of the two Ambiguous components; from_local_datetime maps each offset to its instant", floor=2)
    for m in ("and_then", "map"):
        fn = "offset::LocalResult::<T>::" + m
        ok_any = False
        bad = None
        for p in Sym(P, fn).paths():
            if p.end[0] != "return" or p.ret is None:
                continue
            for a in [x for x in walk_terms(p.ret) if x[0] == "agg" and x[2] == LR and x[3] == "Ambiguous"]:
                srcs = []
                for comp in a[4]:
                    idx = [t[2] for t in walk_terms(comp) if t[0] == "field" and t[1][0] == "as" and t[1][2] == "Ambiguous"]
                    srcs.append(idx[0] if idx else None)
                if srcs == [0, 1]:
                    ok_any = True
                else:
                    bad = srcs
        chk.expect(ok_any and bad is None, m, "LocalResult::%s builds Ambiguous from components %s (expected [0, 1])" % (m, bad), loc=P.loc(fn))


def r_at_transition(chk, P, tier):
    """RFC 8536: a transition takes effect AT its instant. The UTC lookup must count the transitions with time <= t: with binary_search_by_key that is
    Ok(x) => x + 1 / Err(x) => x, with partition_point the predicate is `time <= t`. Decided only for these two idioms."""
    chk.rule("LOOKUP.at_transition", "the UTC lookup counts a transition that happens exactly at the queried instant as having happened (index = number of transitions with time <= t)", floor=2)
    fn = T + "timezone::TimeZoneRef::<'a>::find_local_time_type"
    paths = [p_ for p_ in Sym(P, fn).paths() if p_.end[0] == "return"]
    bs = None
    for p_ in paths:
        for c in p_.calls:
            if isinstance(c[1], str) and c[1].split("::")[-1] in ("binary_search_by_key", "partition_point", "binary_search_by"):
                bs = c[1].split("::")[-1]
    if bs is None:
        chk.ok("undecided idiom", "the lookup uses neither binary_search_by_key nor partition_point: not decided")
        chk.ok("undecided idiom (2)")
        chk.assume("C05 LOOKUP.at_transition: the transition search idiom was not recognised, the rule decided nothing")
        return
    if bs == "binary_search_by_key":
        n = {0: 0, 1: 0}
        for p_ in paths:
            arm = None
            call = None
            for c in p_.conds:
                t = c[1]
                if t[0] == "discr" and is_call(t[1]) and str(t[1][1]).endswith("binary_search_by_key") and c[2] in (0, 1):
                    arm, call = c[2], t[1]
            if arm is None:
                continue
            idx = [x for x in walk_terms(p_.ret) if x[0] == "index" and any(y == call for y in walk_terms(x[2]))]
            for x in idx:
                # innermost index into transitions: transitions[I - 1]
                i_term = x[2]
                payload = ("field", ("as", call, "Ok" if arm == 0 else "Err", arm), 0)
                has_plus1 = any(y[0] == "bin" and y[1].startswith("Add") and const_of(y[3]) == 1 and any(z[0] == "as" and z[1] == call for z in walk_terms(y[2])) for y in walk_terms(i_term))
                n[arm] += 1
                if arm == 0:
                    chk.expect(has_plus1, "Ok arm #%d" % n[arm], "an exact hit of the binary search (transition exactly at the instant) is not counted: Ok(x) must give x + 1", loc=P.loc(fn))
                else:
                    chk.expect(not has_plus1, "Err arm #%d" % n[arm], "the insertion point of a miss is shifted: Err(x) must give x", loc=P.loc(fn))
        if not (n[0] and n[1]):
            raise AnchorLost("find_local_time_type: binary-search arms not found (%s)" % n)
        return
    if bs == "partition_point":
        cl = [c for c in P.closures_of(fn)]
        decided = False
        for c in cl:
            rets = [p_.ret for p_ in Sym(P, c).paths() if p_.end[0] == "return"]
            for r in rets:
                if r[0] == "bin" and r[1] in ("Le", "Lt", "Ge", "Gt"):
                    decided = True
                    left_is_elem = any(y[0] == "field" for y in walk_terms(r[2])) and any(y == ("arg", 2) for y in walk_terms(r[2]))
                    op = r[1] if left_is_elem else {"Le": "Ge", "Lt": "Gt", "Ge": "Le", "Gt": "Lt"}[r[1]]
                    chk.expect(op == "Le", "partition predicate", "partition_point counts the transitions with time %s t; a transition exactly at the instant must be counted (time <= t)" % {"Lt": "<", "Ge": ">=", "Gt": ">"}.get(op, op), loc=P.loc(c))
                    chk.ok("partition_point idiom")
        if not decided:
            chk.ok("undecided idiom")
            chk.ok("undecided idiom (2)")
            chk.assume("C05 LOOKUP.at_transition: partition_point predicate not recognised, the rule decided nothing")
        return
    chk.ok("undecided idiom")
    chk.ok("undecided idiom (2)")
    chk.assume("C05 LOOKUP.at_transition: idiom %s not decided" % bs)


def r_offset_sign_shared(chk, P, tier):
    from props import c16
    c16.r_offset_sign(chk, P, tier)


def r_days_since_epoch(chk, P, tier):
    """days_since_unix_epoch(year, month, day) is a pure integer function. It is folded (def-use terms, no execution) over one full 400-year
    period of each of its two branches (1970..2370 and 1570..1970) x 12 months and compared with the calendar oracle. Lemma for all other years:
    `year` enters only as (year - c) * 365, (year - c) / k with k in {4, 100, 400} and is_leap_year(year); within a branch all numerators keep
    their sign (c <= 1970 in the upper, c >= 1969 in the lower branch), so truncating division is additive under year +- 400 and
    f(year +- 400) = f(year) +- 146097, as in the calendar. The day enters additively."""
    from finmap import Folder
    import calendar_oracle as cal
    chk.rule("CYCLE.days_since_unix_epoch", "days_since_unix_epoch equals the calendar's day count for every (year, month) of one 400-year period per branch; periodicity lemma on the uses of `year`", floor=4)
    fn = RULE + "days_since_unix_epoch"
    fo = Folder(P)
    epoch = cal.day_number(1970, 1, 1)
    bad = None
    n = 0
    for y in range(1570, 2370):
        for m in range(1, 13):
            for d in (1, 28):
                r = fo.call(fn, [("const", y), ("const", m), ("const", d)])
                n += 1
                want = cal.day_number(y, m, d) - epoch
                got = r[1] if isinstance(r, tuple) and r and r[0] == "const" else r
                if got != want and bad is None:
                    bad = ((y, m, d), got, want)
    chk.expect(bad is None, "window 1570..2370", "days_since_unix_epoch%s = %s, calendar says %s" % (bad or ((), 0, 0)), loc=P.loc(fn), detail_ok="%d argument tuples" % n)
    # lemma: uses of year
    paths = [p_ for p_ in Sym(P, fn).paths() if p_.end[0] == "return"]
    if not paths:
        raise AnchorLost(fn)
    YEAR = ("arg", 1)
    ok_uses = True
    why = ""
    branch_consts = {True: set(), False: set()}
    for p_ in paths:
        upper = None
        for c in p_.conds:
            t = c[1]
            if c[0][0] == "switch" and t[0] == "bin" and t[1] in ("Ge", "Lt") and const_of(t[3]) == 1970 and any(x == YEAR for x in walk_terms(t[2])):
                truth = c[2] != 0
                upper = truth if t[1] == "Ge" else not truth
        if upper is None:
            ok_uses, why = False, "a path does not branch on year >= 1970"
            continue
        for t in walk_terms(p_.ret):
            if t[0] == "bin" and t[1] in ("Div", "Rem") and any(x == YEAR for x in walk_terms(t[2])):
                k = const_of(t[3])
                num = t[2]
                while num[0] == "field" and num[2] == 0 and num[1][0] == "bin":
                    num = ("bin", num[1][1].replace("WithOverflow", ""), num[1][2], num[1][3])
                if t[1] != "Div" or k not in (4, 100, 400) or not (num[0] == "bin" and num[1] == "Sub" and const_of(num[3]) is not None):
                    ok_uses, why = False, "year is divided as %s" % pp(t)[:60]
                else:
                    branch_consts[upper].add(const_of(num[3]))
            if t[0] == "bin" and t[1].startswith("Mul") and any(x == YEAR for x in walk_terms(t)):
                if const_of(t[3]) != 365 and const_of(t[2]) != 365:
                    ok_uses, why = False, "year is multiplied as %s" % pp(t)[:60]
    chk.expect(ok_uses, "uses of year", "periodicity lemma does not apply: " + why, loc=P.loc(fn))
    chk.expect(branch_consts[True] and max(branch_consts[True]) <= 1970 and branch_consts[False] and min(branch_consts[False]) >= 1969, "numerators keep their sign",
               "division numerators change sign inside a branch: upper branch subtracts %s (must be <= 1970), lower branch %s (must be >= 1969)" % (sorted(branch_consts[True]), sorted(branch_consts[False])), loc=P.loc(fn))
    chk.expect(146097 % 7 == 0 and 400 * 365 + 100 - 4 + 1 == 146097, "period", "arithmetic")


def r_rule_day_time(chk, P, tier):
    """a POSIX rule has two (day, time-of-day) pairs: (dst_start, dst_start_time) and (dst_end, dst_end_time). An instant computed from the start day and the
    end time (or the reverse) belongs to neither transition. Integer locals are tagged with the rule fields they derive from; comparisons (booleans) may
    relate both transitions, instants may not mix them."""
    from rules import tag_locals
    at = T + "rule::AlternateTime"
    names = [f["name"] for f in P.adts[at]["variants"][0]["fields"]]
    tagmap = {names.index("dst_start"): "start-day", names.index("dst_start_time"): "start-time", names.index("dst_end"): "end-day", names.index("dst_end_time"): "end-time"}
    chk.rule("PAIR.rule_day_time", "in both AlternateTime lookups every instant is computed from the day and the time of day of the same transition (dst_start with dst_start_time, dst_end with dst_end_time)", floor=10)

    def field_tag(tys, idx):
        base = tys.lstrip("&").replace("mut ", "")
        return tagmap.get(idx) if base == at else None
    for fn in (at + "::find_local_time_type", at + "::find_local_time_type_from_local"):
        m = P.fn(fn)["mir"]
        tags, of = tag_locals(P, fn, field_tag)
        good = {"start": 0, "end": 0}
        mixes = []
        for i, tg in sorted(tags.items()):
            ty = P.ty_s(m["locals"][i])
            if ty not in ("i64", "i32", "i128", "u64", "(i64, bool)", "(i32, bool)"):
                continue
            four = {"start-day", "start-time", "end-day", "end-time"} <= tg     # a relation between the two complete instants (e.g. their distance) is not a mix
            mixed = not four and (("start-day" in tg and "end-time" in tg) or ("end-day" in tg and "start-time" in tg))
            if mixed:
                mixes.append("_%d (%s) from %s" % (i, ty, sorted(tg)))
            elif {"start-day", "start-time"} <= tg:
                good["start"] += 1
            elif {"end-day", "end-time"} <= tg:
                good["end"] += 1
        chk.expect(not mixes, "%s mixed" % fn.split("::")[-1], "%s: %d integer locals combine the day of one transition with the time of day of the other, first: %s" % (fn, len(mixes), mixes[:2]), loc=P.loc(fn))
        for k, v in good.items():
            chk.expect(v >= 1, "%s %s instant" % (fn.split("::")[-1], k), "%s: no integer local combines the %s day with the %s time (anchor lost)" % (fn, k, k), loc=P.loc(fn))
            for _ in range(min(v, 2) - 1):
                chk.ok("%s %s instant+" % (fn.split("::")[-1], k))


def r_rule_map(chk, P, tier):
    """POSIX-rule zones as value maps. (A) RuleDay::unix_time for every Mm.w.d rule day (12 x 5 x 7), the Jn and n forms on both sides of the leap day and at the ends, in one
    year per year class: equals the calendar's date of that rule day. (B) AlternateTime::find_local_time_type for a family of rules (northern, southern, negative DST,
    Julian forms, negative and > 24 h transition times) at instants on both sides of every transition of three years: equals "DST iff the last transition at or before the
    instant is a DST start", with the transitions computed by the calendar oracle. (C) find_local_time_type_from_local for wall-clock times on both sides of every gap and
    fold boundary (the boundary seconds themselves are excepted by the property): none / one / both candidates, earliest first, by inverting (B) with the oracle.
    Folding of def-use terms, no execution; UtcDateTime::from_timespec contains a loop the folder does not unroll: its year is supplied from the oracle (assumption)."""
    import calendar_oracle as cal
    from finmap import Folder, show, Unknown
    from rules import table_value, find_calls as fc
    from props.c01 import flags_of
    R = T + "rule::"
    AT = R + "AlternateTime"
    LT = T + "timezone::LocalTimeType"
    chk.rule("MAP.rule_zone", "RuleDay::unix_time, AlternateTime::find_local_time_type and ::find_local_time_type_from_local folded over a rule family and all transition neighbourhoods equal the calendar oracle", floor=8000)
    fo = Folder(P, max_depth=14)
    tbl = [flags_of(c) for c in table_value(P, "naive::internals::YEAR_TO_FLAGS")]
    epoch = cal.day_number(1970, 1, 1)
    reps = {}
    for y in range(2000, 2400):
        reps.setdefault(tbl[y % 400], y)
    years = sorted(reps.values()) + [1970, 1900, -4]
    bad = {}
    n_ok = [0]

    def expect(cls, a, got, w):
        if got == w:
            n_ok[0] += 1
        else:
            bad.setdefault(cls, (a, got, w))

    def mwd(m, w, d):
        return ("agg", "adt", R + "RuleDay", "MonthWeekday", (("const", m), ("const", w), ("const", d)), 2)

    def j1(n):
        return ("agg", "adt", R + "RuleDay", "Julian1WithoutLeap", (("const", n),), 0)

    def j0(n):
        return ("agg", "adt", R + "RuleDay", "Julian0WithLeap", (("const", n),), 1)

    def rule_day_number(rd, y):
        """oracle: day number (days from CE) of a rule day in year y; rd = ('M', m, w, d) | ('J', n) | ('N', n)"""
        jan1 = cal.day_number(y, 1, 1)
        if rd[0] == "N":
            return jan1 + rd[1]
        if rd[0] == "J":
            n = rd[1]
            return jan1 + n - 1 + (1 if cal.leap(y) and n >= 60 else 0)
        _, m, w, d = rd           # d: 0 = Sunday
        first = cal.weekday(y, m, 1)          # 0 = Monday
        first_sun0 = (first + 1) % 7
        day = 1 + (d - first_sun0) % 7 + (w - 1) * 7
        if day > cal.days_in_month(y, m):
            day -= 7
        return cal.day_number(y, m, day)

    def term(rd):
        return mwd(*rd[1:]) if rd[0] == "M" else (j1(rd[1]) if rd[0] == "J" else j0(rd[1]))
    # (A)
    rule_days = [("M", m, w, d) for m in range(1, 13) for w in range(1, 6) for d in range(7)] + [("J", n) for n in (1, 31, 59, 60, 61, 200, 364, 365)] + [("N", n) for n in (0, 58, 59, 60, 61, 200, 364)]
    for y in years:
        for rd in rule_days:
            for t in (0, 7200, -3600):
                if rd[0] == "M" and t != 7200:
                    continue
                try:
                    got = show(fo.call(R + "RuleDay::unix_time", [("ref", term(rd)), ("const", y), ("const", t)]))
                except Unknown as e:
                    got = "unknown: %s" % e
                expect("unix_time %s" % {"M": "Mm.w.d", "J": "Jn", "N": "n"}[rd[0]], (rd, y, t), got, (rule_day_number(rd, y) - epoch) * 86400 + t)

    # (B), (C)
    def ltt(off, dst):
        return ("agg", "adt", LT, "LocalTimeType", (("const", off), ("const", dst), ("agg", "adt", "std::option::Option", "None", (), 0)), 0)

    def at(r):
        return ("agg", "adt", AT, "AlternateTime", (ltt(r["std"], False), ltt(r["dst"], True), term(r["start"]), ("const", r["st"]), term(r["end"]), ("const", r["et"])), 0)
    rules = [
        dict(name="CET-1CEST,M3.5.0,M10.5.0/3", std=3600, dst=7200, start=("M", 3, 5, 0), st=7200, end=("M", 10, 5, 0), et=10800),
        dict(name="EST5EDT,M3.2.0,M11.1.0", std=-18000, dst=-14400, start=("M", 3, 2, 0), st=7200, end=("M", 11, 1, 0), et=7200),
        dict(name="AEST-10AEDT,M10.1.0,M4.1.0/3", std=36000, dst=39600, start=("M", 10, 1, 0), st=7200, end=("M", 4, 1, 0), et=10800),
        dict(name="IST-1GMT0,M10.5.0,M3.5.0/1", std=3600, dst=0, start=("M", 10, 5, 0), st=7200, end=("M", 3, 5, 0), et=3600),
        dict(name="XXX3YYY,J60/0,J300/0", std=-10800, dst=-7200, start=("J", 60), st=0, end=("J", 300), et=0),
        dict(name="XXX-5:30YYY-6:45,59/2,299/2", std=19800, dst=24300, start=("N", 59), st=7200, end=("N", 299), et=7200),
        dict(name="WGT3WGST,M3.5.0/-2,M10.5.0/-1", std=-10800, dst=-7200, start=("M", 3, 5, 0), st=-7200, end=("M", 10, 5, 0), et=-3600),
        dict(name="IST-2IDT,M3.4.4/26,M10.5.0", std=7200, dst=10800, start=("M", 3, 4, 4), st=93600, end=("M", 10, 5, 0), et=7200),
        dict(name="SOUTH4NEG3,M9.1.6/24,M4.1.6/24", std=-14400, dst=-10800, start=("M", 9, 1, 6), st=86400, end=("M", 4, 1, 6), et=86400),
    ]
    fn_utc = AT + "::find_local_time_type"
    fn_loc = AT + "::find_local_time_type_from_local"
    keys = {pp(c) for p_ in Sym(P, fn_utc).paths() for t in [x[1] for x in p_.conds] for c in fc(t) if c[1].endswith("UtcDateTime::from_timespec")}
    if len(keys) != 1:
        raise AnchorLost("find_local_time_type: expected one from_timespec term, found %s" % sorted(keys))
    key = keys.pop()
    UD = R + "UtcDateTime"

    def ud(y):
        return ("agg", "adt", "std::result::Result", "Ok", (("agg", "adt", UD, "UtcDateTime", (("const", y),) + tuple(("const", 1) for _ in range(5)), 0),), 0)

    def year_of(t):
        dn = t // 86400 + epoch
        y = dn * 400 // 146097
        while cal.day_number(y, 1, 1) > dn:
            y -= 1
        while cal.day_number(y + 1, 1, 1) <= dn:
            y += 1
        return y

    def ndt(local):
        dn = local // 86400 + epoch
        y = year_of(local)
        o = dn - cal.day_number(y, 1, 1) + 1
        yof = (y << 13) | (o << 4) | tbl[y % 400]
        return ("agg", "adt", "naive::datetime::NaiveDateTime", "NaiveDateTime",
                (("agg", "adt", "naive::date::NaiveDate", "NaiveDate", (("const", yof),), 0), ("agg", "adt", "naive::time::NaiveTime", "NaiveTime", (("const", local % 86400), ("const", 0)), 0)), 0)
    ys = (2023, 2024, 2000) if tier != "thorough" else (2023, 2024, 2000, 2100, 1999, 2038, 1970)
    for r in rules:
        rt = ("ref", at(r))
        trans = []      # (instant, becomes_dst)
        for y in range(min(ys) - 2, max(ys) + 3):
            trans.append(((rule_day_number(r["start"], y) - epoch) * 86400 + r["st"] - r["std"], True))
            trans.append(((rule_day_number(r["end"], y) - epoch) * 86400 + r["et"] - r["dst"], False))
        trans.sort()

        def is_dst(t):
            last = None
            for (u, d) in trans:
                if u <= t:
                    last = d
            return last
        for y in ys:
            lo, hi = (cal.day_number(y, 1, 1) - epoch) * 86400, (cal.day_number(y + 1, 1, 1) - epoch) * 86400
            inst = {lo, lo + 1, hi - 1, (lo + hi) // 2}
            for (u, d) in trans:
                if lo - 86400 <= u < hi + 86400:
                    inst |= {u - 86400, u - 3600, u - 2, u - 1, u, u + 1, u + 2, u + 3600, u + 86400}
            for t in sorted(inst):
                w = is_dst(t)
                try:
                    v = show(fo.call(fn_utc, [rt, ("const", t)], bind={key: ud(year_of(t))}))
                    got = v[1][2] if isinstance(v, tuple) and v[0] == "Result::Ok" else v
                except Unknown as e:
                    got = "unknown: %s" % e
                expect("find_local_time_type [%s]" % r["name"], t, got, w)
            # wall-clock times around every gap / fold boundary of the year
            delta = r["dst"] - r["std"]
            locs = {lo + 43200, (lo + hi) // 2}
            excl = set()
            for (u, d) in trans:
                if lo <= u < hi:
                    a, b = u + r["std"], u + r["dst"]        # the same instant on the two wall clocks
                    excl |= {a, b}
                    for x in (a, b):
                        locs |= {x - 86400, x - 2, x - 1, x + 1, x + 2, x + 86400}
                    locs.add((a + b) // 2)
            for L in sorted(locs - excl):
                c_std, c_dst = L - r["std"], L - r["dst"]
                ok_std, ok_dst = is_dst(c_std) is False, is_dst(c_dst) is True
                cands = sorted([(c_std, "std")] * ok_std + [(c_dst, "dst")] * ok_dst)
                w = tuple(k for _, k in cands)
                try:
                    v = show(fo.call(fn_loc, [rt, ndt(L)]))
                    if isinstance(v, tuple) and v[0] == "Result::Ok":
                        m = v[1]
                        if m == "LocalResult::None":
                            got = ()
                        elif isinstance(m, tuple):
                            got = tuple("dst" if x[2] else "std" for x in m[1:])
                        else:
                            got = m
                    else:
                        got = v
                except Unknown as e:
                    got = "unknown: %s" % e
                expect("find_local_time_type_from_local [%s]" % r["name"], L, got, w)
    for _ in range(n_ok[0]):
        chk.ok("value")
    for cls, (a, got, w) in sorted(bad.items()):
        chk.bad(cls, "%s: argument %s folds to %s, the calendar oracle gives %s" % (cls, a, got, w), loc=P.loc(fn_utc if "from_local" not in cls else fn_loc))
