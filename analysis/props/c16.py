"""C16 — TZif and TZ-rule readers: survive everything (abstract interpretation) and the structural part of acceptance."""
from core import Prog, AnchorLost
from sym import Sym, pp, walk_terms, const_of
from rules import is_call, find_calls, arg_field, result_variant, callees, unref, accept_boxes, aggregate_sites
import e1

T = "offset::local::tz_info::"
ROOTS = (T + "timezone::TimeZone::from_tz_data", T + "timezone::TimeZone::from_posix_tz", T + "rule::TransitionRule::from_tz_string",
         T + "timezone::TimeZoneRef::<'a>::find_local_time_type", T + "timezone::TimeZoneRef::<'a>::find_local_time_type_from_local",
         "offset::local::inner::Cache::offset", T + "timezone::TimeZone::local")


def run(chk, tier):
    P = Prog("default")
    chk.configs.add("default")
    for r in (r_absint, r_block_order, r_header_order, r_header_counts, r_tz_string_consumed, r_hms_weights, r_rule_boxes, r_validate, r_validate_cover, r_validate_leaps, r_record_layout, r_offset_sign, r_data_indices, r_ltt_box, r_footer, r_capacity, r_header_consts, r_footer_extensions, r_errors_kept):
        chk.guarded(r, P, tier)
    chk.assume("that every conforming file is accepted and decoded to exactly the written transitions/types/rule is not decided (value-level)")
    return {
        "explanation": "C16 statically: abstract interpretation of the TZif parser, the TZ-string parser and both lookups from their entry points with every byte, count "
                       "and time read from the input at full range: cursor slicing, header-count multiplications, data-supplied indices, 64-bit time arithmetic and rule "
                       "arithmetic cannot trap (discharged or justified by name). Structure: the data blocks are read in TZif order with the header counts they belong to; "
                       "the six header counts are read in TZif order; rule-day constructors accept exactly J1..=365 / 0..=365 / M1..=12.1..=5.0..=6; every TimeZone with "
                       "transitions is built through TimeZone::new, which validates before returning Ok; Vec::with_capacity arguments are header counts that State::new has "
                       "already charged against the input length; magic/version bytes.",
        "trusted_base": ["analysis/abs*.py", "specs/justifications.txt", "analysis/sym.py"],
    }


def r_absint(chk, P, tier):
    res = e1.run_engine(P, tier, extra_roots=ROOTS)
    e1.report(chk, P, res, "ABSINT.tz_info", "every panic-capable site of the TZif/TZ-rule readers and lookups is discharged or justified (input at full range)",
              fn_filter=lambda fn: "tz_info::" in fn or "local::inner::" in fn or fn.startswith("<offset::local::Local as offset::TimeZone>::"), floor=180)


def r_block_order(chk, P, tier):
    chk.rule("ORDER.blocks", "State::new reads the data blocks in TZif order, each sized by its own header count", floor=7)
    fn = T + "parser::State::<'a>::new"
    hdr = [f["name"] for f in P.adts[T + "parser::Header"]["variants"][0]["fields"]]
    sfields = [f["name"] for f in P.adts[T + "parser::State"]["variants"][0]["fields"]]
    want = [("transition_times", "transition_count", True), ("transition_types", "transition_count", False), ("local_time_types", "type_count", True),
            ("names", "char_count", False), ("leap_seconds", "leap_count", True), ("std_walls", "std_wall_count", False), ("ut_locals", "ut_local_count", False)]
    oks = [p for p in Sym(P, fn).paths() if p.end[0] == "return" and result_variant(p.ret)[0] == "Ok"]
    if not oks:
        raise AnchorLost("State::new has no Ok path")
    for p in oks[:1]:
        reads = [c for c in p.calls if isinstance(c[1], str) and c[1].endswith("Cursor::<'a>::read_exact")]
        got = []
        for c in reads:
            size = c[2][1]
            hf = sorted({hdr[x[2]] for x in walk_terms(size) if x[0] == "field" and isinstance(x[2], int) and x[2] < len(hdr) and x[1][0] == "field" and x[1][2] == 0})
            got.append((hf, any(x[0] == "bin" and x[1].startswith("Mul") for x in walk_terms(size))))
        for i, (sf, hf, mul) in enumerate(want):
            ok = i < len(got) and got[i][0] == [hf] and got[i][1] == mul
            chk.expect(ok, "read #%d (%s)" % (i + 1, sf), "block %d should be %s sized by header.%s%s, found %s" % (
                i + 1, sf, hf, " x record size" if mul else "", got[i] if i < len(got) else None), loc=P.loc(fn))
        # and each block lands in the field of the same name
        agg = p.ret[4][0]
        for i, (sf, hf, mul) in enumerate(want):
            idx = sfields.index(sf)
            t = agg[4][idx]
            src = [c for c in find_calls(t) if c[1].endswith("read_exact")]
            ok = len(src) == 1 and src[0] == reads[i] if i < len(reads) else False
            chk.expect(ok, "field " + sf, "State.%s is not filled from read #%d" % (sf, i + 1), loc=P.loc(fn))
        ts = const_of(agg[4][sfields.index("time_size")])
    sizes = sorted({const_of(p.ret[4][0][4][sfields.index("time_size")]) for p in oks})
    chk.expect(sizes in ([4, 8], [8], [4]) and len(oks) >= 1, "time_size", "time_size values %s" % sizes)


def r_header_order(chk, P, tier):
    chk.rule("ORDER.header", "Header::new reads the six counts in TZif order (isut, isstd, leap, time, type, char)", floor=6)
    fn = T + "parser::Header::new"
    hdr = [f["name"] for f in P.adts[T + "parser::Header"]["variants"][0]["fields"]]
    oks = [p for p in Sym(P, fn).paths() if p.end[0] == "return" and result_variant(p.ret)[0] == "Ok"]
    if not oks:
        raise AnchorLost("Header::new has no Ok path")
    want = ["ut_local_count", "std_wall_count", "leap_count", "transition_count", "type_count", "char_count"]
    p = oks[0]
    reads = [c for c in p.calls if isinstance(c[1], str) and c[1].endswith("read_be_u32")]
    agg = p.ret[4][0]
    for i, name in enumerate(want):
        t = agg[4][hdr.index(name)]
        src = [c for c in find_calls(t) if c[1].endswith("read_be_u32")]
        ok = i < len(reads) and len(src) == 1 and src[0] == reads[i]
        chk.expect(ok, name, "Header.%s is not the %d-th count read" % (name, i + 1), loc=P.loc(fn))


def r_rule_boxes(chk, P, tier):
    chk.rule("BOX.rule_days", "rule-day constructors accept exactly J1..=365, 0..=365 and M1..=12.1..=5.0..=6", floor=3)
    specs = [(T + "rule::RuleDay::julian_1", {"d": ("arg", 1)}, {"d": (1, 365)}),
             (T + "rule::RuleDay::julian_0", {"d": ("arg", 1)}, {"d": (0, 365)}),
             (T + "rule::RuleDay::month_weekday", {"m": ("arg", 1), "w": ("arg", 2), "wd": ("arg", 3)}, {"m": (1, 12), "w": (1, 5), "wd": (0, 6)})]
    for fn, sub, exp in specs:
        bs = accept_boxes(P, fn, sub)
        ok = len(bs) >= 1
        for box, other, p in bs:
            b = {k: (v[0] if v[0] is not None else 0, v[1]) for k, v in box.items()}
            ok = ok and not other and b == exp
        chk.expect(ok, fn.split("::")[-1], "%s accepts %s, expected %s" % (fn.split("::")[-1], [(b, [pp(c[1])[:50] for c in o]) for b, o, _ in bs], exp), loc=P.loc(fn))


def r_validate(chk, P, tier):
    chk.rule("DOM.validate", "zones are built only through TimeZone::new, which validates before returning Ok; parse() ends in TimeZone::new", floor=3)
    TZ = T + "timezone::TimeZone"
    fn = TZ + "::new"
    oks = [p for p in Sym(P, fn).paths() if p.end[0] == "return" and result_variant(p.ret)[0] == "Ok"]
    ok = bool(oks) and all(any(isinstance(c[1], str) and c[1].endswith("TimeZoneRef::<'a>::validate") for c in p.calls) for p in oks)
    chk.expect(ok, "new validates", "TimeZone::new has an Ok path that does not pass through validate()", loc=P.loc(fn))
    sites = sorted({f.split("::{")[0] for f, _, _, _ in aggregate_sites(P, TZ)})
    allowed = {TZ + "::new", TZ + "::utc", TZ + "::fixed", "<offset::local::tz_info::timezone::TimeZone as std::clone::Clone>::clone"}
    chk.expect(set(sites) <= allowed, "construction sites", "TimeZone struct literals outside new/utc/fixed: %s" % sorted(set(sites) - allowed))
    cs = callees(P, T + "parser::parse")
    chk.expect(TZ + "::new" in cs, "parse ends in new", "parser::parse does not build its result with TimeZone::new")


def _lin(t):
    """linear form of an index expression: ({atom term: coefficient}, constant); None when not linear"""
    if t[0] in ("const", "named"):
        c = const_of(t)
        return ({}, c) if isinstance(c, int) and not isinstance(c, bool) else None
    if t[0] == "field" and t[2] == 0 and t[1][0] == "bin" and t[1][1] in ("AddWithOverflow", "SubWithOverflow"):
        t = ("bin", t[1][1][:3], t[1][2], t[1][3])
    if t[0] == "bin" and t[1] in ("Add", "Sub"):
        a, b = _lin(t[2]), _lin(t[3])
        if a is None or b is None:
            return None
        sg = 1 if t[1] == "Add" else -1
        d = dict(a[0])
        for k, v in b[0].items():
            d[k] = d.get(k, 0) + sg * v
        return ({k: v for k, v in d.items() if v}, a[1] + sg * b[1])
    if t[0] in ("cast", "as"):
        return _lin(t[1]) if t[0] == "cast" else _lin(t[1])
    return ({t: 1}, 0)


def r_record_layout(chk, P, tier):
    """every fixed-size record cut by chunks_exact(N) is decoded by sub-slices / byte reads that tile [0, N) exactly: no gap, no overlap,
    each field starts where the previous one ends (boundaries compared as linear forms over the same terms)"""
    chk.rule("LAYOUT.records", "the sub-slices and byte reads of each chunks_exact(N) record tile [0, N): transition time, local time type (4+1+1), leap second (time_size + 4)", floor=3)
    fn = T + "parser::parse"
    groups = {}
    for p_ in Sym(P, fn).paths(max_paths=600):
        for v in list(p_.env.values()) + [c for c in p_.calls] + [c[1] for c in p_.conds]:
            for t in walk_terms(v):
                if not isinstance(t, tuple) or not t:
                    continue
                base = rng = None
                if t[0] == "call" and isinstance(t[1], str) and t[1].endswith("Index<I> for [T]>::index") and len(t[2]) == 2:
                    base, r = t[2]
                    if r[0] == "agg" and r[2] in ("std::ops::Range", "std::ops::RangeTo", "std::ops::RangeFrom", "std::ops::RangeFull"):
                        kind = r[2].split("::")[-1]
                        fs = r[4]
                        rng = {"Range": lambda: (fs[0], fs[1]), "RangeTo": lambda: (("const", 0), fs[0]), "RangeFrom": lambda: (fs[0], None), "RangeFull": lambda: (("const", 0), None)}[kind]()
                elif t[0] == "index":
                    base, i = t[1], t[2]
                    li = _lin(i)
                    rng = (i, ("bin", "Add", i, ("const", 1))) if li is not None else None
                if base is None or rng is None:
                    continue
                ch = [x for x in walk_terms(base) if isinstance(x, tuple) and x and x[0] == "call" and isinstance(x[1], str) and x[1].endswith("<impl [T]>::chunks_exact")]
                if len(ch) != 1:
                    continue
                groups.setdefault(ch[0], set()).add(rng)
    if not groups:
        raise AnchorLost("no chunks_exact record decoding found in parser::parse")
    names = [f["name"] for f in P.adts[T + "parser::State"]["variants"][0]["fields"]]
    seen = {}
    for ch, rs in groups.items():
        src = ch[2][0]
        fld = [x for x in walk_terms(src) if x[0] == "field"]
        label = names[fld[0][2]] if fld and fld[0][2] < len(names) else "?"
        n = _lin(ch[2][1])
        ivs = []
        okl = n is not None
        for a, b in rs:
            la = _lin(a)
            lb = n if b is None else _lin(b)
            if la is None or lb is None:
                okl = False
            ivs.append((la, lb))
        ok = okl
        cur = ({}, 0)
        used = 0
        while ok and used < len(ivs):
            nxt = [iv for iv in ivs if iv[0] == cur]
            if len(nxt) != 1:
                ok = False
                break
            cur = nxt[0][1]
            used += 1
        ok = ok and cur == n
        key = (label, ok)
        if label in seen and seen[label] == ok:
            continue
        seen[label] = ok
        chk.expect(ok, "record of state." + label, "the reads of a state.%s record do not tile [0, chunk size): boundaries %s, chunk size %s" % (
            label, sorted("[%s, %s)" % (_show(a), _show(b)) for a, b in ivs), _show(n)), loc=P.loc(fn))
    chk.expect({"transition_times", "local_time_types", "leap_seconds"} <= set(seen), "all three record kinds", "record kinds found: %s" % sorted(seen))


def _show(l):
    if l is None:
        return "?"
    parts = ["%s%s" % ("" if v == 1 else "%d*" % v, pp(k)[-24:]) for k, v in l[0].items()]
    if l[1] or not parts:
        parts.append(str(l[1]))
    return "+".join(parts)


def _leaves_under_mul(t, is_leaf, is_factor, under=False, out=None):
    """for every occurrence of a leaf in term t: was some enclosing multiplication's other operand a `factor` term?"""
    if out is None:
        out = []
    if not isinstance(t, tuple) or not t:
        return out
    if is_leaf(t):
        out.append(under)
        return out
    if t[0] == "bin" and t[1].startswith("Mul"):
        a, b = t[2], t[3]
        fa = any(is_factor(x) for x in walk_terms(a))
        fb = any(is_factor(x) for x in walk_terms(b))
        _leaves_under_mul(a, is_leaf, is_factor, under or fb, out)
        _leaves_under_mul(b, is_leaf, is_factor, under or fa, out)
        return out
    for x in t[1:]:
        if isinstance(x, tuple):
            if x and isinstance(x[0], str):
                _leaves_under_mul(x, is_leaf, is_factor, under, out)
            else:
                for y in x:
                    _leaves_under_mul(y, is_leaf, is_factor, under, out)
    return out


def r_offset_sign(chk, P, tier):
    """POSIX `[+-]hh[:mm[:ss]]`: the sign applies to the whole offset. In the value parse_offset returns, each of hour, minute and second is (inside) an
    operand of a multiplication by the sign (either sign * (h*3600 + m*60 + s) or the distributed form)"""
    chk.rule("SHAPE.offset_sign", "parse_offset and parse_rule_time_extended multiply every component (hour, minute, second) by the sign", floor=6)
    for short in ("parse_offset", "parse_rule_time_extended"):
        fn = T + "rule::" + short
        oks = [p_ for p_ in Sym(P, fn).paths() if p_.end[0] == "return" and result_variant(p_.ret)[0] == "Ok"]
        if not oks:
            raise AnchorLost(short + ": no Ok path")

        def comp(i):
            return lambda t: t[0] == "field" and t[2] == i and t[1][0] == "field" and t[1][2] == 0 and any(is_call(x) and str(x[1]).endswith("parse_signed_hhmmss") for x in walk_terms(t[1]))
        val = oks[0].ret[4][0]
        for i, name in ((1, "hour"), (2, "minute"), (3, "second")):
            occ = _leaves_under_mul(val, comp(i), comp(0))
            chk.expect(bool(occ) and all(occ), short + ": " + name, "the %s component of a signed hh[:mm[:ss]] value is %s in %s's result" % (name, "not multiplied by the sign" if occ else "not used", short), loc=P.loc(fn))


def r_data_indices(chk, P, tier):
    """an index read from the file is compared with the header count of the table it indexes before it is used: in parse() every slice of state.names
    whose bound comes from a record byte is dominated by a comparison of that value with header.char_count that leads to Err"""
    from rules import _copies, _root, _def_of, _places_of
    chk.rule("DOM.data_indices", "parse(): the abbreviation index read from a local-time-type record is compared with header.char_count (=> Err) on every way to the slicing of state.names", floor=1)
    fn = T + "parser::parse"
    mir = P.fn(fn)["mir"]
    cfg = P.cfg(fn)
    copies = _copies(mir)
    st_fields = [f["name"] for f in P.adts[T + "parser::State"]["variants"][0]["fields"]]
    hd_fields = [f["name"] for f in P.adts[T + "parser::Header"]["variants"][0]["fields"]]
    f_names, f_header, f_cc = st_fields.index("names"), st_fields.index("header"), hd_fields.index("char_count")

    def fields_of(pl):
        return tuple(e[1] for e in pl["p"] if isinstance(e, list) and e[0] == "f")

    def origin(l, depth=0):
        """field path of the place a temporary was loaded from"""
        if depth > 6:
            return None
        d = _def_of(mir, _root(copies, l))
        if not d or d[1].get("k") != "assign":
            return None
        rv = d[1]["rv"]
        pl = rv.get("pl") if rv["k"] == "ref" else (rv["x"].get("pl") if rv["k"] in ("use", "cast") and rv["x"]["k"] in ("copy", "move") else None)
        if pl is None:
            return None
        if fields_of(pl):
            return fields_of(pl)
        return origin(pl["l"], depth + 1)
    sites = 0
    for bi, b in enumerate(mir["blocks"]):
        t = b["t"]
        if b.get("cleanup") or t["k"] != "call" or not (t["callee"].get("resolved") or "").endswith("Index<I> for [T]>::index"):
            continue
        a0 = t["args"][0]
        if a0["k"] not in ("copy", "move") or origin(a0["pl"]["l"]) != (f_names,):
            continue
        # operands of the range aggregate
        rd = _def_of(mir, _root(copies, t["args"][1]["pl"]["l"]))
        ops = []
        if rd and rd[1].get("k") == "assign" and rd[1]["rv"]["k"] == "agg":
            _places_of(rd[1]["rv"]["fields"], ops)
        roots = set()
        for o in ops:
            r = _root(copies, o["l"])
            roots.add(r)
            d = _def_of(mir, r)
            # start + len: take the summands
            if d and d[1].get("k") == "assign" and d[1]["rv"]["k"] == "use" and d[1]["rv"]["x"]["k"] in ("copy", "move") and d[1]["rv"]["x"]["pl"]["p"]:
                dd = _def_of(mir, d[1]["rv"]["x"]["pl"]["l"])
                if dd and dd[1].get("k") == "assign" and dd[1]["rv"]["k"] == "bin":
                    for side in ("l", "r"):
                        if dd[1]["rv"][side]["k"] in ("copy", "move"):
                            roots.add(_root(copies, dd[1]["rv"][side]["pl"]["l"]))
        sites += 1
        guarded = False
        for d_ in range(len(mir["blocks"])):
            if d_ not in cfg.reach or d_ == bi or not cfg.dominates(d_, bi):
                continue
            td = mir["blocks"][d_]["t"]
            if td["k"] != "switch" or td["discr"]["k"] not in ("copy", "move"):
                continue
            df = _def_of(mir, td["discr"]["pl"]["l"])
            if not df or df[1].get("k") != "assign" or df[1]["rv"]["k"] != "bin" or df[1]["rv"]["op"] not in ("Ge", "Lt", "Gt", "Le"):
                continue
            l_, r_ = df[1]["rv"]["l"], df[1]["rv"]["r"]
            if l_["k"] not in ("copy", "move") or r_["k"] not in ("copy", "move"):
                continue
            a, c = _root(copies, l_["pl"]["l"]), _root(copies, r_["pl"]["l"])
            oa, oc = origin(l_["pl"]["l"]), origin(r_["pl"]["l"])
            if (a in roots and oc == (f_header, f_cc)) or (c in roots and oa == (f_header, f_cc)):
                guarded = True
        chk.expect(guarded, "names slice #%d" % sites, "parse() slices state.names with a value read from the file that was not compared with header.char_count first (line %s)" % t.get("ln"), loc=P.loc(fn, t.get("ln")))
    if sites < 2:
        raise AnchorLost("parse(): %d slicings of state.names found" % sites)


def r_ltt_box(chk, P, tier):
    """the lookups negate and add ut_offset: i32::MIN must never enter a LocalTimeType. Both constructors reject it on every path that builds a value."""
    chk.rule("BOX.ltt_offset", "LocalTimeType::new and ::with_offset return Ok only on paths that tested ut_offset == i32::MIN and found it false", floor=2)
    for name in ("new", "with_offset"):
        fn = T + "timezone::LocalTimeType::" + name
        oks = [p_ for p_ in Sym(P, fn).paths() if p_.end[0] == "return" and result_variant(p_.ret)[0] == "Ok"]
        if not oks:
            raise AnchorLost(fn + ": no Ok path")
        bad = 0
        for p_ in oks:
            tested = False
            for c in p_.conds:
                t = c[1]
                if c[0][0] == "switch" and t[0] == "bin" and t[2] == ("arg", 1) and const_of(t[3]) == -(1 << 31):
                    if (t[1] == "Eq" and c[2] == 0) or (t[1] == "Ne" and c[2] != 0) or (t[1] == "Gt" and c[2] != 0):
                        tested = True
            if not tested:
                bad += 1
        chk.expect(bad == 0, name, "LocalTimeType::%s builds a value on %d of %d paths without having excluded ut_offset == i32::MIN" % (name, bad, len(oks)), loc=P.loc(fn))


def r_footer(chk, P, tier):
    """a version 2/3 file has a footer (RFC 8536 3.3): every accepting path of parse() that read the 64-bit block goes through the footer checks
    (UTF-8, enclosed in new-lines), a missing footer is not silently treated as `no rule`"""
    chk.rule("DOM.footer", "in the version 2/3 arm of parse() (the blocks dominated by the second State::new) the footer is always Some(rest of input), so it reaches the UTF-8 / new-line tests", floor=1)
    fn = T + "parser::parse"
    cfg = P.cfg(fn)
    calls = P.calls(fn)
    st_new = [bi for bi, t, cs in calls if any(c.endswith("parser::State::<'a>::new") for c in cs)]
    utf8 = [bi for bi, t, cs in calls if any(c.endswith("str::from_utf8") or c.endswith("str::converts::from_utf8") for c in cs)]
    tznew = [bi for bi, t, cs in calls if any(c.endswith("timezone::TimeZone::new") for c in cs)]
    if len(st_new) < 2 or not tznew:
        raise AnchorLost("parse(): State::new x%d, TimeZone::new x%d" % (len(st_new), len(tznew)))
    # the second (64-bit) State::new is the one reached from the first
    second = [b for b in st_new if any(a != b and cfg.reaches_without(a, {b}, set()) for a in st_new)]
    if not second:
        raise AnchorLost("parse(): no State::new reachable from another")
    mir = P.fn(fn)["mir"]
    for b in second:
        region = [d for d in range(len(mir["blocks"])) if d in cfg.reach and cfg.dominates(b, d) and d != b]
        somes = nones = 0
        for d in region:
            for st in mir["blocks"][d]["s"]:
                if st["k"] == "assign" and st["rv"]["k"] == "agg" and st["rv"].get("adt") == "std::option::Option":
                    ty = P.ty_s(mir["locals"][st["pl"]["l"]]) if not st["pl"]["p"] else ""
                    if "[u8]" in ty:
                        if st["rv"].get("variant") == "Some":
                            somes += 1
                        else:
                            nones += 1
        chk.expect(somes >= 1 and nones == 0, "footer present", "in the version 2/3 arm of parse() the footer is %s (it must always be Some(rest of the input): a missing footer is rejected by the new-line test, not "
                   "treated as `no rule`)" % ("set to None on some path" if nones else "never set"), loc=P.loc(fn))


def r_validate_cover(chk, P, tier):
    """The bounds justifications of both lookups rest on: validate() checked EVERY transition's type index. Recognised proof shape:
    a counting loop c = 0; while c < transitions.len() { if transitions[c].local_time_type_index >= local_time_types.len() { return Err }; ..; c += 1 }
    whose only other exits are Err returns, the check dominating the increment."""
    from rules import counted_loops, _copies, _root, _def_of, _slice_origin
    chk.rule("COVER.validate", "validate() range-checks the type index of every transition: counting loop from 0 by 1 to transitions.len(), the check `index >= local_time_types.len() => Err` "
                               "dominates the increment, every other loop exit returns Err; and rejects an empty type list first", floor=9)
    fn = T + "timezone::TimeZoneRef::<'a>::validate"
    mir = P.fn(fn)["mir"]
    cfg = P.cfg(fn)
    copies = _copies(mir)
    zr = [f["name"] for f in P.adts[T + "timezone::TimeZoneRef"]["variants"][0]["fields"]]
    trf = [f["name"] for f in P.adts[T + "timezone::Transition"]["variants"][0]["fields"]]
    f_tr, f_ltt, f_idx = zr.index("transitions"), zr.index("local_time_types"), trf.index("local_time_type_index")
    loops = [l for l in counted_loops(P, fn) if l["slice"] == (1, (f_tr,))]
    chk.expect(len(loops) == 1 and loops[0]["ok"], "counting loop over transitions", "no loop of the shape `c = 0; while c < self.transitions.len() { ..; c += 1 }` found in validate() "
               "(a different traversal needs a fresh review of the bounds justifications in both lookups)", loc=P.loc(fn))
    if len(loops) != 1:
        return
    L = loops[0]

    def err_block(b):
        return any(st["k"] == "assign" and st["pl"]["l"] == 0 and not st["pl"]["p"] and st["rv"]["k"] == "agg" and st["rv"].get("variant") == "Err" for st in mir["blocks"][b]["s"])
    chk.expect(all(err_block(y) for x, y in L["other_exits"]), "other loop exits return Err", "the transition loop of validate() can be left other than through its guard or an Err return", loc=P.loc(fn))

    def len_of_types(l):
        d = _def_of(mir, _root(copies, l))
        if d and d[1].get("k") == "call" and (d[1]["callee"].get("resolved") or "").endswith("<impl [T]>::len"):
            a = d[1]["args"][0]
            return a["k"] in ("copy", "move") and _slice_origin(mir, copies, a["pl"]) == (1, (f_ltt,))
        return False

    def is_elem_index(l):
        d = _def_of(mir, _root(copies, l))
        if not d or d[1].get("k") != "assign" or d[1]["rv"]["k"] != "use" or d[1]["rv"]["x"]["k"] not in ("copy", "move"):
            return False
        pl = d[1]["rv"]["x"]["pl"]
        proj = [e for e in pl["p"] if e != "*"]
        if len(proj) != 2 or proj[0][0] != "i" or proj[1][0] != "f" or proj[1][1] != f_idx:
            return False
        if _root(copies, proj[0][1]) != L["counter"]:
            return False
        return _slice_origin(mir, copies, {"l": pl["l"], "p": []}) == (1, (f_tr,))
    found = None
    for b in sorted(L["body"]):
        t = mir["blocks"][b]["t"]
        if t["k"] != "switch" or t["discr"]["k"] not in ("copy", "move"):
            continue
        d = _def_of(mir, t["discr"]["pl"]["l"])
        if not d or d[1].get("k") != "assign" or d[1]["rv"]["k"] != "bin":
            continue
        op, l_, r_ = d[1]["rv"]["op"], d[1]["rv"]["l"], d[1]["rv"]["r"]
        if l_["k"] not in ("copy", "move") or r_["k"] not in ("copy", "move"):
            continue
        a, b_ = l_["pl"]["l"], r_["pl"]["l"]
        zero = [tg for v, tg in t["targets"] if v == 0]
        false_t = zero[0] if zero else None
        true_t = t["otherwise"]
        # which successor is taken exactly when  elem >= len
        if op == "Ge" and is_elem_index(a) and len_of_types(b_):
            bad_t = true_t
        elif op == "Lt" and is_elem_index(a) and len_of_types(b_):
            bad_t = false_t
        elif op == "Le" and is_elem_index(b_) and len_of_types(a):
            bad_t = true_t
        elif op == "Gt" and is_elem_index(b_) and len_of_types(a):
            bad_t = false_t
        else:
            continue
        if bad_t is not None and bad_t not in L["body"] and err_block(bad_t) and cfg.dominates(b, L["incr"]):
            found = b
    chk.expect(found is not None, "index check dominates the increment", "validate() has no check `transitions[c].local_time_type_index >= local_time_types.len() => Err` on the loop counter that "
               "dominates `c += 1` (some transition's type index may stay unchecked; the lookups index local_time_types with it)", loc=P.loc(fn))
    # non-empty type list: a return Err guarded by len(local_time_types) == 0 that dominates the loop
    ok = False
    for b, blk in enumerate(mir["blocks"]):
        t = blk["t"]
        if blk.get("cleanup") or t["k"] != "switch" or t["discr"]["k"] not in ("copy", "move"):
            continue
        d = _def_of(mir, t["discr"]["pl"]["l"])
        if d and d[1].get("k") == "assign" and d[1]["rv"]["k"] == "bin" and d[1]["rv"]["op"] == "Eq":
            l_, r_ = d[1]["rv"]["l"], d[1]["rv"]["r"]
            if l_["k"] in ("copy", "move") and len_of_types(l_["pl"]["l"]) and r_["k"] == "const" and r_.get("v") == 0:
                if err_block(t["otherwise"]) and cfg.dominates(b, L["head"]):
                    ok = True
    chk.expect(ok, "empty type list rejected first", "validate() does not reject an empty local_time_types list before the transition loop (`local_time_types[0]` is read by the lookups)", loc=P.loc(fn))
    # the lookups index local_time_types only with 0 or a transition's local_time_type_index (the validated quantities)
    n = 0
    for lk in ("find_local_time_type", "find_local_time_type_from_local"):
        f2 = T + "timezone::TimeZoneRef::<'a>::" + lk
        m2 = P.fn(f2)["mir"]
        cp2 = _copies(m2)
        for blk in m2["blocks"]:
            if blk.get("cleanup"):
                continue
            for st in blk["s"]:
                pls = []
                from rules import _places_of
                _places_of(st, pls)
                for pl in pls:
                    proj = [e for e in pl["p"] if e != "*"]
                    for k, e in enumerate(proj):
                        if e[0] == "i" and _slice_origin(m2, cp2, {"l": pl["l"], "p": []}) == (1, (f_ltt,)):
                            n += 1
                            root = _root(cp2, e[1])
                            defs = [st2 for blk2 in m2["blocks"] if not blk2.get("cleanup") for st2 in blk2["s"]
                                    if st2["k"] == "assign" and not st2["pl"]["p"] and st2["pl"]["l"] == root]
                            src_ok = bool(defs)
                            for st2 in defs:
                                good = False
                                if st2["rv"]["k"] == "use":
                                    x = st2["rv"]["x"]
                                    if x["k"] == "const" and x.get("v") == 0:
                                        good = True
                                    elif x["k"] in ("copy", "move"):
                                        pj = [q for q in x["pl"]["p"] if q != "*"]
                                        good = bool(pj) and pj[-1][0] == "f" and pj[-1][1] == f_idx
                                src_ok = src_ok and good
                            chk.expect(src_ok, "%s index #%d" % (lk, n), "%s indexes local_time_types with something other than 0 or a transition's local_time_type_index" % lk, loc=P.loc(f2, st.get("ln")))


def r_capacity(chk, P, tier):
    chk.rule("ALLOC.capacity", "Vec::with_capacity in parse() is called with header counts that State::new charged against the input", floor=3)
    hdr = [f["name"] for f in P.adts[T + "parser::Header"]["variants"][0]["fields"]]
    charged = {"transition_count", "type_count", "leap_count", "char_count", "std_wall_count", "ut_local_count"}
    fn = T + "parser::parse"
    f = P.fn(fn)
    n = 0
    for bi, t, cs in P.calls(fn):
        if any(c.endswith("::with_capacity") for c in cs):
            n += 1
            a = t["args"][0]
            ok = False
            name = None
            if a["k"] in ("copy", "move"):
                # the operand must be (a copy of) state.header.<count>
                pl = _origin_place(f["mir"], a["pl"])
                fields = [e[1] for e in pl["p"] if e != "*" and e[0] == "f"]
                if len(fields) >= 2 and fields[-2] == 0 and fields[-1] < len(hdr):
                    name = hdr[fields[-1]]
                    ok = name in charged
            chk.expect(ok, "with_capacity #%d" % n, "Vec::with_capacity argument is not a header count charged by State::new (%s)" % name, loc=P.loc(fn, t["ln"]))
    chk.expect(n >= 3, "sites", "only %d with_capacity sites in parse()" % n)


def _origin_place(mir, pl, depth=0):
    if pl["p"] or depth > 4:
        return pl
    l = pl["l"]
    defs = [st for b in mir["blocks"] if not b.get("cleanup") for st in b["s"] if st["k"] == "assign" and st["pl"]["l"] == l and not st["pl"]["p"]]
    if len(defs) == 1 and defs[0]["rv"]["k"] == "use" and defs[0]["rv"]["x"]["k"] in ("copy", "move"):
        return _origin_place(mir, defs[0]["rv"]["x"]["pl"], depth + 1)
    return pl


def r_header_consts(chk, P, tier):
    chk.rule("MATCH.header", "magic is `TZif`, version bytes 0 / '2' / '3' map to V1 / V2 / V3, DST indicator 0/1 only", floor=2)
    fn = T + "parser::Header::new"
    strs = set()
    f = P.fn(fn)
    from core import operands_of_block
    for b in f["mir"]["blocks"]:
        for op in operands_of_block(b):
            if op.get("k") == "const" and isinstance(op.get("v"), (str, list)):
                v = op["v"]
                strs.add(v if isinstance(v, str) else bytes(x for x in v if isinstance(x, int)).decode("latin1"))
    chk.expect("TZif" in strs, "magic", "magic constant TZif not found in Header::new (found %s)" % sorted(strs)[:5], loc=P.loc(fn))
    vers = {}
    for p in Sym(P, fn).paths():
        if p.end[0] != "return" or result_variant(p.ret)[0] != "Ok":
            continue
        v = p.ret[4][0][4][0]
        sw = [c for c in p.conds if c[0][0] == "switch" and not isinstance(c[2], tuple) and c[2] in (0, 50, 51) and any(x[0] == "index" for x in walk_terms(c[1]))]
        if v[0] == "agg" and sw:
            vers[sw[-1][2]] = v[3]
    chk.expect(vers == {0: "V1", 50: "V2", 51: "V3"}, "versions", "version byte mapping %s" % vers, loc=P.loc(fn))


def r_footer_extensions(chk, P, tier):
    """the footer grammar extensions (signed / beyond-24 h rule times) belong to version 3 files only (RFC 8536 3.3.1): the flag handed to
    TransitionRule::from_tz_string is `version == V3`. Two spellings are read: the derived `==` with the V3 constant, and a match on the
    version's discriminant that selects a constant flag; any other spelling is left undecided (recorded as an assumption, no alarm)."""
    chk.rule("WHO.footer_extensions", "parser::parse enables the footer-string extensions for Version::V3 and for no other version", floor=1)
    fn = T + "parser::parse"
    FT = T + "rule::TransitionRule::from_tz_string"
    verdicts, unknown = set(), 0
    for p in Sym(P, fn).paths():
        for c in p.calls:
            if c[1] != FT:
                continue
            a = c[2][1]
            if is_call(a, suffix="parser::Version as std::cmp::PartialEq>::eq"):
                vs = [x[1][1][1] for x in walk_terms(a) if x[0] == "const" and isinstance(x[1], tuple) and len(x[1]) > 1 and x[1][0] == ("adt", T + "parser::Version")]
                verdicts.add(("eq", tuple(vs)))
            elif a[0] == "const" and isinstance(a[1], bool):
                sw = [k for k in p.conds if k[0][0] == "switch" and k[1][0] == "discr"
                      and any(is_call(x, suffix="parser::State::<'a>::new") and x[2][1] == ("const", False) for x in walk_terms(k[1]))]
                if not sw:
                    unknown += 1
                    continue
                v = sw[-1][2]
                if isinstance(v, tuple):       # ('else', excluded values)
                    is_v3 = None if 2 not in v[1] else False
                else:
                    is_v3 = (v == 2)
                verdicts.add(("switch", a[1], is_v3))
            else:
                unknown += 1
    if not verdicts and not unknown:
        raise AnchorLost("parser::parse does not call from_tz_string")
    if unknown and not verdicts:
        chk.assume("the footer-extension flag of parser::parse is computed in a form this rule does not read; not decided")
        return
    bad = [v for v in verdicts if (v[0] == "eq" and v[1] != ("V3",)) or (v[0] == "switch" and (v[2] is None or v[1] != v[2]))]
    chk.expect(not bad, "flag", "parser::parse enables footer extensions for other versions than V3: %s" % sorted(map(str, bad)), loc=P.loc(fn))


def r_errors_kept(chk, P, tier):
    """error discipline of the acceptance path: in validate(), TimeZone::new and parser::parse an Err from an in-crate Result-returning callee is never
    turned into acceptance (no path that saw such an Err returns Ok). from_posix_tz, which legitimately falls back from a failed file lookup, is not in the list."""
    chk.rule("ERR.kept", "validate(), TimeZone::new and parser::parse: no path on which an in-crate callee returned Err ends in Ok", floor=3)
    for fn in (T + "timezone::TimeZoneRef::<'a>::validate", T + "timezone::TimeZone::new", T + "parser::parse"):
        bad = set()
        n = 0
        for p in Sym(P, fn).paths():
            # accepting path: returns Ok(..) or hands back another constructor's result (parse ends in TimeZone::new(..))
            if p.end[0] != "return" or p.ret is None or result_variant(p.ret)[0] == "Err":
                continue
            n += 1
            for k in p.conds:
                if k[0][0] == "switch" and k[1][0] == "discr" and k[1][1][0] == "call" and isinstance(k[1][1][1], str) and k[2] == 1:
                    f = P.fns.get(k[1][1][1])
                    if f and isinstance(f.get("ret"), int) and P.ty_s(f["ret"]).startswith("std::result::Result<"):
                        bad.add(k[1][1][1].split("::")[-1])
        if not n:
            raise AnchorLost(fn + " has no Ok path")
        chk.expect(not bad, fn.split("::")[-1], "%s returns Ok on a path where %s returned Err (the error is swallowed)" % (fn, sorted(bad)), loc=P.loc(fn))


def r_header_counts(chk, P, tier):
    """the header is accepted only with type_count != 0, char_count != 0 and each of the two optional indicator counts either 0 or equal to type_count
    (RFC 8536 3.1). Decided on the path conditions of every Ok path of Header::new: for each count the (in)equality that the clause needs must hold
    on that path for THAT count (the terms are identified through the fields of the returned Header)"""
    chk.rule("GUARD.header_counts", "every Ok path of Header::new has tested type_count != 0, char_count != 0, and for each of ut_local_count / std_wall_count: == 0 or == type_count", floor=4)
    fn = T + "parser::Header::new"
    hdr = [f["name"] for f in P.adts[T + "parser::Header"]["variants"][0]["fields"]]
    oks = [p for p in Sym(P, fn).paths() if p.end[0] == "return" and result_variant(p.ret)[0] == "Ok"]
    if not oks:
        raise AnchorLost("Header::new has no Ok path")

    def core(t):
        while t[0] == "cast":
            t = t[1]
        return t

    def truth(c):
        v = c[2]
        return (v != 0) if not isinstance(v, tuple) else (v[0] == "else" and 0 in v[1])
    fails = {}
    for p in oks:
        agg = p.ret[4][0]
        term = {n: core(agg[4][hdr.index(n)]) for n in ("ut_local_count", "std_wall_count", "type_count", "char_count")}
        eq, ne = set(), set()       # pairs known equal / known different on this path
        for c in p.conds:
            if c[0][0] != "switch" or c[1][0] != "bin" or c[1][1] not in ("Eq", "Ne"):
                continue
            a, b = core(c[1][2]), core(c[1][3])
            same = truth(c) == (c[1][1] == "Eq")
            (eq if same else ne).add((a, b))
            (eq if same else ne).add((b, a))
        zero = lambda t: any(x == t and const_of(y) == 0 for x, y in eq)
        nonzero = lambda t: any(x == t and const_of(y) == 0 for x, y in ne)
        for n in ("type_count", "char_count"):
            if not nonzero(term[n]):
                fails.setdefault(n + " != 0", 0)
                fails[n + " != 0"] += 1
        for n in ("ut_local_count", "std_wall_count"):
            if not (zero(term[n]) or (term[n], term["type_count"]) in eq):
                fails.setdefault(n + " in {0, type_count}", 0)
                fails[n + " in {0, type_count}"] += 1
    for k in ("type_count != 0", "char_count != 0", "ut_local_count in {0, type_count}", "std_wall_count in {0, type_count}"):
        chk.expect(k not in fails, k, "Header::new returns Ok on %d of %d paths on which `%s` was not established" % (fails.get(k, 0), len(oks), k), loc=P.loc(fn))


def r_tz_string_consumed(chk, P, tier):
    """a TZ rule string is accepted only if nothing follows the rule: on every Ok path of TransitionRule::from_tz_string, after the last call that advances the
    cursor (a callee taking `&mut Cursor`), cursor.is_empty() is tested and holds"""
    chk.rule("DOM.tz_string_consumed", "every Ok path of from_tz_string ends with cursor.is_empty() holding after the last cursor-advancing call", floor=2)
    fn = T + "rule::TransitionRule::from_tz_string"
    oks = [p for p in Sym(P, fn).paths() if p.end[0] == "return" and result_variant(p.ret)[0] == "Ok"]
    if not oks:
        raise AnchorLost("from_tz_string has no Ok path")

    def advances(c):
        if not (isinstance(c[1], str) and P.has(c[1])):
            return False
        return any(P.ty_s(i).startswith("&mut") and "Cursor" in P.ty_s(i) for i in P.fn(c[1]).get("inputs", []))

    def truth(c):
        v = c[2]
        return (v != 0) if not isinstance(v, tuple) else (v[0] == "else" and 0 in v[1])
    kinds = {}
    for p in oks:
        adv = [i for i, c in enumerate(p.calls) if advances(c)]
        emp = [i for i, c in enumerate(p.calls) if isinstance(c[1], str) and c[1].endswith("Cursor::<'a>::is_empty")]
        if not adv:
            raise AnchorLost("from_tz_string: an Ok path without cursor-advancing calls")
        good = False
        if emp and emp[-1] > adv[-1]:
            call = p.calls[emp[-1]]
            for c in p.conds:
                if c[0][0] == "switch" and c[1] == call:
                    good = truth(c)
                elif c[0][0] == "switch" and c[1][0] == "un" and c[1][1] == "Not" and c[1][2] == call:
                    good = not truth(c)
        shape = "Alternate" if len(adv) > 3 else "Fixed"
        kinds.setdefault(shape, []).append(good)
    for shape in ("Fixed", "Alternate"):
        if shape not in kinds:
            raise AnchorLost("from_tz_string: no Ok path of the %s form" % shape)
        chk.expect(all(kinds[shape]), shape, "from_tz_string returns Ok for the %s form on %d of %d paths without having found the cursor empty after the last parsing step (trailing data accepted)" % (
            shape, kinds[shape].count(False), len(kinds[shape])), loc=P.loc(fn))


def r_hms_weights(chk, P, tier):
    """hh[:mm[:ss]] of a TZ rule is hours * 3600 + minutes * 60 + seconds with the components in the order the scanner returns them: in parse_offset, parse_rule_time and
    parse_rule_time_extended the returned value is a linear form over the fields of the scanned tuple with weights 3600 / 60 / 1 on (hour, minute, second) = the last three
    tuple fields in order (the signed scanner puts the sign first)"""
    chk.rule("SHAPE.hms_weights", "parse_offset / parse_rule_time / parse_rule_time_extended weigh the scanned (hour, minute, second) with 3600 / 60 / 1 in that order", floor=3)

    def lin(t):
        """{tuple field index: coefficient} of a term over the fields of one scanned tuple, ignoring a multiplication by the sign field"""
        if t[0] == "field" and t[2] == 0 and t[1][0] == "bin" and t[1][1].endswith("WithOverflow"):
            t = ("bin", t[1][1][:-12], t[1][2], t[1][3])
        if t[0] in ("const", "named") and isinstance(const_of(t), int):
            return ({}, const_of(t))
        if t[0] == "field" and t[1][0] == "field" and t[1][2] == 0 and t[1][1][0] == "as":
            return ({t[2]: 1}, 0)         # ((branch(..) as Continue).0).k
        if t[0] == "bin" and t[1] in ("Add", "Mul"):
            a, b = lin(t[2]), lin(t[3])
            if a is None or b is None:
                return None
            if t[1] == "Add":
                d = dict(a[0])
                for k, v in b[0].items():
                    d[k] = d.get(k, 0) + v
                return (d, a[1] + b[1])
            if not a[0]:
                return ({k: v * a[1] for k, v in b[0].items()}, a[1] * b[1])
            if not b[0]:
                return ({k: v * b[1] for k, v in a[0].items()}, a[1] * b[1])
            # sign * (linear form): the sign is the single field with coefficient 1 on one side
            for x, y in ((a, b), (b, a)):
                if len(x[0]) == 1 and list(x[0].values()) == [1] and x[1] == 0 and list(x[0])[0] == 0:
                    return (dict(y[0]), y[1])
        return None
    for fn, first in (("parse_offset", 1), ("parse_rule_time", 0), ("parse_rule_time_extended", 1)):
        f = T + "rule::" + fn
        oks = [p.ret[4][0] for p in Sym(P, f).paths() if p.end[0] == "return" and result_variant(p.ret)[0] == "Ok"]
        if not oks:
            raise AnchorLost(fn + ": no Ok path")
        forms = {repr(lin(t)) for t in oks}
        want = ({first: 3600, first + 1: 60, first + 2: 1}, 0)
        chk.expect(forms == {repr(want)}, fn, "%s returns %s over the scanned tuple's fields (expected {hour: 3600, minute: 60, second: 1} = %s)" % (fn, sorted(forms), want), loc=P.loc(f))


def r_validate_leaps(chk, P, tier):
    """A zone is accepted only after its leap-second table was checked: in validate() the counting loop over self.leap_seconds (and the first-record test before it) lies on
    every way to an Ok return - no early Ok before it (e.g. for zones without transitions)"""
    from rules import counted_loops
    chk.rule("DOM.validate_leaps", "in validate() the head of the counting loop over leap_seconds dominates every block that returns Ok", floor=2)
    fn = T + "timezone::TimeZoneRef::<'a>::validate"
    mir = P.fn(fn)["mir"]
    cfg = P.cfg(fn)
    zr = [f["name"] for f in P.adts[T + "timezone::TimeZoneRef"]["variants"][0]["fields"]]
    f_ls = zr.index("leap_seconds")
    loops = [l for l in counted_loops(P, fn) if l["slice"] == (1, (f_ls,))]
    head = loops[0]["head"] if len(loops) == 1 and loops[0]["ok"] else None
    if head is None:
        # second idiom: an iterator over the table (`for pair in self.leap_seconds.windows(2)`, `.iter()`): the block that creates it takes the loop head's place
        from rules import _copies, _slice_origin
        copies = _copies(mir)
        for b, blk in enumerate(mir["blocks"]):
            t = blk["t"]
            if blk.get("cleanup") or t["k"] != "call" or not t["args"]:
                continue
            name = t["callee"].get("resolved") or t["callee"].get("def") or ""
            a = t["args"][0]
            if name.split("::")[-1] in ("windows", "iter", "chunks", "array_windows") and a.get("k") in ("copy", "move") and _slice_origin(mir, copies, a["pl"]) == (1, (f_ls,)):
                head = b
    chk.expect(head is not None, "loop over leap_seconds", "no loop over self.leap_seconds found in validate() (neither a counting loop nor windows() / iter())", loc=P.loc(fn))
    if head is None:
        return
    oks = [b for b, blk in enumerate(mir["blocks"]) if not blk.get("cleanup") and any(
        st["k"] == "assign" and st["pl"]["l"] == 0 and not st["pl"]["p"] and st["rv"]["k"] == "agg" and st["rv"].get("variant") == "Ok" for st in blk["s"])]
    if not oks:
        raise AnchorLost("validate(): no Ok return found")
    early = [b for b in oks if not cfg.dominates(head, b)]
    chk.expect(not early, "every Ok after the leap-second loop", "validate() returns Ok in %d of %d places that are not behind the leap-second checks (line %s)" % (
        len(early), len(oks), [mir["blocks"][b]["s"][-1].get("ln") for b in early][:3]), loc=P.loc(fn))
