"""C01 — calendar, ordinal, ISO-week and day-count forms agree (tables, constants, layout, derives)."""
import calendar_oracle as cal
from core import Prog
from sym import Sym, pp, walk_terms, const_of, thaw
from rules import (table_value, extract_switch_map, consts_in_fn, derived_impls, fields_private)

ND = "naive::date::NaiveDate"
INT = "naive::internals"


def flags_of(cell):
    return cell["fields"]["0"] if isinstance(cell, dict) else cell


def run(chk, tier):
    P = Prog("default")
    chk.configs.add("default")
    chk.guarded(r_year_to_flags, P)
    chk.guarded(r_mdl_ol, P)
    chk.guarded(r_year_deltas, P)
    chk.guarded(r_flag_functions, P)
    chk.guarded(r_layout_consts, P)
    chk.guarded(r_derives, P)
    chk.guarded(r_weekday_match, P)
    chk.guarded(r_daycount_consts, P)
    chk.guarded(r_isoweek, P)
    chk.assume("the branchy arithmetic that combines the verified tables (from_isoywd_opt spill, cycle_to_yo, succ/pred rollover) "
               "is not decided here")
    return {
        "explanation": "Static table/constant/layout rules for C01: YEAR_TO_FLAGS (400 cells), MDL_TO_OL/OL_TO_MDL (both directions, "
                       "mutual inverse), YEAR_DELTAS, the 53-week literal and the ndays/isoweek_delta constants are compared cell by cell "
                       "with an independent proleptic Gregorian oracle (specs/tables/calendar_oracle.py, itself cross-checked against "
                       "Python datetime for years 1..9999); packed-date layout constants, MIN/MAX/BEFORE_MIN/AFTER_MAX decoded from the "
                       "compiler-evaluated consts; equality/order/hash derived over the single packed field; weekday match table; "
                       "day-count constants (146097, 400, 365, 1461) in every function that converts dates and day numbers.",
        "trusted_base": ["rustc const evaluation (table values)", "specs/tables/calendar_oracle.py", "MIR as emitted by rustc nightly at -Zmir-opt-level=0"],
    }


def r_year_to_flags(chk, P):
    chk.rule("TBL.flags", "YEAR_TO_FLAGS[y] encodes leap(y) and the weekday of 1 January for every y in 0..400", floor=400)
    tbl = table_value(P, INT + "::YEAR_TO_FLAGS")
    chk.expect(len(tbl) == 400, "len", "YEAR_TO_FLAGS has %d cells, expected 400" % len(tbl))
    for y, cell in enumerate(tbl[:400]):
        f = flags_of(cell)
        common = (f >> 3) & 1
        k = f & 7
        ok = (f < 16) and (common == (0 if cal.leap(y) else 1)) and ((1 + k) % 7 == cal.weekday(y, 1, 1)) and k != 0
        chk.expect(ok, "YEAR_TO_FLAGS[%d]" % y,
                   "cell %d = %#o: leap bit / weekday bits disagree with the Gregorian calendar (leap=%s, 1 Jan weekday=%d)" % (
                       y, f, cal.leap(y), cal.weekday(y, 1, 1)), loc=P.loc(INT + "::YEAR_TO_FLAGS"))
    # the 14 named dominical classes
    chk.rule("TBL.classes", "named year classes A..GF have distinct valid encodings and all occur in the table", floor=14)
    names = ["A", "AG", "B", "BA", "C", "CB", "D", "DC", "E", "ED", "F", "FE", "G", "GF"]
    used = {flags_of(c) for c in tbl}
    vals = {}
    for n in names:
        v = flags_of(P.value(INT + "::" + n))
        vals[n] = v
        leapflag = len(n) == 2
        chk.expect(v in used and ((v >> 3) & 1) == (0 if leapflag else 1), "class " + n,
                   "class %s = %#o is not used by the table or has the wrong leap bit" % (n, v))
    chk.expect(len(set(vals.values())) == 14 and used == set(vals.values()), "classes-distinct", "named classes are not 14 distinct values covering the table")


def r_mdl_ol(chk, P):
    chk.rule("TBL.mdl_ol", "MDL_TO_OL / OL_TO_MDL cells equal the month-day <-> ordinal offsets of the calendar; zero exactly on non-dates", floor=832 + 734)
    mdl_to_ol = table_value(P, INT + "::MDL_TO_OL")
    ol_to_mdl = table_value(P, INT + "::OL_TO_MDL")
    max_mdl = P.value(INT + "::MAX_MDL")
    max_ol = P.value(INT + "::MAX_OL")
    chk.expect(max_mdl == ((12 << 6) | (31 << 1) | 1) and len(mdl_to_ol) == max_mdl + 1, "MAX_MDL", "MAX_MDL/len(MDL_TO_OL) = %s/%d" % (max_mdl, len(mdl_to_ol)))
    chk.expect(max_ol == (366 << 1) and len(ol_to_mdl) == max_ol + 1, "MAX_OL(internals)", "MAX_OL/len(OL_TO_MDL) = %s/%d" % (max_ol, len(ol_to_mdl)))
    # representative years: common (bit=1) 2023, leap (bit=0) 2024
    year_of = {1: 2023, 0: 2024}
    exp_ol = {}
    for mdl in range(len(mdl_to_ol)):
        m, d, c = mdl >> 6, (mdl >> 1) & 31, mdl & 1
        y = year_of[c]
        valid = 1 <= m <= 12 and 1 <= d <= cal.days_in_month(y, m)
        if valid:
            ol = (cal.ordinal(y, m, d) << 1) | c
            exp = mdl - ol
            exp_ol[ol] = exp
        else:
            exp = 0
        chk.expect(mdl_to_ol[mdl] == exp, "MDL_TO_OL[%d]" % mdl,
                   "MDL_TO_OL[%d] (month %d, day %d, %s year) = %d, calendar says %d" % (mdl, m, d, "common" if c else "leap", mdl_to_ol[mdl], exp),
                   loc=P.loc(INT + "::MDL_TO_OL"))
    worst = 0
    for ol in range(len(ol_to_mdl)):
        exp = exp_ol.get(ol, 0)
        chk.expect(ol_to_mdl[ol] == exp, "OL_TO_MDL[%d]" % ol,
                   "OL_TO_MDL[%d] (ordinal %d, %s year) = %d, calendar says %d" % (ol, ol >> 1, "common" if ol & 1 else "leap", ol_to_mdl[ol], exp),
                   loc=P.loc(INT + "::OL_TO_MDL"))
        worst = max(worst, ol + ol_to_mdl[ol])
    chk.rule("TBL.mdl_ol_side", "side facts used by range arguments: max(ol + OL_TO_MDL[ol]) <= MAX_MDL; offsets fit i8/u8", floor=2)
    chk.expect(worst <= max_mdl, "ol+OL_TO_MDL<=MAX_MDL", "max(ol + OL_TO_MDL[ol]) = %d exceeds MAX_MDL = %d" % (worst, max_mdl))
    chk.expect(all(0 <= v < 128 for v in mdl_to_ol) and all(0 <= v < 256 for v in ol_to_mdl), "offset-width", "offset does not fit its cell type")


def r_year_deltas(chk, P):
    chk.rule("TBL.year_deltas", "YEAR_DELTAS[y] = leap days in years [0, y) of the 400-year cycle", floor=401)
    t = table_value(P, "naive::date::YEAR_DELTAS")
    chk.expect(len(t) == 401, "len", "YEAR_DELTAS has %d cells, expected 401" % len(t))
    for y, v in enumerate(t[:401]):
        chk.expect(v == cal.leap_days_before(y), "YEAR_DELTAS[%d]" % y, "YEAR_DELTAS[%d] = %d, calendar says %d" % (y, v, cal.leap_days_before(y)),
                   loc=P.loc("naive::date::YEAR_DELTAS"))


def _flag_examples(P):
    """flags value -> a representative year (0..400) carrying it"""
    tbl = table_value(P, INT + "::YEAR_TO_FLAGS")
    ex = {}
    for y, c in enumerate(tbl):
        ex.setdefault(flags_of(c), y)
    return ex


def r_flag_functions(chk, P):
    """ndays / isoweek_delta / nisoweeks as finite maps over the 14 year classes (abstract evaluation
    of the function body over the finite flags domain), compared with the calendar"""
    from finmap import finite_map
    ex = _flag_examples(P)
    chk.rule("MAP.yearflags", "ndays, nisoweeks, isoweek_delta evaluated over the 14 year classes equal the calendar's values", floor=42)
    for fname, oracle in (
        ("ndays", lambda y: cal.days_in_year(y)),
        ("nisoweeks", lambda y: cal.iso_weeks_in_year(y)),
        # isoweek_delta = number of days of week 1's Monday..: ordinal = week*7 + weekday_num_from_mon0 - delta, so
        # delta = 7 + weekday(1 Jan) - ... derived: for ISO week 1 day Mon (week=1, wd=0): ordinal = 7 - delta must be the
        # ordinal of the Monday of ISO week 1, which is 1 - weekday(4 Jan) + 3 ... computed by the oracle below
        ("isoweek_delta", lambda y: 7 - _monday_of_week1_ordinal(y)),
    ):
        path = INT + "::YearFlags::" + fname
        fm = finite_map(P, path, {"*arg1.0": sorted(ex)})
        for f, y in sorted(ex.items()):
            got = fm.get((f,))
            chk.expect(got == oracle(y), "%s(%#o)" % (fname, f),
                       "%s for year class %#o (e.g. year %d) is %s, calendar says %s" % (fname, f, y, got, oracle(y)), loc=P.loc(path))


def _monday_of_week1_ordinal(y):
    # ordinal (may be <= 0) of the Monday of ISO week 1 of year y: week 1 contains 4 January
    wd4 = cal.weekday(y, 1, 4)
    return 4 - wd4


def r_layout_consts(chk, P):
    chk.rule("CONST.layout", "packed date layout constants and range ends decode to the documented values", floor=12)
    v = lambda n: P.value("naive::date::" + n)  # noqa
    exp = {
        "MIN_YEAR": (-(1 << 31) >> 13) + 1, "MAX_YEAR": (((1 << 31) - 1) >> 13) - 1,
        "ORDINAL_MASK": 0x1ff << 4, "LEAP_YEAR_MASK": 8, "WEEKDAY_FLAGS_MASK": 7, "OL_MASK": (0x1ff << 4) | 8,
        "MAX_OL": 366 << 4, "YEAR_FLAGS_MASK": 15,
    }
    for n, e in exp.items():
        chk.expect(v(n) == e, n, "%s = %s, expected %s" % (n, v(n), e), loc=P.loc("naive::date::" + n))
    tbl = table_value(P, INT + "::YEAR_TO_FLAGS")

    def dec(name):
        val = P.value(ND + "::" + name)
        yof = _int_leaf(val)
        return yof >> 13, (yof >> 4) & 0x1ff, yof & 15

    miny, maxy = exp["MIN_YEAR"], exp["MAX_YEAR"]
    for name, (y, o) in {"MIN": (miny, 1), "MAX": (maxy, cal.days_in_year(maxy % 400 + 400)),
                         "BEFORE_MIN": (miny - 1, cal.days_in_year((miny - 1) % 400 + 400)), "AFTER_MAX": (maxy + 1, 1)}.items():
        got = dec(name)
        want = (y, o, flags_of(tbl[y % 400]))
        chk.expect(got == want, "NaiveDate::" + name, "NaiveDate::%s decodes to (year, ordinal, flags) = %s, expected %s" % (name, got, want),
                   loc=P.loc(ND + "::" + name))


def _int_leaf(v):
    while isinstance(v, dict):
        if "fields" in v:
            v = list(v["fields"].values())[0]
        elif "tuple" in v:
            v = v["tuple"][0]
        else:
            break
    return v


def r_derives(chk, P):
    chk.rule("DERIVE", "equality, order and hash of NaiveDate / IsoWeek are derived over the single packed field (year in the high bits)", floor=12)
    for ty, field in ((ND, "yof"), ("naive::isoweek::IsoWeek", "ywf")):
        fs = P.adts[ty]["variants"][0]["fields"]
        chk.expect([f["name"] for f in fs] == [field], ty + " fields", "%s fields are %s, expected [%s]" % (ty, [f["name"] for f in fs], field))
        chk.expect(fields_private(P, ty), ty + " private", "%s has a public field: values could be built outside the crate" % ty)
        d = derived_impls(P, ty)
        for tr in ("std::cmp::PartialEq", "std::cmp::Eq", "std::cmp::PartialOrd", "std::cmp::Ord", "std::hash::Hash"):
            chk.expect(d.get(tr) is True, "%s: %s" % (ty, tr), "impl %s for %s is %s (expected: derived over the packed field)" % (
                tr, ty, "hand-written" if tr in d else "missing"))


def r_weekday_match(chk, P):
    chk.rule("MATCH.weekday", "NaiveDate::weekday maps (ordinal + weekday flags) mod 7 to Mon..Sun in order", floor=8)
    s = Sym(P, ND + "::weekday")
    m, discr = extract_switch_map(s)
    names = ["Mon", "Tue", "Wed", "Thu", "Fri", "Sat", "Sun"]
    for v in range(7):
        got = m.get(v, m.get("else"))
        chk.expect(got == ("weekday::Weekday", names[v]), "weekday[%d]" % v, "value %d maps to %s, expected Weekday::%s" % (v, got, names[v]), loc=P.loc(ND + "::weekday"))
    ok = discr[0] == "bin" and discr[1] == "Rem" and const_of(discr[3]) == 7
    named = {t[1].split("::")[-1] for t in walk_terms(discr) if t[0] == "named"}
    chk.expect(ok and {"ORDINAL_MASK", "WEEKDAY_FLAGS_MASK"} <= named, "weekday-discr", "weekday is not computed as (ordinal + weekday flags) %% 7: %s" % pp(discr))


def r_daycount_consts(chk, P):
    chk.rule("CONST.daycount", "day-number conversions use the cycle constants 146097 / 400 / 365 (+1461, 100) in every copy", floor=6)
    want = {
        ND + "::from_num_days_from_ce_opt": {146097: 2, 365: 1, 400: 1},
        ND + "::add_days": {146097: 1, 400: 2},
        ND + "::signed_duration_since": {146097: 1, 400: 2, 86400: 0},
        ND + "::num_days_from_ce": {146097: 1, 400: 2, 1461: 1, 100: 1},
        "traits::Datelike::num_days_from_ce": {146097: 1, 400: 2, 1461: 1, 100: 1},
        "naive::date::cycle_to_yo": {365: 3},
        "naive::date::yo_to_cycle": {365: 1},
    }
    for fn, exp in want.items():
        got = consts_in_fn(P, fn)
        miss = {c: n for c, n in exp.items() if got.get(c, 0) < n}
        chk.expect(not miss, fn, "%s: cycle constants %s expected at least %s times, found %s" % (
            fn, sorted(miss), miss, {c: got.get(c, 0) for c in miss}), loc=P.loc(fn))
    # sibling agreement of the two num_days_from_ce bodies
    chk.rule("SIB.num_days_from_ce", "inherent and Datelike num_days_from_ce use the same constant multiset", floor=1)
    a = consts_in_fn(P, ND + "::num_days_from_ce")
    b = consts_in_fn(P, "traits::Datelike::num_days_from_ce")
    chk.expect(a == b, "num_days_from_ce", "constant multisets differ: inherent %s vs trait default %s" % (a, b))


def r_isoweek(chk, P):
    chk.rule("CONST.isoweek", "IsoWeek packs year<<10 | week<<4 | flags and its accessors unpack the same lanes", floor=3)
    y = Sym(P, "naive::isoweek::IsoWeek::year").paths()[0].ret
    w = Sym(P, "naive::isoweek::IsoWeek::week").paths()[0].ret
    chk.expect(y[0] == "bin" and y[1] == "Shr" and const_of(y[3]) == 10, "IsoWeek::year", "year() is not ywf >> 10: " + pp(y))
    shr = [t for t in walk_terms(w) if t[0] == "bin" and t[1] == "Shr"]
    andm = [t for t in walk_terms(w) if t[0] == "bin" and t[1] == "BitAnd"]
    chk.expect(len(shr) == 1 and const_of(shr[0][3]) == 4 and len(andm) == 1 and const_of(andm[0][3]) == 0x3f, "IsoWeek::week", "week() is not (ywf >> 4) & 0x3f: " + pp(w))
    c = consts_in_fn(P, "naive::isoweek::IsoWeek::from_yof", ops=("Shl",))
    chk.expect(c.get(10, 0) >= 1 and c.get(4, 0) >= 1, "IsoWeek::from_yof", "from_yof does not shift year by 10 and week by 4: %s" % c)
