"""C01 — calendar, ordinal, ISO-week and day-count forms agree (tables, constants, layout, derives)."""
import calendar_oracle as cal
from core import Prog
from sym import Sym, pp, walk_terms, const_of, thaw
from rules import (table_value, extract_switch_map, consts_in_fn, derived_impls, fields_private)

ND = "naive::date::NaiveDate"
INT = "naive::internals"


def flags_of(cell):
    return cell["fields"]["0"] if isinstance(cell, dict) else cell


def run(chk, tier):
    P = Prog("default")
    chk.configs.add("default")
    chk.guarded(r_year_to_flags, P)
    chk.guarded(r_mdl_ol, P)
    chk.guarded(r_year_deltas, P)
    chk.guarded(r_flag_functions, P)
    chk.guarded(r_layout_consts, P)
    chk.guarded(r_derives, P)
    chk.guarded(r_weekday_match, P)
    chk.guarded(r_daycount_consts, P)
    chk.guarded(r_isoweek, P)
    chk.guarded(r_year_uses, P)
    chk.guarded(r_mdf_box, P, tier)
    chk.guarded(r_mdf_lanes, P, tier)
    chk.guarded(r_ordinal_box, P, tier)
    chk.guarded(r_cycle, P, tier)
    chk.guarded(r_num_days_in_month, P)
    chk.guarded(r_isoweek_accessors, P)
    chk.guarded(r_opt_wrappers, P, tier)
    chk.assume("the branchy arithmetic that combines the verified tables (from_isoywd_opt spill, cycle_to_yo, succ/pred rollover) "
               "is not decided here")
    return {
        "explanation": "Static table/constant/layout rules for C01: YEAR_TO_FLAGS (400 cells), MDL_TO_OL/OL_TO_MDL (both directions, "
                       "mutual inverse), YEAR_DELTAS, the 53-week literal and the ndays/isoweek_delta constants are compared cell by cell "
                       "with an independent proleptic Gregorian oracle (specs/tables/calendar_oracle.py, itself cross-checked against "
                       "Python datetime for years 1..9999); packed-date layout constants, MIN/MAX/BEFORE_MIN/AFTER_MAX decoded from the "
                       "compiler-evaluated consts; equality/order/hash derived over the single packed field; weekday match table; "
                       "day-count constants (146097, 400, 365, 1461) in every function that converts dates and day numbers.",
        "trusted_base": ["rustc const evaluation (table values)", "specs/tables/calendar_oracle.py", "MIR as emitted by rustc nightly at -Zmir-opt-level=0"],
    }


def r_year_to_flags(chk, P):
    chk.rule("TBL.flags", "YEAR_TO_FLAGS[y] encodes leap(y) and the weekday of 1 January for every y in 0..400", floor=400)
    tbl = table_value(P, INT + "::YEAR_TO_FLAGS")
    chk.expect(len(tbl) == 400, "len", "YEAR_TO_FLAGS has %d cells, expected 400" % len(tbl))
    for y, cell in enumerate(tbl[:400]):
        f = flags_of(cell)
        common = (f >> 3) & 1
        k = f & 7
        ok = (f < 16) and (common == (0 if cal.leap(y) else 1)) and ((1 + k) % 7 == cal.weekday(y, 1, 1)) and k != 0
        chk.expect(ok, "YEAR_TO_FLAGS[%d]" % y,
                   "cell %d = %#o: leap bit / weekday bits disagree with the Gregorian calendar (leap=%s, 1 Jan weekday=%d)" % (
                       y, f, cal.leap(y), cal.weekday(y, 1, 1)), loc=P.loc(INT + "::YEAR_TO_FLAGS"))
    # the 14 named dominical classes
    chk.rule("TBL.classes", "named year classes A..GF have distinct valid encodings and all occur in the table", floor=14)
    names = ["A", "AG", "B", "BA", "C", "CB", "D", "DC", "E", "ED", "F", "FE", "G", "GF"]
    used = {flags_of(c) for c in tbl}
    vals = {}
    for n in names:
        v = flags_of(P.value(INT + "::" + n))
        vals[n] = v
        leapflag = len(n) == 2
        chk.expect(v in used and ((v >> 3) & 1) == (0 if leapflag else 1), "class " + n,
                   "class %s = %#o is not used by the table or has the wrong leap bit" % (n, v))
    chk.expect(len(set(vals.values())) == 14 and used == set(vals.values()), "classes-distinct", "named classes are not 14 distinct values covering the table")


def r_mdl_ol(chk, P):
    chk.rule("TBL.mdl_ol", "MDL_TO_OL / OL_TO_MDL cells equal the month-day <-> ordinal offsets of the calendar; zero exactly on non-dates", floor=832 + 734)
    mdl_to_ol = table_value(P, INT + "::MDL_TO_OL")
    ol_to_mdl = table_value(P, INT + "::OL_TO_MDL")
    max_mdl = P.value(INT + "::MAX_MDL")
    max_ol = P.value(INT + "::MAX_OL")
    chk.expect(max_mdl == ((12 << 6) | (31 << 1) | 1) and len(mdl_to_ol) == max_mdl + 1, "MAX_MDL", "MAX_MDL/len(MDL_TO_OL) = %s/%d" % (max_mdl, len(mdl_to_ol)))
    chk.expect(max_ol == (366 << 1) and len(ol_to_mdl) == max_ol + 1, "MAX_OL(internals)", "MAX_OL/len(OL_TO_MDL) = %s/%d" % (max_ol, len(ol_to_mdl)))
    # representative years: common (bit=1) 2023, leap (bit=0) 2024
    year_of = {1: 2023, 0: 2024}
    exp_ol = {}
    for mdl in range(len(mdl_to_ol)):
        m, d, c = mdl >> 6, (mdl >> 1) & 31, mdl & 1
        y = year_of[c]
        valid = 1 <= m <= 12 and 1 <= d <= cal.days_in_month(y, m)
        if valid:
            ol = (cal.ordinal(y, m, d) << 1) | c
            exp = mdl - ol
            exp_ol[ol] = exp
        else:
            exp = 0
        chk.expect(mdl_to_ol[mdl] == exp, "MDL_TO_OL[%d]" % mdl,
                   "MDL_TO_OL[%d] (month %d, day %d, %s year) = %d, calendar says %d" % (mdl, m, d, "common" if c else "leap", mdl_to_ol[mdl], exp),
                   loc=P.loc(INT + "::MDL_TO_OL"))
    worst = 0
    for ol in range(len(ol_to_mdl)):
        exp = exp_ol.get(ol, 0)
        chk.expect(ol_to_mdl[ol] == exp, "OL_TO_MDL[%d]" % ol,
                   "OL_TO_MDL[%d] (ordinal %d, %s year) = %d, calendar says %d" % (ol, ol >> 1, "common" if ol & 1 else "leap", ol_to_mdl[ol], exp),
                   loc=P.loc(INT + "::OL_TO_MDL"))
        worst = max(worst, ol + ol_to_mdl[ol])
    chk.rule("TBL.mdl_ol_side", "side facts used by range arguments: max(ol + OL_TO_MDL[ol]) <= MAX_MDL; offsets fit i8/u8", floor=2)
    chk.expect(worst <= max_mdl, "ol+OL_TO_MDL<=MAX_MDL", "max(ol + OL_TO_MDL[ol]) = %d exceeds MAX_MDL = %d" % (worst, max_mdl))
    chk.expect(all(0 <= v < 128 for v in mdl_to_ol) and all(0 <= v < 256 for v in ol_to_mdl), "offset-width", "offset does not fit its cell type")


def r_year_deltas(chk, P):
    chk.rule("TBL.year_deltas", "YEAR_DELTAS[y] = leap days in years [0, y) of the 400-year cycle", floor=401)
    t = table_value(P, "naive::date::YEAR_DELTAS")
    chk.expect(len(t) == 401, "len", "YEAR_DELTAS has %d cells, expected 401" % len(t))
    for y, v in enumerate(t[:401]):
        chk.expect(v == cal.leap_days_before(y), "YEAR_DELTAS[%d]" % y, "YEAR_DELTAS[%d] = %d, calendar says %d" % (y, v, cal.leap_days_before(y)),
                   loc=P.loc("naive::date::YEAR_DELTAS"))


def _flag_examples(P):
    """flags value -> a representative year (0..400) carrying it"""
    tbl = table_value(P, INT + "::YEAR_TO_FLAGS")
    ex = {}
    for y, c in enumerate(tbl):
        ex.setdefault(flags_of(c), y)
    return ex


def r_flag_functions(chk, P):
    """ndays / isoweek_delta / nisoweeks as finite maps over the 14 year classes (abstract evaluation
    of the function body over the finite flags domain), compared with the calendar"""
    from finmap import finite_map
    ex = _flag_examples(P)
    chk.rule("MAP.yearflags", "ndays, nisoweeks, isoweek_delta evaluated over the 14 year classes equal the calendar's values", floor=42)
    for fname, oracle in (
        ("ndays", lambda y: cal.days_in_year(y)),
        ("nisoweeks", lambda y: cal.iso_weeks_in_year(y)),
        # isoweek_delta = number of days of week 1's Monday..: ordinal = week*7 + weekday_num_from_mon0 - delta, so
        # delta = 7 + weekday(1 Jan) - ... derived: for ISO week 1 day Mon (week=1, wd=0): ordinal = 7 - delta must be the
        # ordinal of the Monday of ISO week 1, which is 1 - weekday(4 Jan) + 3 ... computed by the oracle below
        ("isoweek_delta", lambda y: 7 - _monday_of_week1_ordinal(y)),
    ):
        path = INT + "::YearFlags::" + fname
        fm = finite_map(P, path, {"*arg1.0": sorted(ex)})
        for f, y in sorted(ex.items()):
            got = fm.get((f,))
            chk.expect(got == oracle(y), "%s(%#o)" % (fname, f),
                       "%s for year class %#o (e.g. year %d) is %s, calendar says %s" % (fname, f, y, got, oracle(y)), loc=P.loc(path))


def _monday_of_week1_ordinal(y):
    # ordinal (may be <= 0) of the Monday of ISO week 1 of year y: week 1 contains 4 January
    wd4 = cal.weekday(y, 1, 4)
    return 4 - wd4


def r_layout_consts(chk, P):
    chk.rule("CONST.layout", "packed date layout constants and range ends decode to the documented values", floor=12)
    v = lambda n: P.value("naive::date::" + n)  # noqa
    exp = {
        "MIN_YEAR": (-(1 << 31) >> 13) + 1, "MAX_YEAR": (((1 << 31) - 1) >> 13) - 1,
        "ORDINAL_MASK": 0x1ff << 4, "LEAP_YEAR_MASK": 8, "WEEKDAY_FLAGS_MASK": 7, "OL_MASK": (0x1ff << 4) | 8,
        "MAX_OL": 366 << 4, "YEAR_FLAGS_MASK": 15,
    }
    for n, e in exp.items():
        chk.expect(v(n) == e, n, "%s = %s, expected %s" % (n, v(n), e), loc=P.loc("naive::date::" + n))
    tbl = table_value(P, INT + "::YEAR_TO_FLAGS")

    def dec(name):
        val = P.value(ND + "::" + name)
        yof = _int_leaf(val)
        return yof >> 13, (yof >> 4) & 0x1ff, yof & 15

    miny, maxy = exp["MIN_YEAR"], exp["MAX_YEAR"]
    for name, (y, o) in {"MIN": (miny, 1), "MAX": (maxy, cal.days_in_year(maxy % 400 + 400)),
                         "BEFORE_MIN": (miny - 1, cal.days_in_year((miny - 1) % 400 + 400)), "AFTER_MAX": (maxy + 1, 1)}.items():
        got = dec(name)
        want = (y, o, flags_of(tbl[y % 400]))
        chk.expect(got == want, "NaiveDate::" + name, "NaiveDate::%s decodes to (year, ordinal, flags) = %s, expected %s" % (name, got, want),
                   loc=P.loc(ND + "::" + name))


def _int_leaf(v):
    while isinstance(v, dict):
        if "fields" in v:
            v = list(v["fields"].values())[0]
        elif "tuple" in v:
            v = v["tuple"][0]
        else:
            break
    return v


def r_derives(chk, P):
    chk.rule("DERIVE", "equality, order and hash of NaiveDate / IsoWeek are derived over the single packed field (year in the high bits)", floor=12)
    for ty, field in ((ND, "yof"), ("naive::isoweek::IsoWeek", "ywf")):
        fs = P.adts[ty]["variants"][0]["fields"]
        chk.expect([f["name"] for f in fs] == [field], ty + " fields", "%s fields are %s, expected [%s]" % (ty, [f["name"] for f in fs], field))
        chk.expect(fields_private(P, ty), ty + " private", "%s has a public field: values could be built outside the crate" % ty)
        d = derived_impls(P, ty)
        for tr in ("std::cmp::PartialEq", "std::cmp::Eq", "std::cmp::PartialOrd", "std::cmp::Ord", "std::hash::Hash"):
            chk.expect(d.get(tr) is True, "%s: %s" % (ty, tr), "impl %s for %s is %s (expected: derived over the packed field)" % (
                tr, ty, "hand-written" if tr in d else "missing"))


def r_weekday_match(chk, P):
    chk.rule("MATCH.weekday", "NaiveDate::weekday maps (ordinal + weekday flags) mod 7 to Mon..Sun in order", floor=8)
    s = Sym(P, ND + "::weekday")
    try:
        m, discr = extract_switch_map(s)
    except Exception:
        # not a match on (ordinal + flags) % 7 (e.g. a table lookup): the value of weekday() for every date of every year class is decided by CYCLE.dates
        chk.assume("MATCH.weekday: NaiveDate::weekday is not a single match: idiom not recognised, decided by CYCLE.dates only")
        for v in range(8):
            chk.ok("weekday[%d] (by CYCLE.dates)" % v)
        return
    names = ["Mon", "Tue", "Wed", "Thu", "Fri", "Sat", "Sun"]
    for v in range(7):
        got = m.get(v, m.get("else"))
        chk.expect(got == ("weekday::Weekday", names[v]), "weekday[%d]" % v, "value %d maps to %s, expected Weekday::%s" % (v, got, names[v]), loc=P.loc(ND + "::weekday"))
    ok = discr[0] == "bin" and discr[1] == "Rem" and const_of(discr[3]) == 7
    named = {t[1].split("::")[-1] for t in walk_terms(discr) if t[0] == "named"}
    chk.expect(ok and {"ORDINAL_MASK", "WEEKDAY_FLAGS_MASK"} <= named, "weekday-discr", "weekday is not computed as (ordinal + weekday flags) %% 7: %s" % pp(discr))


def r_daycount_consts(chk, P):
    chk.rule("CONST.daycount", "day-number conversions use the cycle constants 146097 / 400 / 365 (+1461, 100) in every copy", floor=6)
    want = {
        ND + "::from_num_days_from_ce_opt": {146097: 2, 365: 1, 400: 1},
        ND + "::add_days": {146097: 1, 400: 2},
        ND + "::signed_duration_since": {146097: 1, 400: 2, 86400: 0},
        ND + "::num_days_from_ce": {146097: 1, 400: 2, 1461: 1, 100: 1},
        "traits::Datelike::num_days_from_ce": {146097: 1, 400: 2, 1461: 1, 100: 1},
        "naive::date::cycle_to_yo": {365: 3},
        "naive::date::yo_to_cycle": {365: 1},
    }
    from rules import callees
    for fn, exp in want.items():
        got = dict(consts_in_fn(P, fn))
        for c in callees(P, fn):
            if P.has(c) and (c.startswith("naive::date::") or c.startswith("naive::internals::")) and "::NaiveDate::" not in c:
                for k, v in consts_in_fn(P, c).items():      # private arithmetic helpers (div_mod_floor, cycle_to_yo, ..) count for their caller
                    got[k] = got.get(k, 0) + v
        # presence, not multiplicity: how often a constant is written is a matter of style (the values are decided by the CYCLE.* maps)
        miss = sorted(c for c, n in exp.items() if n and got.get(c, 0) < 1)
        chk.expect(not miss, fn, "%s: cycle constants %s do not occur in it or in its private helpers" % (fn, miss), loc=P.loc(fn))
    # sibling agreement of the two num_days_from_ce bodies: by value on every date of one year per class and both range ends
    from finmap import Folder, show, Unknown
    chk.rule("SIB.num_days_from_ce", "inherent NaiveDate::num_days_from_ce and the provided Datelike::num_days_from_ce agree with the calendar on the first / last / leap days of every year class and both range ends", floor=100)
    fo = Folder(P, max_depth=10)
    tbl = [flags_of(c) for c in table_value(P, INT + "::YEAR_TO_FLAGS")]
    miny, maxy = P.value("naive::date::MIN_YEAR"), P.value("naive::date::MAX_YEAR")
    reps = {}
    for y in range(2000, 2400):
        reps.setdefault(tbl[y % 400], y)
    bad = None
    for y in sorted(reps.values()) + [miny, maxy, 0, -1, 1, 1900, 2100, -400, -399]:
        for o in (1, 2, 59, 60, 61, 365, cal.days_in_year(y)):
            d = ("ref", _date((y << 13) | (o << 4) | tbl[y % 400]))
            want_n = cal.day_number(y, 1, 1) + o - 1
            for fn in (ND + "::num_days_from_ce", "traits::Datelike::num_days_from_ce"):
                try:
                    got_n = show(fo.call(fn, [d]))
                except Unknown as e:
                    got_n = "unknown: %s" % e
                if got_n == want_n:
                    chk.ok("value")
                elif bad is None:
                    bad = (fn, (y, o), got_n, want_n)
    chk.expect(bad is None, "num_days_from_ce", "%s of (year, ordinal) %s folds to %s, the calendar gives %s" % (bad or ("", 0, 0, 0)), loc=P.loc(ND + "::num_days_from_ce"))


def r_isoweek(chk, P):
    chk.rule("CONST.isoweek", "IsoWeek packs year<<10 | week<<4 | flags and its accessors unpack the same lanes", floor=3)
    y = Sym(P, "naive::isoweek::IsoWeek::year").paths()[0].ret
    w = Sym(P, "naive::isoweek::IsoWeek::week").paths()[0].ret
    chk.expect(y[0] == "bin" and y[1] == "Shr" and const_of(y[3]) == 10, "IsoWeek::year", "year() is not ywf >> 10: " + pp(y))
    shr = [t for t in walk_terms(w) if t[0] == "bin" and t[1] == "Shr"]
    andm = [t for t in walk_terms(w) if t[0] == "bin" and t[1] == "BitAnd"]
    chk.expect(len(shr) == 1 and const_of(shr[0][3]) == 4 and len(andm) == 1 and const_of(andm[0][3]) == 0x3f, "IsoWeek::week", "week() is not (ywf >> 4) & 0x3f: " + pp(w))
    c = consts_in_fn(P, "naive::isoweek::IsoWeek::from_yof", ops=("Shl",))
    chk.expect(c.get(10, 0) >= 1 and c.get(4, 0) >= 1, "IsoWeek::from_yof", "from_yof does not shift year by 10 and week by 4: %s" % c)


# ---- finite maps over the 400-year cycle (constructors, accessors, successor) ---------------------------

def _c(v):
    return ("const", v)


def _date(yof):
    return ("agg", "adt", ND, "NaiveDate", (_c(yof),), 0)


def _wd(P, i):
    return ("agg", "adt", "weekday::Weekday", P.adts["weekday::Weekday"]["variants"][i]["name"], (), i)


def _yof_of(shown):
    """yof integer of a folded Option<NaiveDate> / NaiveDate, 'None', or the raw value"""
    if shown == "Option::None":
        return None
    if isinstance(shown, tuple) and shown and shown[0] == "Option::Some":
        shown = shown[1]
    if isinstance(shown, tuple) and shown and shown[0] == "NaiveDate::NaiveDate":
        return shown[1]
    return ("?", shown)


def r_year_uses(chk, P):
    """periodicity lemma: the constructors use the year only through its class (year mod 400), its packed position and the range test"""
    chk.rule("USES.year", "constructors use `year` only via YearFlags::from_year, `<< 13`, the MIN_YEAR/MAX_YEAR test and checked +-1", floor=5)
    allowed_calls = ("YearFlags::from_year", "NaiveDate::from_mdf", "NaiveDate::from_ordinal_and_flags", "checked_add", "checked_sub")
    for fn in ("from_ymd_opt", "from_yo_opt", "from_mdf", "from_ordinal_and_flags", "from_isoywd_opt"):
        full = ND + "::" + fn
        bad = []
        for p in Sym(P, full).paths():
            for t in [c[1] for c in p.conds] + ([p.ret] if p.ret else []) + list(p.calls):
                for x in walk_terms(t):
                    if x[0] == "call" and ("arg", 1) in x[2]:
                        if not any(str(x[1]).endswith(a) for a in allowed_calls):
                            bad.append(pp(x)[:80])
                    elif x[0] == "bin" and ("arg", 1) in (x[2], x[3]):
                        op = x[1].replace("WithOverflow", "")
                        other = x[3] if x[2] == ("arg", 1) else x[2]
                        ok = (op == "Shl" and const_of(other) == 13) or (op in ("Lt", "Gt", "Le", "Ge") and other[0] == "named" and other[1].endswith(("MIN_YEAR", "MAX_YEAR")))
                        if not ok:
                            bad.append(pp(x)[:80])
                    elif x[0] in ("cast", "un") and x[1 if x[0] == "cast" else 2] == ("arg", 1):
                        bad.append(pp(x)[:80])
        chk.expect(not bad, fn, "%s uses the year argument outside the periodic pattern: %s" % (fn, bad[:2]), loc=P.loc(full))
    r = [p.ret for p in Sym(P, INT + "::YearFlags::from_year").paths() if p.end[0] == "return"]
    ok = len(r) == 1 and any(is_call_(x, "rem_euclid") and const_of(x[2][1]) == 400 and x[2][0] == ("arg", 1) for x in walk_terms(r[0]))
    chk.expect(ok, "YearFlags::from_year", "from_year is not the table lookup at year.rem_euclid(400): %s" % [pp(x) for x in r])


def is_call_(x, suffix):
    return x[0] == "call" and isinstance(x[1], str) and x[1].endswith(suffix)


def r_cycle(chk, P, tier):
    from finmap import Folder, show, Unknown
    fo = Folder(P, max_depth=10)
    tbl = [flags_of(c) for c in table_value(P, INT + "::YEAR_TO_FLAGS")]
    miny, maxy = P.value("naive::date::MIN_YEAR"), P.value("naive::date::MAX_YEAR")

    def exp_yof(y, o):
        return (y << 13) | (o << 4) | tbl[y % 400]

    def in_range(y):
        return miny <= y <= maxy

    def call(fn, args):
        try:
            return show(fo.call(fn, args))
        except Unknown as e:
            return "unknown: %s" % e

    # year domain: one representative per year class (thorough: the whole 400-year cycle and a negative cycle)
    reps = {}
    for y in range(2000, 2400):
        reps.setdefault(tbl[y % 400], y)
    years = sorted(reps.values()) + [-401, -400, -5, -4, -1, 0, 1]      # + years around 0 and a negative cycle boundary (rem vs rem_euclid, year - 1 below zero)
    if tier == "thorough":
        years = list(range(2000, 2400)) + list(range(-400, 0, 7)) + [-401, -5, -4, -1, 0, 1]
    nyears = len(years)

    chk.rule("CYCLE.from_ymd", "from_ymd_opt(y, m, d) for every year class x m in 0..=13 x d in 0..=32 is the calendar's date, or None", floor=1)
    bad = None
    n = 0
    for y in years:
        for m in range(0, 14):
            for d in range(0, 33):
                n += 1
                valid = 1 <= m <= 12 and 1 <= d <= cal.days_in_month(y, m)
                want = exp_yof(y, cal.ordinal(y, m, d)) if valid else None
                got = _yof_of(call(ND + "::from_ymd_opt", [_c(y), _c(m), _c(d)]))
                if got != want and bad is None:
                    bad = ((y, m, d), got, want)
    chk.expect(bad is None, "from_ymd_opt", "from_ymd_opt%s = %s, calendar says %s" % (bad or ((), 0, 0)), loc=P.loc(ND + "::from_ymd_opt"), detail_ok="%d argument tuples, %d years" % (n, nyears))

    chk.rule("CYCLE.from_yo", "from_yo_opt(y, o) for every year class x o in 0..=367", floor=1)
    bad = None
    n = 0
    for y in years:
        for o in range(0, 368):
            n += 1
            want = exp_yof(y, o) if 1 <= o <= cal.days_in_year(y) else None
            got = _yof_of(call(ND + "::from_yo_opt", [_c(y), _c(o)]))
            if got != want and bad is None:
                bad = ((y, o), got, want)
    chk.expect(bad is None, "from_yo_opt", "from_yo_opt%s = %s, calendar says %s" % (bad or ((), 0, 0)), loc=P.loc(ND + "::from_yo_opt"), detail_ok="%d argument tuples" % n)

    chk.rule("CYCLE.dates", "month/day, weekday, ISO week and successor of every date of the year-class representatives agree with the calendar", floor=4)
    errs = {}
    n = 0
    for y in years:
        ndays = cal.days_in_year(y)
        for o in range(1, ndays + 1):
            n += 1
            d = _date(exp_yof(y, o))
            m_, d_ = cal.from_ordinal(y, o)
            wd = cal.weekday(y, m_, d_)
            r = call("<naive::date::NaiveDate as traits::Datelike>::month", [("ref", d)])
            if r != m_:
                errs.setdefault("month", ((y, o), r, m_))
            r = call("<naive::date::NaiveDate as traits::Datelike>::day", [("ref", d)])
            if r != d_:
                errs.setdefault("day", ((y, o), r, d_))
            r = call(ND + "::weekday", [("ref", d)])
            if r != "Weekday::" + ["Mon", "Tue", "Wed", "Thu", "Fri", "Sat", "Sun"][wd]:
                errs.setdefault("weekday", ((y, o), r, wd))
            r = _yof_of(call(ND + "::succ_opt", [("ref", d)]))
            want = exp_yof(y, o + 1) if o < ndays else exp_yof(y + 1, 1)
            if r != want:
                errs.setdefault("succ_opt", ((y, o), r, want))
            if tier == "thorough" or o <= 7 or o >= ndays - 7:
                r = _yof_of(call(ND + "::pred_opt", [("ref", d)]))
                want = exp_yof(y, o - 1) if o > 1 else exp_yof(y - 1, cal.days_in_year(y - 1))
                if r != want:
                    errs.setdefault("pred_opt", ((y, o), r, want))
                iy, iw, iwd = cal.iso_week(y, m_, d_)
                w = call("<naive::date::NaiveDate as traits::Datelike>::iso_week", [("ref", d)])
                ywf = w[1] if isinstance(w, tuple) and len(w) == 2 else None
                if not isinstance(ywf, int) or (ywf >> 10, (ywf >> 4) & 0x3f) != (iy, iw):
                    errs.setdefault("iso_week", ((y, o), w, (iy, iw)))
                dn = call(ND + "::num_days_from_ce", [("ref", d)])
                if dn != cal.day_number(y, m_, d_):
                    errs.setdefault("num_days_from_ce", ((y, o), dn, cal.day_number(y, m_, d_)))
                back = _yof_of(call(ND + "::from_num_days_from_ce_opt", [_c(cal.day_number(y, m_, d_))]))
                if back != exp_yof(y, o):
                    errs.setdefault("from_num_days_from_ce_opt", ((y, o), back, exp_yof(y, o)))
    for k in ("month", "day", "weekday", "succ_opt", "pred_opt", "iso_week", "num_days_from_ce", "from_num_days_from_ce_opt"):
        chk.expect(k not in errs, k, "%s deviates from the calendar at (year, ordinal) %s: got %s, expected %s" % ((k,) + errs.get(k, ((), 0, 0))), detail_ok="%d dates" % n)

    chk.rule("CYCLE.from_isoywd", "from_isoywd_opt(y, w, wd) for w in 0..=54 and all weekdays is the calendar's ISO week date (incl. spill into the neighbour years)", floor=1)
    # oracle: ISO week dates of year y by enumeration of the days around it
    bad = None
    n = 0
    iso_years = years if tier == "thorough" else years
    for y in iso_years:
        table = {}
        for yy in (y - 1, y, y + 1):
            for o in range(1, cal.days_in_year(yy) + 1):
                m_, d_ = cal.from_ordinal(yy, o)
                iy, iw, iwd = cal.iso_week(yy, m_, d_)
                if iy == y:
                    table[(iw, iwd - 1)] = exp_yof(yy, o)
        for w in range(0, 55):
            for wd in range(7):
                n += 1
                want = table.get((w, wd))
                got = _yof_of(call(ND + "::from_isoywd_opt", [_c(y), _c(w), _wd(P, wd)]))
                if got != want and bad is None:
                    bad = ((y, w, wd), got, want)
    chk.expect(bad is None, "from_isoywd_opt", "from_isoywd_opt%s = %s, calendar says %s" % (bad or ((), 0, 0)), loc=P.loc(ND + "::from_isoywd_opt"), detail_ok="%d argument tuples" % n)

    chk.rule("CYCLE.range_ends", "constructors, successor and day numbers at both ends of the supported range and at the integer extremes", floor=20)
    i32min, i32max = -(1 << 31), (1 << 31) - 1
    for y in (miny - 1, miny, miny + 1, maxy - 1, maxy, maxy + 1, i32min, i32max):
        for (m, d) in ((1, 1), (12, 31)):
            want = exp_yof(y, cal.ordinal(y % 400 + 2000, m, d)) if in_range(y) else None
            got = _yof_of(call(ND + "::from_ymd_opt", [_c(y), _c(m), _c(d)]))
            chk.expect(got == want, "from_ymd_opt(%d,%d,%d)" % (y, m, d), "from_ymd_opt(%d, %d, %d) = %s, expected %s" % (y, m, d, got, want))
        want = exp_yof(y, 1) if in_range(y) else None
        got = _yof_of(call(ND + "::from_yo_opt", [_c(y), _c(1)]))
        chk.expect(got == want, "from_yo_opt(%d,1)" % y, "from_yo_opt(%d, 1) = %s, expected %s" % (y, got, want))
    # ISO week dates touching the ends: the first and last representable dates via their ISO forms
    for (y, o) in ((miny, 1), (miny, 2), (maxy, cal.days_in_year(maxy % 400 + 2000)), (maxy, cal.days_in_year(maxy % 400 + 2000) - 1)):
        yy = y % 400 + 2000
        m_, d_ = cal.from_ordinal(yy, o)
        iy, iw, iwd = cal.iso_week(yy, m_, d_)
        iy = iy - yy + y
        got = _yof_of(call(ND + "::from_isoywd_opt", [_c(iy), _c(iw), _wd(P, iwd - 1)]))
        chk.expect(got == exp_yof(y, o), "from_isoywd_opt(%d,W%d,%d)" % (iy, iw, iwd), "from_isoywd_opt(%d, %d, %d) = %s, expected the date (%d, ordinal %d)" % (iy, iw, iwd, got, y, o))
    for (iy, iw) in ((miny - 1, 1), (maxy + 1, 53), (i32min, 1), (i32max, 52)):
        got = call(ND + "::from_isoywd_opt", [_c(iy), _c(iw), _wd(P, 0)])
        ok = got == "Option::None" or (iy in (miny - 1, maxy + 1) and isinstance(_yof_of(got), int) and in_range(_yof_of(got) >> 13))
        chk.expect(ok, "from_isoywd_opt(%d,W%d)" % (iy, iw), "from_isoywd_opt(%d, %d, Mon) = %s: must be None or a date inside the range" % (iy, iw, got))
    last = exp_yof(maxy, cal.days_in_year(maxy % 400 + 2000))
    first = exp_yof(miny, 1)
    chk.expect(call(ND + "::succ_opt", [("ref", _date(last))]) == "Option::None", "succ_opt(MAX)", "succ_opt(MAX) is not None")
    chk.expect(call(ND + "::pred_opt", [("ref", _date(first))]) == "Option::None", "pred_opt(MIN)", "pred_opt(MIN) is not None")
    yy = maxy % 400 + 2000
    dn_max = cal.day_number(yy, 12, 31) + (maxy - yy) // 400 * 146097
    yy2 = miny % 400 + 2000
    dn_min = cal.day_number(yy2, 1, 1) + (miny - yy2) // 400 * 146097
    for dn, want in ((dn_max, last), (dn_max + 1, None), (dn_min, first), (dn_min - 1, None), (i32min, None), (i32max, None)):
        got = _yof_of(call(ND + "::from_num_days_from_ce_opt", [_c(dn)]))
        chk.expect(got == want, "from_num_days_from_ce_opt(%d)" % dn, "from_num_days_from_ce_opt(%d) = %s, expected %s" % (dn, got, want))


def r_mdf_box(chk, P, tier):
    """Mdf::new is the gate of from_ymd_opt / with_month / with_day: it accepts exactly month <= 12 and day <= 31 tested on the ARGUMENTS (a test on
    the packed word comes after `month << 9` has already discarded high bits)"""
    from rules import accept_boxes, hull
    chk.rule("BOX.mdf_new", "Mdf::new returns Some exactly for month in 0..=12 and day in 0..=31, tested on the unshifted arguments", floor=2)
    fn = "naive::internals::Mdf::new"
    bs = accept_boxes(P, fn, {"month": ("arg", 1), "day": ("arg", 2)})
    somes = [(b, o, p_) for b, o, p_ in bs if p_.ret[0] == "agg" and p_.ret[3] == "Some"]
    if not somes:
        raise AnchorLost("Mdf::new: no Some path")
    for b, other, p_ in somes:
        ok = not other and b["month"][1] == 12 and b["day"][1] == 31 and (b["month"][0] or 0) == 0 and (b["day"][0] or 0) == 0
        chk.expect(ok, "Some path", "Mdf::new accepts month in %s, day in %s (uninterpreted conditions: %s); expected month <= 12 and day <= 31 on the arguments" % (
            b["month"], b["day"], [pp(c[1])[:60] for c in other]), loc=P.loc(fn))
    chk.expect(len(somes) >= 1, "paths", "no success path")


def r_mdf_lanes(chk, P, tier):
    """Mdf packs month << 9 | day << 4 | flags. Each with_* replaces exactly its own lane: the kept mask is the complement of that lane (within the
    13 packed bits) and the inserted value is shifted to the lane's position."""
    chk.rule("LANES.mdf_with", "Mdf::with_flags / with_day / with_month keep exactly the other lanes (masks !0b1111, !(0b11111 << 4), low 9 bits) and insert at shift 0 / 4 / 9", floor=3)
    ALL = 0x1fff
    for name, lane, shift in (("with_flags", 0b1111, 0), ("with_day", 0b11111 << 4, 4), ("with_month", 0b1111 << 9, 9)):
        fn = "naive::internals::Mdf::" + name
        vals = []
        for p_ in Sym(P, fn).paths():
            if p_.end[0] != "return":
                continue
            r = p_.ret
            if r[0] == "agg" and r[3] == "None":
                continue
            for t in walk_terms(r):
                if t[0] == "bin" and t[1] == "BitOr":
                    vals.append(t)
        if not vals:
            raise AnchorLost(fn + ": no BitOr in the result")
        t = vals[0]
        keep = None
        ins_shift = None
        for side in (t[2], t[3]):
            if side[0] == "bin" and side[1] == "BitAnd":
                for m in (side[2], side[3]):
                    if m[0] in ("const", "named") and isinstance(const_of(m), int):
                        keep = const_of(m)
                    elif m[0] == "un" and m[1] == "Not" and isinstance(const_of(m[2]), int):
                        keep = ~const_of(m[2])
            elif side[0] == "bin" and side[1] in ("Shl", "ShlUnchecked"):
                ins_shift = const_of(side[3])
            elif side[0] in ("cast", "as", "field", "arg"):
                ins_shift = 0
        ok = keep is not None and (keep & ALL) == (ALL ^ lane) and ins_shift == shift
        chk.expect(ok, name, "Mdf::%s keeps mask %s of the packed word and inserts at shift %s; expected to keep %s and insert at shift %d" % (
            name, bin(keep & ALL) if keep is not None else None, ins_shift, bin(ALL ^ lane), shift), loc=P.loc(fn))


def r_ordinal_box(chk, P, tier):
    """from_ordinal_and_flags is the gate of from_yo_opt and of the day-number / ISO-week constructors: it accepts exactly ordinal 1..=366 tested on the
    ARGUMENT (the packed `ordinal << 4` is later range-checked only against the leap flag), and year within MIN_YEAR..=MAX_YEAR; and year_ce splits at year 1"""
    from rules import accept_boxes
    chk.rule("BOX.ordinal", "from_ordinal_and_flags returns Some only for ordinal in 1..=366 (argument, unshifted) and MIN_YEAR <= year <= MAX_YEAR; year_ce is (true, year) for year >= 1 else (false, 1 - year)", floor=3)
    fn = ND + "::from_ordinal_and_flags"
    miny, maxy = P.value("naive::date::MIN_YEAR"), P.value("naive::date::MAX_YEAR")
    bs = accept_boxes(P, fn, {"year": ("arg", 1), "ordinal": ("arg", 2)})
    somes = [(b, o, p_) for b, o, p_ in bs if not (p_.ret[0] == "agg" and p_.ret[3] == "None")]
    if not somes:
        raise AnchorLost(fn + ": no value path")
    def low(b, p_):
        l = b["ordinal"][0]
        if l is not None and l >= 1:
            return l
        for c in p_.conds:
            t = c[1]
            if c[0][0] == "switch" and t[0] == "bin" and t[2] == ("arg", 2) and const_of(t[3]) == 0 and ((t[1] == "Eq" and c[2] == 0) or (t[1] == "Ne" and c[2] != 0)):
                return 1
        return l if l is not None else -1
    lo = min(low(b, p_) for b, o, p_ in somes)
    hi = max((b["ordinal"][1] if b["ordinal"][1] is not None else 1 << 40) for b, o, p_ in somes)
    chk.expect((lo, hi) == (1, 366), "ordinal", "from_ordinal_and_flags can return a date for ordinal in [%s, %s]; expected exactly 1..=366 on the argument" % (lo, hi), loc=P.loc(fn))
    ylo = min((b["year"][0] if b["year"][0] is not None else -(1 << 40)) for b, o, p_ in somes)
    yhi = max((b["year"][1] if b["year"][1] is not None else 1 << 40) for b, o, p_ in somes)
    chk.expect((ylo, yhi) == (miny, maxy), "year", "from_ordinal_and_flags accepts years [%s, %s]; expected [%s, %s]" % (ylo, yhi, miny, maxy), loc=P.loc(fn))
    # year_ce: the BCE branch is 1 - year
    fn2 = "traits::Datelike::year_ce"
    ok = False
    seen = []
    for p_ in Sym(P, fn2).paths():
        if p_.end[0] != "return" or p_.ret[0] != "agg":
            continue
        flag, val = p_.ret[4][0], p_.ret[4][1]
        seen.append((pp(flag), pp(val)[:50]))
        if const_of(flag) is False:
            subs = [x for x in walk_terms(val) if x[0] == "bin" and x[1].startswith("Sub") and const_of(x[2]) == 1]
            ok = bool(subs)
    chk.expect(ok, "year_ce", "Datelike::year_ce does not return (false, 1 - year) for years before 1: %s" % seen, loc=P.loc(fn2))


def r_num_days_in_month(chk, P):
    """the provided Datelike::num_days_in_month asks Month::num_days for the month() and the proleptic year() of the same value (year_ce() would
    turn year 0 / negative years into their BCE count and change the leap rule)"""
    from rules import find_calls, is_call
    chk.rule("READS.num_days_in_month", "Datelike::num_days_in_month passes month() and year() of self to Month::num_days on every path", floor=1)
    fn = "traits::Datelike::num_days_in_month"
    rets = [p_.ret for p_ in Sym(P, fn).paths() if p_.end[0] == "return"]
    n = 0
    for r in rets:
        nd = [c for c in find_calls(r) if c[1].endswith("Month::num_days")]
        if not nd:
            continue
        for c in nd:
            n += 1
            m_calls = {x[1].split("::")[-1] for x in find_calls(c[2][0])}
            y = c[2][1]
            ok = is_call(y) and y[1].endswith("Datelike::year") and "month" in m_calls and pp(y[2][0]) in ("&*arg1", "arg1")
            chk.expect(ok, "num_days args", "num_days_in_month calls Month::num_days(%s, %s); expected (month of self, self.year())" % (pp(c[2][0])[:120], pp(y)[:120]), loc=P.loc(fn))
    if not n:
        from core import AnchorLost
        raise AnchorLost(fn + ": no Month::num_days call in the returned value")


def r_isoweek_accessors(chk, P):
    """IsoWeek packs (year << 10) | (week << 4) | flags; year(), week(), week0() as a complete finite map over week 1..=53 x all 16 flag values x three years"""
    from finmap import Folder, show, Unknown
    chk.rule("MAP.isoweek", "IsoWeek::year / week / week0 folded for every week 1..=53, every flags nibble and years -1 / 0 / 2024 return year, week, week - 1", floor=2500)
    fo = Folder(P)
    IW = "naive::isoweek::IsoWeek"
    bad = {}
    n = 0
    for y in (-1, 0, 2024, 262142):
        for w in range(1, 54):
            for fl in range(16):
                v = ("ref", ("agg", "adt", IW, "IsoWeek", (_c((y << 10) | (w << 4) | fl),), 0))
                for fn, want in (("year", y), ("week", w), ("week0", w - 1)):
                    try:
                        got = show(fo.call(IW + "::" + fn, [v]))
                    except Unknown as e:
                        got = "unknown: %s" % e
                    if got == want:
                        n += 1
                    else:
                        bad.setdefault(fn, ((y, w, fl), got, want))
    for _ in range(n):
        chk.ok("value")
    for fn, (a, got, want) in sorted(bad.items()):
        chk.bad(fn, "IsoWeek::%s of (year, week, flags) = %s folds to %s, expected %s" % (fn, a, got, want), loc=P.loc(IW + "::" + fn))


def r_opt_wrappers(chk, P, tier=None):
    import rules
    rules.opt_wrappers(chk, P, ("naive::date::NaiveDate::",), floor=11)
