"""C08 — month stepping, single-field replacement, week helpers."""
import calendar_oracle as cal
from core import Prog, AnchorLost
from sym import Sym, pp, walk_terms, const_of
from rules import is_call, find_calls, arg_field, result_variant, callees, unref, extract_switch_map, accept_boxes
from finmap import Folder, show, Unknown
import e1

ND = "naive::date::NaiveDate::"
NDT = "naive::datetime::NaiveDateTime"


def rets(P, fn):
    return [p.ret for p in Sym(P, fn).paths() if p.end[0] == "return"]


def run(chk, tier):
    P = Prog("default")
    chk.configs.add("default")
    for r in (r_diff_months, r_month_direction, r_operator_directions, r_copy_ndt, r_zero_based, r_years_since, r_week, r_small, r_week_bounds, r_with_pairs, r_replace_map, r_absint):
        chk.guarded(r, P, tier)
    chk.assume("that clamping, n-th weekday and week bounds are numerically right for every date is not decided beyond the rules listed")
    return {
        "explanation": "C08 statically: diff_months clamps with the month-length table of the *target* year (February from the target year's class, other cells equal "
                       "the calendar), sub negates what add passes; every NaiveDateTime/DateTime with_* replaces exactly one of (date, time) and copies the other; 0-based "
                       "setters add 1 with checked_add; years_since compares (month, day[, time]) of both operands; NaiveWeek uses the non-panicking add_days; quarter, "
                       "year_ce, Month::num_days as finite maps / constants; all arithmetic on these paths overflow-free (abstract interpretation).",
        "trusted_base": ["specs/tables/calendar_oracle.py", "analysis/sym.py", "analysis/abs*.py", "specs/justifications.txt"],
    }


def r_diff_months(chk, P, tier):
    """diff_months as a finite map (def-use terms folded, no execution; independent of how the month lengths are written): one representative year per year
    class x 12 months x days 28..=31 x month deltas around 0, +-1 year; expected: calendar month arithmetic with the day clamped to the target month's length"""
    from finmap import Folder, show, Unknown
    from props.c01 import _c, _date, _yof_of, flags_of, INT
    from rules import table_value
    chk.rule("TBL.diff_months", "diff_months(date, n) = the same day of month n months away, clamped to that month's length (Feb by the TARGET year), for every year class, month, day 28..=31 and n in -13..=13", floor=4)
    fo = Folder(P, max_depth=10)
    tbl = [flags_of(c) for c in table_value(P, INT + "::YEAR_TO_FLAGS")]

    def yof(y, o):
        return (y << 13) | (o << 4) | tbl[y % 400]
    reps = {}
    for y in range(2000, 2400):
        reps.setdefault(tbl[y % 400], y)
    # the century years are enumerated as well (a leap rule that ignores the 100/400 exceptions differs only there)
    for y in (1900, 2000, 2100, 2200, 2300, 2400):
        reps[("century", y)] = y
    if tier == "thorough":
        for y in range(2000, 2400):
            reps[("all", y)] = y
    deltas = (-13, -12, -11, -2, -1, 0, 1, 2, 11, 12, 13)
    bad = {}
    n = 0
    fn = ND + "diff_months"
    for y in sorted(reps.values()):
        for m in range(1, 13):
            for d in range(28, cal.days_in_month(y, m) + 1):
                for k in deltas:
                    n += 1
                    tot = y * 12 + (m - 1) + k
                    ty, tm = tot // 12, tot % 12 + 1
                    td = min(d, cal.days_in_month(ty, tm))
                    want = yof(ty, cal.ordinal(ty, tm, td))
                    try:
                        got = _yof_of(show(fo.call(fn, [_date(yof(y, cal.ordinal(y, m, d))), _c(k)])))
                    except Unknown as e:
                        got = "unknown: %s" % e
                    if got != want:
                        key = "clamp to February" if tm == 2 else ("year crossing" if ty != y else "same year")
                        bad.setdefault(key, ((y, m, d, k), got, want))
    for key in ("clamp to February", "year crossing", "same year"):
        chk.expect(key not in bad, key, "diff_months(%s-%02d-%02d, %+d months) = %s, calendar says %s" % (bad[key][0] + (bad[key][1], bad[key][2]) if key in bad else (0, 0, 0, 0, 0, 0)), loc=P.loc(fn), detail_ok="%d evaluations" % n)
    # lemma for the years not enumerated: the year enters diff_months only through the month split (/ 12, % 12 incl. euclid forms), YearFlags::from_year,
    # from_ymd_opt and the range tests - no other division, remainder or mask of the year (a hand-rolled leap rule would be one)
    odd = []
    for p_ in Sym(P, fn).paths():
        for t in [c[1] for c in p_.conds] + ([p_.ret] if p_.ret else []) + list(p_.calls):
            for x in walk_terms(t):
                if x[0] == "bin" and x[1] in ("Rem", "Div", "BitAnd") and const_of(x[3]) not in (12, None) and any(is_call(y, suffix="::year") or y == ("arg", 1) for y in walk_terms(x[2])):
                    odd.append(pp(x)[:70])
                if is_call(x) and str(x[1]).split("::")[-1] in ("rem_euclid", "div_euclid") and len(x[2]) == 2 and const_of(x[2][1]) != 12 and any(is_call(y, suffix="::year") for y in walk_terms(x[2][0])):
                    odd.append(pp(x)[:70])
    chk.expect(not odd, "year used only via the month split and YearFlags", "diff_months computes with the year outside the month split / YearFlags::from_year: %s (the class representatives do not cover such a dependence)" % sorted(set(odd))[:3], loc=P.loc(fn))

def r_month_direction(chk, P, tier):
    chk.rule("SIB.months", "checked_add_months passes +months, checked_sub_months -months to diff_months; zero months returns self", floor=4)
    for m, neg in (("checked_add_months", False), ("checked_sub_months", True)):
        r = rets(P, ND + m)
        dm = [x for x in r if is_call(x, name=ND + "diff_months")]
        ok = len(dm) == 1 and dm[0][2][0] == ("arg", 1)
        if ok:
            a = dm[0][2][1]
            isneg = a[0] == "un" and a[1] == "Neg"
            ok = isneg == neg
        ident = [x for x in r if result_variant(x)[0] == "Some" and x[4][0] == ("arg", 1)]
        chk.expect(ok and len(ident) == 1, m, "%s: %s" % (m, [pp(x) for x in r]), loc=P.loc(ND + m))
        r2 = rets(P, NDT + "::" + m)
        some = [x for x in r2 if result_variant(x)[0] == "Some"]
        ok = len(some) == 1 and some[0][4][0][0] == "agg" and arg_field(some[0][4][0][4][1]) == (1, 1) and any(
            c[1] == ND + m and arg_field(c[2][0]) == (1, 0) for c in find_calls(some[0][4][0][4][0]))
        chk.expect(ok, "NaiveDateTime::" + m, "NaiveDateTime::%s does not step the date and copy the time: %s" % (m, [pp(x) for x in r2]), loc=P.loc(NDT + "::" + m))


DATELIKE = ["with_year", "with_month", "with_month0", "with_day", "with_day0", "with_ordinal", "with_ordinal0"]
TIMELIKE = ["with_hour", "with_minute", "with_second", "with_nanosecond"]


def r_copy_ndt(chk, P, tier):
    chk.rule("COPY.ndt_with", "every NaiveDateTime::with_* maps the same-named setter over one component and copies the other", floor=11)
    for tr, ms, comp, inner in (("traits::Datelike", DATELIKE, 0, "<naive::date::NaiveDate as traits::Datelike>::"),
                                ("traits::Timelike", TIMELIKE, 1, "<naive::time::NaiveTime as traits::Timelike>::")):
        for m in ms:
            fn = "<%s as %s>::%s" % (NDT, tr, m)
            r = rets(P, fn)
            ok = len(r) == 1 and is_call(r[0], suffix="Option::<T>::map") and is_call(r[0][2][0], name=inner + m) and arg_field(r[0][2][0][2][0]) == (1, comp)
            cr = rets(P, fn + "::{closure#0}")
            ok = ok and len(cr) == 1 and cr[0][0] == "agg" and cr[0][2] == NDT
            if ok:
                new, kept = cr[0][4][comp], cr[0][4][1 - comp]
                k = unref(kept)
                ok = new == ("arg", 2) and k[0] == "field" and k[2] == 1 - comp
            chk.expect(ok, m, "%s: %s / closure %s" % (fn, [pp(x) for x in r], [pp(x) for x in cr]), loc=P.loc(fn))


def r_zero_based(chk, P, tier):
    chk.rule("CHECKED.zero_based", "0-based setters add 1 with checked_add before delegating to the 1-based setter", floor=3)
    for m in ("with_month0", "with_day0", "with_ordinal0"):
        fn = "<naive::date::NaiveDate as traits::Datelike>::" + m
        cm = []
        plain = []
        for p in Sym(P, fn).paths():
            for t in ([p.ret] if p.ret else []) + [c[1] for c in p.conds]:
                for x in walk_terms(t):
                    if is_call(x, suffix="::checked_add") and x[2][0] == ("arg", 2) and const_of(x[2][1]) == 1:
                        cm.append(x)
                    if x[0] == "bin" and x[1].startswith("Add") and ("arg", 2) in (x[2], x[3]):
                        plain.append(pp(x))
        chk.expect(cm and not plain, m, "%s: +1 on the argument must be checked_add (plain adds: %s)" % (m, plain[:2]), loc=P.loc(fn))


def r_years_since(chk, P, tier):
    chk.rule("READS.years_since", "years_since compares (month, day) [and time] of both operands", floor=2)
    for fn, parts in ((ND + "years_since", ["month", "day"]), ("datetime::DateTime::<Tz>::years_since", ["month", "day", "time"])):
        found = None
        for p in Sym(P, fn).paths():
            for t_ in [c[1] for c in p.conds]:
                for x in walk_terms(t_):
                    if x[0] == "call" and isinstance(x[1], str) and "PartialOrd for" in x[1] and len(x[2]) == 2:
                        found = (x[2][0], x[2][1])
                    if x[0] == "bin" and x[1] in ("Lt", "Gt", "Le", "Ge") and find_calls(x[2]) and find_calls(x[3]):
                        found = (x[2], x[3])
        ok = found is not None
        if ok:
            sides = []
            for i, a in enumerate(found):
                cs = [c for c in walk_terms(a) if c[0] == "call" and c[1].split("::")[-1] in ("month", "day", "time", "year", "ordinal")]
                sides.append(([c[1].split("::")[-1] for c in cs], {arg_field(c[2][0])[0] if arg_field(c[2][0]) else None for c in cs}))
            ok = [s[0] for s in sides] == [parts, parts] and sides[0][1] != sides[1][1] and all(len(s[1]) == 1 and None not in s[1] for s in sides)
        chk.expect(ok, fn, "%s does not compare %s of self with those of base: %s" % (fn, parts, [pp(x)[:120] for x in found] if found else None), loc=P.loc(fn))


def r_week(chk, P, tier):
    chk.rule("REACH.week", "NaiveWeek::checked_* use the non-panicking add_days / checked days arithmetic", floor=3)
    for m in ("checked_first_day", "checked_last_day", "checked_days"):
        fn = "naive::NaiveWeek::" + m
        seen = P.reachable_from([fn])
        bad = [n for n in seen if n.startswith("<naive::date::NaiveDate as std::ops::")]
        chk.expect(not bad and (ND + "add_days" in seen), m, "%s reaches panicking operators %s" % (m, bad), loc=P.loc(fn))


def r_small(chk, P, tier):
    chk.rule("MAP.small", "quarter() for months 1..=12, Month::num_days' table, year_ce split", floor=3)
    r = rets(P, "traits::Datelike::quarter")
    ok = len(r) == 1
    if ok:
        consts = sorted(const_of(x[3]) if x[0] == "bin" else const_of(x[2][1]) for x in walk_terms(r[0])
                        if (x[0] == "bin" and const_of(x[3]) is not None) or (x[0] == "call" and len(x[2]) == 2 and const_of(x[2][1]) is not None))
        ok = consts == [1, 1, 3]
    chk.expect(ok, "quarter", "quarter() is not (month - 1) / 3 + 1: %s" % [pp(x) for x in r])
    # Month::num_days: constant arms
    m = {}
    for p in Sym(P, "month::Month::num_days").paths():
        if p.end[0] != "return" or result_variant(p.ret)[0] != "Some":
            continue
        sw = [c for c in p.conds if c[0][0] == "switch" and c[1][0] == "discr"]
        v = const_of(p.ret[4][0])
        if sw and not isinstance(sw[0][2], tuple) and v is not None:
            m.setdefault(sw[0][2], set()).add(v)
    exp = {i: ({d} if i != 1 else {28, 29}) for i, d in enumerate(cal.MONTH_DAYS)}
    chk.expect(m == exp, "Month::num_days", "Month::num_days table %s, calendar says %s" % (m, exp), loc=P.loc("month::Month::num_days"))
    r = rets(P, "traits::Datelike::year_ce")
    ok = len(r) == 2 and all(x[0] == "agg" and x[1] == "tuple" for x in r)
    chk.expect(ok, "year_ce", "year_ce: %s" % [pp(x) for x in r])


def r_absint(chk, P, tier):
    res = e1.run_engine(P, tier)
    names = ("diff_months", "checked_add_months", "checked_sub_months", "with_month0", "with_day0", "with_ordinal0", "with_ordinal", "with_month", "with_day", "with_year",
             "from_weekday_of_month_opt", "years_since", "checked_first_day", "checked_last_day", "checked_days", "with_mdf", "quarter", "year_ce", "num_days", "week")
    e1.report(chk, P, res, "ABSINT.fields", "arithmetic, casts and index operations of month stepping / field replacement / week helpers are discharged or justified",
              fn_filter=lambda fn: fn.split("::{")[0].split("::")[-1] in names, floor=20)


def r_week_bounds(chk, P, tier):
    """NaiveWeek::checked_first_day / checked_last_day as finite maps (def-use terms folded, no execution) over: the last 14 days before NaiveDate::MAX
    and the first 14 after NaiveDate::MIN, and the first and last 8 days of one representative year per year class (year crossings), each with all 7
    week starts; thorough: every day of the representative years. Oracle: first = date - ((weekday - start) mod 7), last = first + 6, None outside the range."""
    from finmap import Folder, show, Unknown
    import calendar_oracle as cal
    from props.c01 import _c, _date, _wd, _yof_of, flags_of, INT
    from rules import table_value
    chk.rule("MAP.week_bounds", "checked_first_day / checked_last_day of every (date, week start) at both range ends and around every kind of year boundary equal the calendar's week bounds (None beyond the range)", floor=2)
    fo = Folder(P, max_depth=10)
    tbl = [flags_of(c) for c in table_value(P, INT + "::YEAR_TO_FLAGS")]
    miny, maxy = P.value("naive::date::MIN_YEAR"), P.value("naive::date::MAX_YEAR")
    NW = "naive::NaiveWeek"

    def yof(y, o):
        return (y << 13) | (o << 4) | tbl[y % 400]

    def shift(y, o, k):
        """(year, ordinal) k days later, or None beyond the supported range"""
        o += k
        while o < 1:
            y -= 1
            o += cal.days_in_year(y)
        while o > cal.days_in_year(y):
            o -= cal.days_in_year(y)
            y += 1
        return (y, o) if miny <= y <= maxy else None
    reps = {}
    for y in range(2000, 2400):
        reps.setdefault(tbl[y % 400], y)
    dates = []
    ndm = cal.days_in_year(maxy)
    dates += [(maxy, o) for o in range(ndm - 13, ndm + 1)] + [(miny, o) for o in range(1, 15)]
    for y in sorted(reps.values()):
        nd = cal.days_in_year(y)
        rng = range(1, nd + 1) if tier == "thorough" else list(range(1, 9)) + list(range(nd - 7, nd + 1))
        dates += [(y, o) for o in rng]
    bad = {}
    n = 0
    for (y, o) in dates:
        m_, d_ = cal.from_ordinal(y, o)
        wd = cal.weekday(y, m_, d_)      # 0 = Monday
        for st in range(7):
            back = (wd - st) % 7
            first = shift(y, o, -back)
            last = shift(y, o, -back + 6)
            wk = ("agg", "adt", NW, "NaiveWeek", (_date(yof(y, o)), _wd(P, st)), 0)
            for name, want in (("checked_first_day", first), ("checked_last_day", last)):
                n += 1
                try:
                    got = _yof_of(show(fo.call(NW + "::" + name, [("ref", wk)])))
                except Unknown as e:
                    got = "unknown: %s" % e
                w = yof(*want) if want else None
                if got != w:
                    bad.setdefault(name, ((y, o, st), got, w))
    for name in ("checked_first_day", "checked_last_day"):
        chk.expect(name not in bad, name, "NaiveWeek::%s deviates at (year, ordinal, week start) %s: got %s, expected %s" % ((name,) + bad.get(name, ((), 0, 0))), loc=P.loc(NW + "::" + name), detail_ok="%d evaluations" % n)


def r_with_pairs(chk, P, tier):
    """DateTime's single-field replacements forward to the replacement of the SAME field on the wall-clock value; an "unchanged" shortcut may only consult the
    getter of that same field (with_month <-> month(), with_month0 <-> month0(), ...)"""
    from rules import callees
    chk.rule("PAIR.with_getter", "each DateTime::with_X closure calls NaiveDateTime::with_X and, if it looks at the current value, only the getter X()", floor=11)
    n = 0
    for name in sorted(P.fns):
        if not (name.startswith("<datetime::DateTime<Tz> as traits::") and "::with_" in name and name.endswith("::{closure#0}") and P.has(name)):
            continue
        field = name.split(">::with_")[1].split("::")[0]
        cs = {c.split("::")[-1] for c in callees(P, name) if c.startswith(("naive::", "<naive::"))}
        withs = {c for c in cs if c.startswith("with_")}
        getters = cs - withs
        n += 1
        chk.expect(withs == {"with_" + field} and getters <= {field}, "with_" + field, "DateTime::with_%s forwards to %s and consults %s (expected with_%s and at most the getter %s())" % (
            field, sorted(withs), sorted(getters), field, field), loc=P.loc(name))
    if n < 11:
        raise AnchorLost("only %d DateTime::with_* closures found" % n)


def r_replace_map(chk, P, tier):
    """single-field replacement, whole years elapsed and the n-th weekday of a month as region-representative value maps. Their pieces are delimited by the month lengths
    of the year class, ordinal 365/366, the argument ranges and (years_since) the order of the (month, day) keys. The def-use terms are folded (no execution) for one year per
    year class (all 14) and years at both range ends, dates on both sides of every month end and of the leap day, with replacement values on both sides of every bound
    (0, 1, 12, 13; 28..=32; 365..=367; the u32 / i32 ends), against the calendar oracle."""
    import calendar_oracle as cal
    from finmap import Folder, show, Unknown
    from props.c01 import _date, _yof_of, _wd, flags_of
    from rules import table_value
    chk.rule("MAP.replace", "NaiveDate::with_year / _month(0) / _day(0) / _ordinal(0), years_since and from_weekday_of_month_opt folded on all region boundaries equal the calendar oracle", floor=9000)
    fo = Folder(P, max_depth=12)
    tbl = [flags_of(c) for c in table_value(P, "naive::internals::YEAR_TO_FLAGS")]
    miny, maxy = P.value("naive::date::MIN_YEAR"), P.value("naive::date::MAX_YEAR")
    DL = "<naive::date::NaiveDate as traits::Datelike>::"

    def yof(y, o):
        return (y << 13) | (o << 4) | tbl[y % 400]

    def ymd(y, m, d):
        return yof(y, cal.ordinal(y, m, d)) if miny <= y <= maxy and 1 <= m <= 12 and 1 <= d <= cal.days_in_month(y, m) else None
    reps = {}
    for y in range(2000, 2400):
        reps.setdefault(tbl[y % 400], y)
    years = sorted(reps.values())
    quick = tier != "thorough"
    bad = {}
    n_ok = [0]

    def fold(fn, args):
        try:
            return _yof_of(show(fo.call(fn, args)))
        except Unknown as e:
            return "unknown: %s" % e

    def expect(cls, a, got, w):
        if got == w:
            n_ok[0] += 1
        else:
            bad.setdefault(cls, (a, got, w))
    U32 = 2**32 - 1
    leap_years = [y for y in years if cal.leap(y)]
    common_years = [y for y in years if not cal.leap(y)]
    setter_years = (leap_years[:2] + common_years[:2] if quick else years) + [1900, 2100, miny, maxy]        # + common years divisible by 4
    for y in setter_years:
        dates = [(1, 1), (1, 31), (2, 28), (3, 1), (3, 31), (4, 30), (8, 31), (12, 31)] + ([(2, 29)] if cal.leap(y) else [])
        for (m, d) in dates:
            base = ("ref", _date(ymd(y, m, d)))
            for m2 in (0, 1, 2, 3, 4, 6, 9, 11, 12, 13, 16, U32):
                expect("with_month", ((y, m, d), m2), fold(DL + "with_month", [base, ("const", m2)]), ymd(y, m2, d))
                expect("with_month0", ((y, m, d), m2), fold(DL + "with_month0", [base, ("const", m2)]), ymd(y, m2 + 1, d) if m2 < U32 else None)
            for d2 in (0, 1, 27, 28, 29, 30, 31, 32, U32):
                expect("with_day", ((y, m, d), d2), fold(DL + "with_day", [base, ("const", d2)]), ymd(y, m, d2))
                expect("with_day0", ((y, m, d), d2), fold(DL + "with_day0", [base, ("const", d2)]), ymd(y, m, d2 + 1) if d2 < U32 else None)
            for o2 in (0, 1, 59, 60, 61, 364, 365, 366, 367, 511, 512, U32):
                ok = 1 <= o2 <= cal.days_in_year(y)
                expect("with_ordinal", ((y, m, d), o2), fold(DL + "with_ordinal", [base, ("const", o2)]), yof(y, o2) if ok else None)
                ok0 = o2 < U32 and 1 <= o2 + 1 <= cal.days_in_year(y)
                expect("with_ordinal0", ((y, m, d), o2), fold(DL + "with_ordinal0", [base, ("const", o2)]), yof(y, o2 + 1) if ok0 else None)
            for y2 in years[:: (3 if quick else 1)] + [miny - 1, miny, maxy, maxy + 1, -(2**31), 2**31 - 1, 0, -1]:
                expect("with_year", ((y, m, d), y2), fold(DL + "with_year", [base, ("const", y2)]), ymd(y2, m, d))
    # whole years elapsed: later date vs base date on both sides of the anniversary, across the leap day
    keys = [(1, 1), (2, 28), (2, 29), (3, 1), (6, 15), (12, 31)]
    ys = (leap_years[:2] + common_years[:3] if quick else years) + [1900, miny, maxy]
    for y1 in ys:
        for y2 in ys:
            for (m1, d1) in keys:
                for (m2, d2) in keys:
                    a, b = ymd(y1, m1, d1), ymd(y2, m2, d2)
                    if a is None or b is None:
                        continue
                    yrs = y1 - y2 - (1 if (m1, d1) < (m2, d2) else 0)
                    w = yrs if yrs >= 0 else "Option::None"
                    try:
                        got = show(fo.call(ND + "years_since", [("ref", _date(a)), _date(b)]))
                        got = got[1] if isinstance(got, tuple) and got[0] == "Option::Some" else got
                    except Unknown as e:
                        got = "unknown: %s" % e
                    expect("years_since", ((y1, m1, d1), (y2, m2, d2)), got, w)
    # n-th weekday of a month
    for y in years + [1900, 2100]:
        for m in range(1, 13):
            first_wd = cal.weekday(y, m, 1)
            for wd in range(7):
                for n in ((0, 1, 4, 5, 6) if quick else (0, 1, 2, 3, 4, 5, 6, 255)):
                    day = 1 + (wd - first_wd) % 7 + (n - 1) * 7
                    w = ymd(y, m, day) if n >= 1 else None
                    expect("from_weekday_of_month_opt", (y, m, wd, n), fold(ND + "from_weekday_of_month_opt", [("const", y), ("const", m), _wd(P, wd), ("const", n)]), w)
    for _ in range(n_ok[0]):
        chk.ok("value")
    for cls, (a, got, w) in sorted(bad.items()):
        fnp = (DL + cls) if cls.startswith("with_") else ND + cls
        chk.bad(cls, "%s%s folds to %s, the calendar gives %s" % (cls, a, got, w), loc=P.loc(fnp) if P.has(fnp) else None)


def r_operator_directions(chk, P, tier=None):
    import rules
    rules.operator_directions(chk, P, {"month::Months", "naive::Days"}, floor=12)
