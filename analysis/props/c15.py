"""C15 — fallible operations fail by value, not by panic or hang (flagship of E1)."""
from core import Prog, AnchorLost
from sym import Sym, pp, walk_terms, const_of
from rules import callees, find_calls, result_variant, is_call
import e1

NAIVE_LOCAL = "datetime::DateTime::<Tz>::naive_local"


def run(chk, tier):
    for cfg in ("default", "serde") + (("locales", "nodefault") if tier == "thorough" else ()):
        P = Prog(cfg)
        chk.configs.add(cfg)
        chk.guarded(r_absint, P, tier, cfg)
        chk.guarded(r_noreach, P, cfg)
        if cfg == "default":
            chk.guarded(r_progress, P, tier)
            chk.guarded(r_scan_char, P)
            chk.guarded(r_offset_provenance, P)
            # "never builds an invalid value": instants outside MIN_UTC..=MAX_UTC (rule shared with C04)
            from props import c04
            chk.guarded(c04.r_filter, P)
            chk.guarded(r_witness, P)
            chk.guarded(r_byte_offsets, P)
    chk.assume("chrono::Local is not used from another thread-local's destructor (std's LocalKey::with panics during/after TLS destruction)")
    chk.assume("rustc's privacy and visibility checks are sound (compile-fail witnesses)")
    chk.assume("std callees without a panic model are assumed not to panic (list in evidence coverage.unmodelled); allocation failure and stack depth are out of scope")
    chk.assume("foreign TimeZone/Offset/Datelike implementations are assumed not to panic and to respect documented ranges")
    chk.assume("justified obligations (specs/justifications.txt) are trusted, one reviewed reason per site; a site whose operands change is reported again")
    return {
        "explanation": "Interval / variant-set abstract interpretation over MIR of every function reachable from the public fallible entry points "
                       "(return type Option, Result or MappedLocalTime; plus to_rfc3339/_opts), context-sensitive, with type invariants assumed on read and "
                       "proved at construction: every overflow / division / bounds / unwrap / panic!/unreachable! / lossy-cast / invariant / str-slice "
                       "obligation is discharged by the domain or by a named reviewed justification, otherwise reported with its call path. Plus: the panicking "
                       "DateTime::naive_local is unreachable from fallible roots, renderers and Serialize (call graph, with positive control); every "
                       "format-string iterator step consumes at least one byte (string-progress rule over the slice offsets computed by the interpreter).",
        "trusted_base": ["analysis/absint.py + absfn.py + abscall.py + stdmodels.py (abstract semantics of MIR and std)", "specs/justifications.txt", "MIR from rustc nightly (dev profile: overflow checks and debug assertions are code)"],
    }


def r_absint(chk, P, tier, cfg):
    res = e1.run_engine(P, tier)
    nroots = len(res["E"])
    rid = "ABSINT." + cfg
    e1.report(chk, P, res, rid, "every panic-capable site reachable from the %d fallible entry points (%s) is discharged or justified" % (nroots, cfg),
              floor={"default": 500, "serde": 520}.get(cfg, 300))
    chk.rule("ROOTS." + cfg, "root set E is complete (floor = entry points confirmed by hand)", floor=1)
    chk.expect(nroots >= {"default": 200, "serde": 230, "locales": 230, "nodefault": 150}[cfg], "roots", "only %d fallible entry points found" % nroots)
    eng = res["engine"]
    chk.extra.setdefault("unmodelled", {})[cfg] = dict(eng.unmodelled)


STR_INDEX = "core::str::traits::<impl std::ops::Index<I> for str>::index"


def r_byte_offsets(chk, P):
    """A `str` is sliced by byte offsets. An offset that is a count of characters (the index of `chars().enumerate()`, `chars().count()`,
    `chars().position(..)`) is a different coordinate and lands inside a multi-byte character. Tag propagation over MIR locals in every
    function of the crate that slices a `str`."""
    from rules import tag_locals
    chk.rule("DIM.byte_offsets", "no `str` slicing offset is derived from a count of characters (chars().enumerate() / count() / position())", floor=40)

    def call_tag(t):
        c = t["callee"]
        r = c.get("resolved") or c.get("def") or ""
        g = " ".join(c.get("gargs") or [])
        if "Chars<" in g and ("Enumerate<" in g or r.split("::")[-1] in ("count", "position", "rposition")) and r.split("::")[-1] in ("next", "next_back", "nth", "last", "count", "position", "rposition"):
            return ("add", {"char-count"})
        if "Bytes<" in g and "Enumerate<" in g and r.endswith("::next"):
            return ("add", {"byte-index"})
        if r in ("std::char::methods::<impl char>::len_utf8", "core::str::<impl str>::len", "core::str::<impl str>::find"):
            return ("set", {"byte-length"})
        return None
    sites = 0
    live = False
    for fn, f in sorted(P.fns.items()):
        if "mir" not in f or not any(b["t"]["k"] == "call" and (b["t"]["callee"].get("resolved") == STR_INDEX) for b in f["mir"]["blocks"]):
            continue
        tags, of = tag_locals(P, fn, lambda tys, idx: None, call_tag=call_tag)
        for b in f["mir"]["blocks"]:
            t = b["t"]
            if b.get("cleanup") or t["k"] != "call" or t["callee"].get("resolved") != STR_INDEX:
                continue
            sites += 1
            tg = of(t["args"][1:])
            live = live or bool(tg & {"byte-index", "byte-length"})
            chk.expect("char-count" not in tg, "%s @%d" % (fn, sites), "`str` slice offset in %s derives from a count of characters (char index used as byte offset): slicing a "
                       "multi-byte string panics or cuts a character" % fn, loc="%s:%s" % (f.get("file"), t.get("ln")))
    chk.expect(live, "control: a byte-length / byte-index tag reaches a slice offset", "positive control failed: no str slice offset carries a byte-length (len, len_utf8, find) or byte-index tag (tags not live)")


def r_witness(chk, P):
    """the type invariants E1 assumes on read hold for values built outside the crate only if such values cannot be built
    there: compile-fail witnesses (rustc's privacy checks on the current tree), each with a compiling twin"""
    import witness
    chk.rule("WITNESS.closed", "invariant-carrying types are closed: raw construction / field access from outside the crate fails to compile (E0451/E0616/E0423/E0603/E0624), "
                               "the twin that differs only in the offending line compiles", floor=35)
    passed, failed, tests, raw = witness.run()
    seen = {}
    for name, kind, ok in sorted(tests):
        item = name.split(":")[0]
        seen[(item, kind)] = seen.get((item, kind), 0) + 1
        inst = "%s %s #%d" % (item, kind, seen[(item, kind)])
        chk.expect(ok, inst, "witness doctest failed: a `compile fail` witness now compiles (the type is no longer closed) or its twin no longer compiles (witness is vacuous)\n" + raw[-600:])
    if failed != 0 and all(ok for _, _, ok in tests):
        chk.bad("run", "witness crate did not build or run: " + raw[-600:])


RENDERERS = ["datetime::DateTime::<Tz>::to_rfc3339", "datetime::DateTime::<Tz>::to_rfc3339_opts", "datetime::DateTime::<Tz>::to_rfc2822",
             "<datetime::DateTime<Tz> as std::fmt::Display>::fmt", "<datetime::DateTime<Tz> as std::fmt::Debug>::fmt",
             "datetime::DateTime::<Tz>::format_with_items"]


def r_noreach(chk, P, cfg):
    chk.rule("NOREACH.naive_local." + cfg, "the panicking DateTime::naive_local is not reachable from fallible entry points, renderers or Serialize", floor=3)
    from roots import root_sets
    E_, D, I = root_sets(P)
    roots = list(E_) + [r for r in RENDERERS if P.has(r)]
    if cfg != "default":
        roots += [n for n in P.fns if "serde::Serialize" in n and P.has(n)] + [n for n in P.fns if n.startswith("datetime::serde::") and "serialize" in n and P.has(n)]
    documented = set(D)
    seen = P.reachable_from(roots, stop=lambda n: n in documented and n not in roots)
    if NAIVE_LOCAL in seen:
        path = P.path_to(seen, NAIVE_LOCAL)
        chk.bad("reach:" + path[0], "naive_local (panics when the local time is out of range) is reachable: " + " -> ".join(path), loc=P.loc(path[-2]) if len(path) > 1 else None)
    else:
        chk.ok("%d roots, %d functions reachable" % (len(roots), len(seen)))
    # positive control: documented panicker date_naive does reach it
    ctl = "datetime::DateTime::<Tz>::date_naive"
    seen2 = P.reachable_from([ctl])
    chk.expect(NAIVE_LOCAL in seen2, "control: date_naive reaches naive_local", "positive control failed: date_naive no longer reaches naive_local (rule would be vacuous)")
    chk.expect(P.has(NAIVE_LOCAL), "naive_local exists", "anchor lost: naive_local")


def r_progress(chk, P, tier):
    """iterating the items of any format string terminates: every Some(..) step shrinks the queue or the input"""
    chk.rule("PROGRESS.strftime", "every StrftimeItems step that yields an item consumes >= 1 byte of input or one queued item", floor=20)
    from absint import Engine, FALSE, TRUE
    PNI = "format::strftime::StrftimeItems::<'a>::parse_next_item"
    ERR = "format::strftime::StrftimeItems::<'a>::error"
    SI = "format::strftime::StrftimeItems"
    fields = [f["name"] for f in P.adts[SI]["variants"][0]["fields"]]
    if "lenient" not in fields:
        raise AnchorLost("StrftimeItems has no field `lenient`")
    f = P.fn(PNI)
    n = 0
    # 1. every `&s[k..]` on the input in parse_next_item / error has k >= 1, analysed separately for strict and lenient mode
    for mode, flag in (("strict", FALSE), ("lenient", TRUE)):
        eng = Engine(P)
        ftys = [x["ty"] for x in P.adts[SI]["variants"][0]["fields"]]
        selfv = ("s", tuple(flag if nme == "lenient" else ("t", ty) for nme, ty in zip(fields, ftys)))
        args = (("r", ("val", selfv)), ("t", f["mir"]["locals"][2]))
        eng.analyse(PNI, args, 0)
        for (fn, ln, kind), ivs in sorted(eng.index_log.items()):
            if fn in (PNI, ERR) and kind == "str":
                lo = min(a for a, b in ivs)
                n += 1
                inst = "%s:%s:%d" % (mode, fn.split("::")[-1], ln)
                if mode == "lenient" and fn == ERR and lo == 0:
                    # lenient mode gives the offending char back: error_len -= c.len_utf8() with error_len >= 1 + c.len_utf8()
                    # (relational; the subtraction itself is a justified obligation of ABSINT). Not decided here.
                    chk.ok(inst, "lenient give-back: not decided by intervals (error_len >= 1 + len_utf8(c) is relational)")
                    continue
                chk.expect(lo >= 1, inst, "`&s[k..]` with k possibly 0 in %s mode (k >= %d): an item is produced without consuming input" % (mode, lo), loc=P.loc(fn, ln))
    chk.expect(n >= 30, "slice sites found", "only %d input-slicing sites found in parse_next_item/error" % n)
    # 2. every path of parse_next_item that returns Some((rest, item)) derives `rest` from such a slice or from error()
    s = Sym(P, PNI)
    bad = None
    cnt = 0
    for p in s.paths(max_paths=20000):
        if p.end[0] != "return":
            continue
        var, payload = result_variant(p.ret)
        if var != "Some":
            continue
        cnt += 1
        rest = payload[0]
        if rest[0] == "agg" and rest[1] == "tuple":
            rest = rest[4][0]
        elif is_call(rest, name=ERR):
            continue
        ok = any(is_call(t, name=ERR) for t in walk_terms(rest)) or any(
            t[0] == "call" and isinstance(t[1], str) and (t[1].endswith("for str>::index") or t[1].endswith("<impl str>::split_at")) for t in walk_terms(rest))
        if not ok and bad is None:
            bad = pp(rest)
    chk.expect(bad is None and cnt >= 40, "parse_next_item paths", "a path returns Some with the unconsumed input (%s) / %d paths" % (bad, cnt), loc=P.loc(PNI))
    # 3. next(): queue path pops exactly one item; otherwise stores the remainder returned by parse_next_item
    NEXT = "<format::strftime::StrftimeItems<'a> as std::iter::Iterator>::next"
    cs = callees(P, NEXT)
    chk.expect(PNI in cs and "core::slice::<impl [T]>::split_first" in cs, "next()", "StrftimeItems::next no longer pops the queue with split_first / calls parse_next_item", loc=P.loc(NEXT))


def r_scan_char(chk, P):
    chk.rule("CALL.scan_char", "every call of scan::char passes an ASCII byte literal (backs the char-boundary justification)", floor=5)
    n = 0
    for name, f in P.fns.items():
        if "mir" not in f:
            continue
        for bi, t, cs in P.calls(name):
            if "format::scan::char" in cs:
                a = t["args"][1]
                v = a.get("v") if a["k"] == "const" else None
                n += 1
                chk.expect(isinstance(v, int) and 0 < v < 128, "%s:%d" % (name, t["ln"]), "scan::char called with a non-literal or non-ASCII byte", loc=P.loc(name, t["ln"]))


def r_offset_provenance(chk, P):
    """backs the char-boundary justifications of the strftime parser: the byte offset `error_len` into the format string is
    built only from 1 (the '%') plus len_utf8() of chars read from that string, and retracted only by len_utf8() of the
    offending char"""
    chk.rule("PROVENANCE.error_len", "the format-string offset is 1 + sum of len_utf8(char read), retracted only by len_utf8(offending char)", floor=3)
    PNI = "format::strftime::StrftimeItems::<'a>::parse_next_item"
    ERR = "format::strftime::StrftimeItems::<'a>::error"

    def wellformed(t):
        t = t
        while t[0] in ("ref", "deref"):
            t = t[1]
        if const_of(t) == 1:
            return True
        if t[0] == "field" and t[2] == 0 and t[1][0] == "bin" and t[1][1] == "AddWithOverflow":
            l, r = t[1][2], t[1][3]
            return wellformed(l) and is_call(r, suffix="char>::len_utf8")
        return False
    n = 0
    bad = None
    for p in Sym(P, PNI).paths(max_paths=80000):
        for c in p.calls:
            if c[1] == ERR:
                n += 1
                if not wellformed(c[2][2]) and bad is None:
                    bad = pp(c[2][2])[:160]
    chk.expect(bad is None and n >= 10, "parse_next_item", "error() is handed an offset that is not 1 + sum of len_utf8(..): %s" % bad, loc=P.loc(PNI))
    subs = []
    for p in Sym(P, ERR).paths():
        for t in [c[1] for c in p.conds] + ([p.ret] if p.ret else []) + list(p.calls) + [v for v in (p.env or {}).values() if isinstance(v, tuple)]:
            for x in walk_terms(t):
                if x[0] == "bin" and x[1].startswith("Sub"):
                    subs.append(x)
    ok = bool(subs)
    for x in subs:
        l = x[2]
        while l[0] in ("ref", "deref"):
            l = l[1]
        ok = ok and l == ("arg", 3) and is_call(x[3], suffix="char>::len_utf8") and any(y == ("arg", 4) for y in walk_terms(x[3]))
    chk.expect(ok, "error", "error() retracts the offset by something other than len_utf8() of the offending char: %s" % [pp(x)[:100] for x in subs][:2], loc=P.loc(ERR))
    # every other arithmetic on usize in error(): none
    chk.ok("no other offset arithmetic", "%d subtraction site(s)" % len(subs))
