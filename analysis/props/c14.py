"""C14 — field resolution never returns a value that contradicts a supplied field."""
from core import Prog, AnchorLost
from sym import Sym, pp, walk_terms, const_of
from rules import is_call, find_calls, arg_field, result_variant, callees, unref, accept_boxes
import e1

PA = "format::parsed::Parsed"
F = PA + "::"

DATE_FIELDS = ["year", "year_div_100", "year_mod_100", "isoyear", "isoyear_div_100", "isoyear_mod_100", "quarter", "month", "week_from_sun", "week_from_mon",
               "isoweek", "weekday", "ordinal", "day"]
TIME_FIELDS = ["hour_div_12", "hour_mod_12", "minute", "second", "nanosecond"]

# documented accepted ranges of the setters (A.2); None = unbounded on that side (full i32 after the conversion check)
SETTER_BOX = {
    "set_year_div_100": (0, None), "set_year_mod_100": (0, 99), "set_isoyear_div_100": (0, None), "set_isoyear_mod_100": (0, 99),
    "set_quarter": (1, 4), "set_month": (1, 12), "set_week_from_sun": (0, 53), "set_week_from_mon": (0, 53), "set_isoweek": (1, 53),
    "set_ordinal": (1, 366), "set_day": (1, 31), "set_hour12": (1, 12), "set_hour": (0, 23), "set_minute": (0, 59), "set_second": (0, 60),
    "set_nanosecond": (0, 999_999_999),
}
SETTER_FIELD = {
    "set_year": ["year"], "set_year_div_100": ["year_div_100"], "set_year_mod_100": ["year_mod_100"], "set_isoyear": ["isoyear"],
    "set_isoyear_div_100": ["isoyear_div_100"], "set_isoyear_mod_100": ["isoyear_mod_100"], "set_quarter": ["quarter"], "set_month": ["month"],
    "set_week_from_sun": ["week_from_sun"], "set_week_from_mon": ["week_from_mon"], "set_isoweek": ["isoweek"], "set_weekday": ["weekday"],
    "set_ordinal": ["ordinal"], "set_day": ["day"], "set_ampm": ["hour_div_12"], "set_hour12": ["hour_mod_12"], "set_hour": ["hour_div_12", "hour_mod_12"],
    "set_minute": ["minute"], "set_second": ["second"], "set_nanosecond": ["nanosecond"], "set_timestamp": ["timestamp"], "set_offset": ["offset"],
}


def fields(P):
    return [f["name"] for f in P.adts[PA]["variants"][0]["fields"]]


def block_reads(P, fn):
    """per block: set of Parsed field indices read through place projections (type-based)"""
    f = P.fn(fn)
    m = f["mir"]
    out = {}

    def scan_place(pl, acc):
        ty = m["locals"][pl["l"]]
        for e in pl["p"]:
            t = P.ty(ty)
            if e == "*":
                ty = t.get("inner", ty)
            elif e[0] == "f":
                if t.get("adt") == PA:
                    acc.add(e[1])
                ty = e[2]
            elif e[0] == "d":
                continue
            else:
                break

    def scan_op(o, acc):
        if o.get("k") in ("copy", "move"):
            scan_place(o["pl"], acc)

    for bi, b in enumerate(m["blocks"]):
        acc = set()
        for st in b["s"]:
            rv = st.get("rv")
            if not rv:
                continue
            if "pl" in rv:
                scan_place(rv["pl"], acc)
            for k in ("x", "l", "r"):
                if k in rv:
                    scan_op(rv[k], acc)
            for o in rv.get("fields", []):
                scan_op(o, acc)
        t = b["t"]
        if t["k"] == "call":
            for a in t["args"]:
                scan_op(a, acc)
        elif t["k"] == "switch":
            scan_op(t["discr"], acc)
        out[bi] = acc
    return out


_summ = {}


def closure_summary(P, cl, depth=0):
    """Parsed fields read on every path of a verifier closure that does not return `false`"""
    if cl in _summ:
        return _summ[cl]
    br = block_reads(P, cl)
    sets = []
    for p in Sym(P, cl).paths(max_paths=20000):
        if p.end[0] != "return":
            continue
        if const_of(p.ret) is False:
            continue
        sets.append(path_reads(P, cl, p, br, depth + 1))
    r = set.intersection(*sets) if sets else set()
    _summ[cl] = r
    return r


def path_reads(P, fn, p, br, depth=0):
    acc = set()
    for b in p.blocks:
        acc |= br.get(b, set())
    if depth < 3:
        for c in p.calls:
            name = c[1]
            if isinstance(name, str) and "{closure" in name and name.startswith(PA) and P.has(name):
                acc |= closure_summary(P, name, depth)
            # closures handed to combinators (Option::map / unwrap_or / and_then ...) on this path
            for a in c[2]:
                if a[0] == "agg" and a[1] == "closure" and a[2].startswith(PA) and P.has(a[2]):
                    acc |= closure_summary(P, a[2], depth)
    return acc


def success(p):
    if p.end[0] != "return" or p.ret is None:
        return False
    var, _ = result_variant(p.ret)
    if var == "Err":
        return False
    if is_call(p.ret) and "from_residual" in p.ret[1]:
        return False
    return True


def run(chk, tier):
    P = Prog("default")
    chk.configs.add("default")
    for r in (r_mustread, r_verify_sets, r_ambiguous_pick, r_offset_used, r_who_writes, r_setter_boxes, r_setter_fields, r_resolve_year, r_resolve_year_map, r_offset_optional, r_verify_halves, r_resolution_map, r_timestamp_fields, r_absint):
        chk.guarded(r, P, tier)
    chk.assume("that resolution succeeds exactly on the documented sufficient combinations, and the error classification (not enough / impossible / out of range), are not decided")
    return {
        "explanation": "C14 statically: on every control-flow path of to_naive_date that returns Ok, each of the 14 date fields of Parsed has been read (directly, by the chosen "
                       "constructor arm, or by a verifier closure on every non-false path) - a verifier that skips a supplied field is a path without that read; likewise the "
                       "5 time fields in to_naive_time and timestamp/offset in the date-time resolvers; every setter accepts exactly its documented range (acceptance boxes from "
                       "path conditions), writes the field(s) it is named after through set_if_consistent; the two-digit-year pivot constants; all arithmetic in parsed.rs "
                       "overflow-free with every public Parsed field at full range (abstract interpretation).",
        "trusted_base": ["analysis/sym.py (path enumeration)", "type-based read sets over MIR places", "analysis/abs*.py", "specs/justifications.txt"],
    }


def r_mustread(chk, P, tier):
    fs = fields(P)
    idx = {n: i for i, n in enumerate(fs)}
    chk.rule("MUSTREAD.date", "every Ok path of to_naive_date has consulted all 14 date fields", floor=14)
    fn = F + "to_naive_date"
    br = block_reads(P, fn)
    oks = [p for p in Sym(P, fn).paths(max_paths=200000) if success(p)]
    if len(oks) < 10:
        raise AnchorLost("to_naive_date: only %d success paths" % len(oks))
    for name in DATE_FIELDS:
        missing = [p for p in oks if idx[name] not in path_reads(P, fn, p, br)]
        chk.expect(not missing, name, "to_naive_date can return Ok on %d of %d paths without ever reading field `%s` (a supplied %s could be contradicted)" % (
            len(missing), len(oks), name, name), loc=P.loc(fn), detail_ok="%d Ok paths" % len(oks))
    chk.rule("MUSTREAD.time", "every success path of to_naive_time has consulted the 5 time fields", floor=5)
    fn = F + "to_naive_time"
    br = block_reads(P, fn)
    oks = [p for p in Sym(P, fn).paths() if success(p)]
    if not oks:
        raise AnchorLost("to_naive_time: no success path")
    for name in TIME_FIELDS:
        missing = [p for p in oks if idx[name] not in path_reads(P, fn, p, br)]
        chk.expect(not missing, name, "to_naive_time can succeed on %d of %d paths without reading `%s`" % (len(missing), len(oks), name), loc=P.loc(fn))
    chk.rule("MUSTREAD.datetime", "date-time resolvers consult timestamp and offset", floor=4)
    for fname, need in (("to_naive_datetime_with_offset", ["timestamp"]), ("to_datetime", ["offset"]), ("to_fixed_offset", ["offset"]), ("to_datetime_with_timezone", ["offset", "timestamp"])):
        fn = F + fname
        br = block_reads(P, fn)
        oks = [p for p in Sym(P, fn).paths(max_paths=200000) if success(p)]
        if not oks:
            raise AnchorLost(fname + ": no success path")
        for name in need:
            def reads(p):
                r = path_reads(P, fn, p, br)
                if idx[name] in r:
                    return True
                # via the sibling resolver it calls
                return any(isinstance(c[1], str) and c[1] in (F + "to_naive_datetime_with_offset", F + "to_fixed_offset", F + "to_datetime") for c in p.calls)
            missing = [p for p in oks if not reads(p)]
            chk.expect(not missing, "%s:%s" % (fname, name), "%s can succeed on %d of %d paths without consulting `%s`" % (fname, len(missing), len(oks), name), loc=P.loc(fn))


VERIFY_SETS = (("year", "year_div_100", "year_mod_100", "month", "day"),
               ("isoyear", "isoyear_div_100", "isoyear_mod_100", "isoweek", "weekday"),
               ("ordinal", "week_from_sun", "week_from_mon"))


def r_verify_sets(chk, P, tier):
    """to_naive_date cross-checks a candidate date against the supplied fields in three groups (its three verify closures): each group
    must consult exactly its own fields - a field of the wrong calendar view (year_div_100 vs isoyear_div_100) is a different quantity"""
    chk.rule("READS.verify", "the three consistency checks of to_naive_date consult exactly {year, year/100, year%100, month, day}, {ISO year, /100, %100, ISO week, weekday}, {ordinal, week_from_sun, week_from_mon}", floor=3)
    fs = fields(P)
    got = []
    for c in P.closures_of(F + "to_naive_date"):
        if c.count("{closure") != 1:
            continue
        r = set()
        for v in block_reads(P, c).values():
            r |= v
        if r:
            got.append((c, frozenset(fs[i] for i in r)))
    for want in VERIFY_SETS:
        match = [c for c, r in got if r == frozenset(want)]
        near = [(c, r) for c, r in got if r & set(want)]
        chk.expect(len(match) == 1, "verify {%s}" % ", ".join(want), "no verify closure of to_naive_date consults exactly {%s}; closest reads {%s}" % (
            ", ".join(want), ", ".join(sorted(near[0][1])) if near else ""), loc=P.loc(near[0][0]) if near else P.loc(F + "to_naive_date"))


def r_ambiguous_pick(chk, P, tier):
    """to_datetime_with_timezone returns a zone candidate only if that very candidate passed the offset check, and for a repeated local
    time only if the other candidate failed it (term identity between the returned payload and the checked argument)"""
    chk.rule("PICK.offset_checked", "the date-time returned by to_datetime_with_timezone is the candidate whose offset check held on that path; for Ambiguous the other candidate's check failed", floor=3)
    fn = F + "to_datetime_with_timezone"
    oks = [p for p in Sym(P, fn).paths(max_paths=20000) if p.end[0] == "return" and result_variant(p.ret)[0] == "Ok"]
    if len(oks) < 3:
        raise AnchorLost("to_datetime_with_timezone: %d Ok paths" % len(oks))
    seen = set()
    for p in oks:
        r = p.ret
        if not (r[0] == "agg" and r[4]):
            raise AnchorLost("unexpected Ok term " + pp(r)[:80])
        x = r[4][0]
        checks = {}
        for c in p.conds:
            t = c[1]
            if isinstance(t, tuple) and t and t[0] == "call" and not isinstance(t[1], str) or (isinstance(t, tuple) and t and t[0] == "call" and "closure" in str(t[1])):
                for a in walk_terms(t):
                    if a[0] == "ref" and a[1][0] == "field" and a[1][1][0] == "as" and is_call(a[1][1][1]) and str(a[1][1][1][1]).endswith("from_local_datetime"):
                        checks[a[1]] = (c[2] != 0)
        variant = x[1][2] if x[0] == "field" and x[1][0] == "as" else "?"
        key = (pp(x)[-40:], tuple(sorted((pp(k)[-30:], v) for k, v in checks.items())))
        if key in seen:
            continue
        seen.add(key)
        ok = checks.get(x) is True and all(v is False for k, v in checks.items() if k != x)
        if variant == "Ambiguous":
            ok = ok and len(checks) == 2
        chk.expect(ok, "Ok(%s candidate %s)" % (variant, x[2] if x[0] == "field" else "?"), "to_datetime_with_timezone returns %s although the offset checks on this path were %s" % (
            pp(x)[-60:], sorted((pp(k)[-24:], v) for k, v in checks.items())), loc=P.loc(fn))


def r_offset_used(chk, P, tier):
    """a supplied offset is never replaced by the default: to_datetime builds its FixedOffset from self.offset whenever that field is set; the constant 0
    is used only on paths that found self.offset == None"""
    chk.rule("PICK.offset_default", "to_datetime uses the default offset 0 only on paths where the offset field was tested and found empty", floor=2)
    fn = F + "to_datetime"
    fs = fields(P)
    f_off = fs.index("offset")
    oks = [p for p in Sym(P, fn).paths(max_paths=5000) if p.end[0] == "return" and result_variant(p.ret)[0] == "Ok"]
    if not oks:
        raise AnchorLost("to_datetime: no Ok path")
    n = 0
    for p in oks:
        for c in p.calls:
            if not (isinstance(c[1], str) and c[1].endswith("FixedOffset::east_opt")):
                continue
            n += 1
            a = c[2][0]
            from_field = any(x[0] == "field" and x[2] == f_off and x[1] in (("deref", ("arg", 1)), ("arg", 1)) for x in walk_terms(a))
            if from_field:
                chk.ok("offset from the field #%d" % n)
                continue
            none_seen = any(c2[0][0] == "switch" and c2[1][0] == "discr" and c2[1][1] == ("field", ("deref", ("arg", 1)), f_off) and (c2[2] == 0 or (isinstance(c2[2], tuple) and 1 in c2[2][1]))
                            for c2 in p.conds)
            chk.expect(none_seen, "default offset #%d" % n, "to_datetime builds the result with offset %s on a path that did not find the offset field empty (a supplied offset is ignored)" % pp(a)[:30], loc=P.loc(fn))
    if n < 2:
        raise AnchorLost("to_datetime: %d east_opt calls on Ok paths" % n)


def r_who_writes(chk, P, tier):
    """a supplied field can only be contradicted if something overwrites it: Parsed fields are written only through set_if_consistent (which refuses a
    different value), reached from the set_* methods; nothing in the crate assigns a Parsed field directly or takes `&mut` of one elsewhere"""
    from rules import field_writes
    chk.rule("WRITE.parsed_fields", "no function assigns a field of Parsed directly; `&mut parsed.field` is taken only inside Parsed::set_* (and handed to set_if_consistent)", floor=3)
    w = field_writes(P, lambda t: t.get("adt") == PA)
    chk.expect(not w, "direct assignments", "Parsed fields are assigned directly in %s (bypasses the consistency check of the setters)" % sorted({(fn.split("::")[-1], ln) for fn, ln, f in w})[:4],
               loc=P.loc(w[0][0], w[0][1]) if w else None)
    ctl = field_writes(P, lambda t: t.get("adt") == "format::strftime::StrftimeItems")
    chk.expect(bool(ctl), "control: assignments to StrftimeItems fields are seen", "positive control failed: no field assignment found for StrftimeItems (the scan is blind)")
    # &mut borrows of Parsed fields
    bad = []
    n = 0
    for name, f in P.fns.items():
        if "mir" not in f:
            continue
        m = f["mir"]
        for b in m["blocks"]:
            if b.get("cleanup"):
                continue
            for st in b["s"]:
                if st["k"] == "assign" and st["rv"]["k"] == "ref" and st["rv"].get("mut"):
                    ty = m["locals"][st["rv"]["pl"]["l"]]
                    for e in st["rv"]["pl"]["p"]:
                        t = P.ty(ty)
                        if e == "*":
                            ty = t.get("inner", ty)
                        elif isinstance(e, list) and e[0] == "f":
                            if t.get("adt") == PA:
                                n += 1
                                if not name.split("::{")[0].startswith(F + "set_"):
                                    bad.append((name, st.get("ln")))
                            ty = e[2]
                        else:
                            break
    chk.expect(not bad and n >= 20, "&mut of fields", "`&mut` of a Parsed field is taken outside the setters: %s (or too few borrow sites found: %d)" % (bad[:3], n), loc=P.loc(bad[0][0], bad[0][1]) if bad else None)


def r_setter_boxes(chk, P, tier):
    chk.rule("BOX.setters", "each range-checked setter accepts exactly its documented range", floor=16)
    for s, (lo, hi) in SETTER_BOX.items():
        fn = F + s
        boxes = []
        for p in Sym(P, fn).paths():
            if p.end[0] != "return" or result_variant(p.ret)[0] == "Err":
                continue
            if is_call(p.ret) and "from_residual" in p.ret[1]:
                continue
            from rules import cond_constraints
            box, other = cond_constraints(p.conds, {"v": ("arg", 2)})
            boxes.append((tuple(box["v"]), [pp(c[1])[:60] for c in other if "try_from" not in pp(c[1]) and "branch" not in pp(c[1])]))
        boxes = [b for b in boxes if not (b[0][0] is not None and b[0][1] is not None and b[0][0] > b[0][1])]
        ok = bool(boxes) and all(not o for _, o in boxes)
        los = [b[0][0] for b in boxes]
        his = [b[0][1] for b in boxes]
        hl = None if any(x is None for x in los) else min(los) if los else None
        hh = None if any(x is None for x in his) else max(his) if his else None
        want_hi = hi if hi is not None else (1 << 31) - 1
        ok = ok and hl == lo and hh == want_hi
        chk.expect(ok, s, "%s accepts %s, documented range is [%s, %s]" % (s, boxes, lo, hi), loc=P.loc(fn))


def r_setter_fields(chk, P, tier):
    chk.rule("MAP.setters", "each setter stores into the field(s) it is named after, through set_if_consistent", floor=22)
    fs = fields(P)
    for s, want in SETTER_FIELD.items():
        fn = F + s
        got = set()
        direct = False
        for p in Sym(P, fn).paths():
            for c in p.calls:
                if c[1] == "format::parsed::set_if_consistent":
                    t = unref(c[2][0])
                    if t[0] == "field":
                        got.add(fs[t[2]])
        f = P.fn(fn)
        # no direct assignment to a field of *self
        for b in f["mir"]["blocks"]:
            for st in b["s"]:
                if st["k"] == "assign" and st["pl"]["l"] == 1 and st["pl"]["p"]:
                    direct = True
        chk.expect(got == set(want) and not direct, s, "%s writes %s%s, expected %s via set_if_consistent" % (s, sorted(got), " and assigns fields directly" if direct else "", want), loc=P.loc(fn))
    # set_if_consistent: keeps an equal value, rejects a different one
    r = [(result_variant(p.ret)[0], [(pp(c[1])[:50], c[2]) for c in p.conds if c[0][0] == "switch"]) for p in Sym(P, "format::parsed::set_if_consistent").paths() if p.end[0] == "return"]
    kinds = sorted(x[0] for x in r)
    chk.expect(kinds.count("Ok") == 2 and kinds.count("Err") == 1, "set_if_consistent", "set_if_consistent paths: %s" % r)


def r_resolve_year(chk, P, tier):
    chk.rule("CONST.pivot", "two-digit years pivot at 70: 00-69 -> 20xx, 70-99 -> 19xx; century arithmetic by 100", floor=1)
    fn = F + "to_naive_date::resolve_year"
    from collections import Counter
    from core import operands_of_block
    c = Counter()
    for b in P.fn(fn)["mir"]["blocks"]:
        if not b.get("cleanup"):
            for op in operands_of_block(b):
                if op.get("k") == "const" and isinstance(op.get("v"), int) and not isinstance(op.get("v"), bool):
                    c[op["v"]] += 1
    ok = c.get(100, 0) >= 3 and c.get(70, 0) >= 1 and c.get(19, 0) + c.get(1900, 0) >= 1 and c.get(20, 0) + c.get(2000, 0) >= 1
    chk.expect(ok, "resolve_year", "resolve_year constants %s (expected 100 x3, 70, 19/1900, 20/2000)" % {k: v for k, v in c.items() if k in (100, 70, 69, 71, 19, 20, 1900, 2000)}, loc=P.loc(fn))


def r_absint(chk, P, tier):
    res = e1.run_engine(P, tier)
    e1.report(chk, P, res, "ABSINT.parsed", "arithmetic, casts and unwraps in parsed.rs are discharged or justified with every Parsed field at full range",
              fn_filter=lambda fn: "format::parsed::" in fn, floor=20)


def _err_kind(v):
    """ParseErrorKind variant name inside a folded Err(ParseError(kind)) constant"""
    st = [v]
    while st:
        x = st.pop()
        if isinstance(x, tuple):
            if len(x) == 2 and x[0] == "variant":
                return x[1]
            st.extend(x)
    return None


def r_resolve_year_map(chk, P, tier):
    """resolve_year (the year / century / two-digit-year combination rule shared by the calendar and the ISO-week year) folded as a finite map over a product of
    boundary values per argument and every two-digit value, against the documented rule: the full year wins if the other two agree with it, century*100 + two-digit
    year otherwise, the two-digit year alone is read with the 1970..=2069 pivot; a negative year or century with the others present is impossible; a two-digit value
    outside 0..=99 is out of range; a century alone is not enough"""
    from finmap import Folder, show, Unknown, _opt
    chk.rule("MAP.resolve_year", "resolve_year(year, century, two-digit year) evaluated over boundary values of each argument and all two-digit years equals the documented combination rule", floor=1000)
    fn = F + "to_naive_date::resolve_year"
    fo = Folder(P, max_depth=8)
    I32 = 2**31 - 1

    def O(v):
        return _opt(v is not None, ("const", v) if v is not None else None)

    def oracle(y, q, r):
        if q is None and r is None:
            return ("Ok", y)
        if r is not None and not 0 <= r <= 99:
            return ("Err", "OutOfRange")
        if y is not None:
            if y < 0:
                return ("Err", "Impossible")
            return ("Ok", y) if (q is None or q == y // 100) and (r is None or r == y % 100) else ("Err", "Impossible")
        if q is not None and r is not None:
            if q < 0:
                return ("Err", "Impossible")
            return ("Ok", q * 100 + r) if q * 100 + r <= I32 else ("Err", "OutOfRange")
        if r is not None:
            return ("Ok", r + (2000 if r < 70 else 1900))
        return ("Err", "NotEnough")
    Y = (None, -1, 0, 5, 99, 100, 1969, 1970, 2015, 2069, 12345, I32)
    Q = (None, -1, 0, 19, 20, 21, 123, 21474836, 21474837)
    R = (None, -1, 0, 15, 45, 69, 70, 99, 100)
    dom = [(y, q, r) for y in Y for q in Q for r in R] + [(None, None, r) for r in range(100)] + [(None, 20, r) for r in range(100)] + [(2015, None, r) for r in range(100)]
    bad = {}
    n = 0
    for a in dom:
        try:
            v = show(fo.call(fn, [O(x) for x in a]))
            if v[0] == "Result::Ok":
                got = ("Ok", None if v[1] == "Option::None" else v[1][1])
            else:
                got = ("Err", _err_kind(v))
        except Unknown as e:
            got = ("unknown", str(e))
        want = oracle(*a)
        if got != want:
            cls = "year %s, century %s, two-digit %s" % tuple("absent" if x is None else "given" for x in a)
            bad.setdefault(cls, (a, got, want))
        else:
            n += 1
    for _ in range(n):
        chk.ok("resolve_year value")
    for cls, (a, got, want) in sorted(bad.items()):
        chk.bad("resolve_year(%s)" % cls, "resolve_year%s = %s, the documented rule gives %s" % (a, got, want), loc=P.loc(fn))


def r_offset_optional(chk, P, tier):
    """an offset is one of the optional fields: when none was supplied, the offset check of to_datetime_with_timezone has nothing to contradict and must hold
    (folded with the offset field bound to None); a supplied offset is compared with the candidate's own offset"""
    from finmap import Folder, show, Unknown, _opt
    chk.rule("CHECK.offset_optional", "the offset check of to_datetime_with_timezone holds when no offset was supplied, and compares the candidate's local_minus_utc with the supplied one otherwise", floor=2)
    fs = fields(P)
    idx = fs.index("offset")
    cands = []
    for c in P.closures_of(F + "to_datetime_with_timezone"):
        if c.count("{closure") != 1:
            continue
        keys = set()
        rets = []
        for p in Sym(P, c).paths():
            ts = [x[1] for x in p.conds] + ([p.ret] if p.end[0] == "return" else [])
            for t in ts:
                for x in walk_terms(t):
                    if x[0] == "field" and x[2] == idx and pp(x).startswith("**arg1.0"):
                        keys.add(pp(x))
            if p.end[0] == "return":
                rets.append(p.ret)
        if keys and P.ty_s(P.fn(c)["mir"]["locals"][0]) == "bool":
            cands.append((c, keys, rets))
    if len(cands) != 1:
        raise AnchorLost("to_datetime_with_timezone: expected one bool closure reading self.offset, found %s" % [c[0] for c in cands])
    c, keys, rets = cands[0]
    if len(keys) != 1:
        raise AnchorLost("offset check reads the offset through %s" % sorted(keys))
    key = keys.pop()
    fo = Folder(P)
    try:
        got = show(fo.call(c, [("arg", 1), ("arg", 2)], bind={key: _opt(False)}))
    except Unknown as e:
        got = "unknown: %s" % e
    chk.expect(got is True, "no offset supplied", "the offset check evaluates to %s when no offset field was supplied (nothing to contradict: expected true)" % (got,), loc=P.loc(c))
    cmp_ok = any(is_call(x, suffix="local_minus_utc") for r in rets for x in walk_terms(r)) or any(
        is_call(x, suffix="local_minus_utc") for c2 in P.closures_of(c) for p in Sym(P, c2).paths() if p.end[0] == "return" for x in walk_terms(p.ret))
    chk.expect(cmp_ok, "offset supplied", "the offset check does not compare the candidate's local_minus_utc() with the supplied offset", loc=P.loc(c))


def r_verify_halves(chk, P, tier):
    """the verify closures of to_naive_date compare the supplied century with year / 100 and the supplied two-digit year with year % 100 (calendar and ISO-week
    year alike): in every comparison that reads a *_div_100 field the computed side is a quotient by 100 and never a remainder, and the reverse for *_mod_100"""
    chk.rule("PAIR.verify_halves", "in the verify closures of to_naive_date a *_div_100 field is compared with (year / 100) and a *_mod_100 field with (year % 100), never crosswise", floor=4)
    fs = fields(P)
    want = {fs.index("year_div_100"): "Div", fs.index("isoyear_div_100"): "Div", fs.index("year_mod_100"): "Rem", fs.index("isoyear_mod_100"): "Rem"}
    seen = {}
    for c in P.closures_of(F + "to_naive_date"):
        if c.count("{closure") != 1:
            continue
        for p in Sym(P, c).paths():
            ts = [x[1] for x in p.conds if x[0][0] == "switch"] + ([p.ret] if p.end[0] == "return" else [])
            for t in ts:
                fl = {x[2] for x in walk_terms(t) if x[0] == "field" and x[2] in want and pp(x).startswith("**arg1.0")}
                if len(fl) != 1:
                    continue
                i = fl.pop()
                ops = {x[1] for x in walk_terms(t) if x[0] == "bin" and x[1] in ("Div", "Rem") and const_of(x[3]) == 100}
                if not ops:
                    continue        # the comparison against None (negative years)
                seen.setdefault(i, set()).update(ops)
    for i, op in sorted(want.items()):
        if i not in seen:
            raise AnchorLost("to_naive_date: no verify closure compares %s with a computed half of the year" % fs[i])
        chk.expect(seen[i] == {op}, fs[i], "the supplied %s is compared with a value computed by %s by 100 (expected %s only)" % (fs[i], sorted(seen[i]), "the quotient" if op == "Div" else "the remainder"), loc=P.loc(F + "to_naive_date"))


def r_resolution_map(chk, P, tier):
    """Field resolution as a value map. For dates on both sides of every month / year / ISO-year / week-number boundary in one year per year class (and around the
    two-digit-year pivot, year 0 and a five-digit year) all 14 date fields are derived from the date with the calendar oracle; to_naive_date is folded (no execution)
    for every documented sufficient combination in every form of the year group, alone, with each further field added consistently (must give the date), with each
    further field added with a different value (must fail with impossible / out of range: a success would contradict a supplied field), and with one element removed
    (not enough). to_naive_time likewise over the hour / minute / second / nanosecond presence patterns including second 60."""
    import calendar_oracle as cal
    from finmap import Folder, show, Unknown, _opt
    from rules import table_value
    from props.c01 import flags_of
    chk.rule("MAP.resolution", "to_naive_date over all sufficient field combinations x year forms x one consistent / contradicting / missing extra field, and to_naive_time over its presence patterns, resolve exactly as documented", floor=8000)
    fo = Folder(P, max_depth=16)
    names = fields(P)
    tbl = [flags_of(c) for c in table_value(P, "naive::internals::YEAR_TO_FLAGS")]
    WD = P.adts["weekday::Weekday"]["variants"]

    def parsed(kw):
        fs = []
        for n in names:
            v = kw.get(n)
            if n == "weekday":
                fs.append(_opt(v is not None, ("agg", "adt", "weekday::Weekday", WD[v]["name"], (), v) if v is not None else None))
            elif n.startswith("_"):
                fs.append(("agg", "tuple", None, None, (), None))
            else:
                fs.append(_opt(v is not None, ("const", v) if v is not None else None))
        return ("ref", ("agg", "adt", PA, "Parsed", tuple(fs), 0))

    def outcome(v):
        if isinstance(v, tuple) and v[0] == "Result::Ok":
            return ("Ok",) + tuple(v[1][1:])
        if isinstance(v, tuple) and v[0] == "Result::Err":
            return ("Err", _err_kind(v))
        return ("?", v)

    def fold(fn, kw):
        try:
            return outcome(show(fo.call(F + fn, [parsed(kw)])))
        except Unknown as e:
            return ("unknown", str(e))

    def derive(y, m, d):
        o = cal.ordinal(y, m, d)
        wd = cal.weekday(y, m, d)                   # 0 = Monday
        iy, iw, _ = cal.iso_week(y, m, d)
        f = {"year": y, "month": m, "day": d, "ordinal": o, "weekday": wd, "quarter": (m - 1) // 3 + 1,
             "week_from_sun": (o + 6 - (wd + 1) % 7) // 7, "week_from_mon": (o + 6 - wd) // 7, "isoyear": iy, "isoweek": iw}
        if y >= 0:
            f["year_div_100"], f["year_mod_100"] = y // 100, y % 100
        if iy >= 0:
            f["isoyear_div_100"], f["isoyear_mod_100"] = iy // 100, iy % 100
        return f
    reps = {}
    for y in range(2000, 2400):
        reps.setdefault(tbl[y % 400], y)
    quick = tier != "thorough"
    years = sorted(reps.values())
    dates = []
    for y in (years[::3] if quick else years):
        dates += [(y, 1, 1), (y, 1, 4), (y, 2, 28), (y, 3, 1), (y, 12, 28), (y, 12, 31)] + ([(y, 2, 29)] if cal.leap(y) else [])
    dates += [(1900, 2, 28), (1900, 3, 1), (2100, 2, 28), (2100, 12, 31)]
    dates += [(1969, 12, 31), (1970, 1, 1), (2069, 12, 31), (2070, 1, 1), (0, 1, 1), (0, 12, 31), (-1, 12, 31), (12345, 6, 7), (1999, 12, 31), (2000, 1, 1)]
    bad = {}
    n_ok = [0]

    def expect(cls, a, got, ok):
        if ok:
            n_ok[0] += 1
        else:
            bad.setdefault(cls, (a, got))
    date_fields = [n for n in names if n in ("year", "year_div_100", "year_mod_100", "isoyear", "isoyear_div_100", "isoyear_mod_100", "quarter", "month", "week_from_sun", "week_from_mon",
                                             "isoweek", "weekday", "ordinal", "day")]
    for (y, m, d) in dates:
        f = derive(y, m, d)
        yof = (y << 13) | (f["ordinal"] << 4) | tbl[y % 400]
        want = ("Ok", yof)
        year_forms = [("full", ["year"])]
        if y >= 0:
            year_forms += [("century + two-digit", ["year_div_100", "year_mod_100"]), ("full + two-digit", ["year", "year_mod_100"])]
            if 1970 <= y <= 2069:
                year_forms.append(("two-digit alone", ["year_mod_100"]))
        iso_forms = [("full", ["isoyear"])]
        if f["isoyear"] >= 0:
            iso_forms += [("century + two-digit", ["isoyear_div_100", "isoyear_mod_100"])]
            if 1970 <= f["isoyear"] <= 2069:
                iso_forms.append(("two-digit alone", ["isoyear_mod_100"]))
        combos = []
        for yn, yf in year_forms:
            combos += [("year(%s), month, day" % yn, yf + ["month", "day"]), ("year(%s), ordinal" % yn, yf + ["ordinal"]),
                       ("year(%s), week_from_sun, weekday" % yn, yf + ["week_from_sun", "weekday"]), ("year(%s), week_from_mon, weekday" % yn, yf + ["week_from_mon", "weekday"])]
        for yn, yf in iso_forms:
            combos.append(("isoyear(%s), isoweek, weekday" % yn, yf + ["isoweek", "weekday"]))
        for cname, cs in combos:
            base = {k: f[k] for k in cs}
            got = fold("to_naive_date", base)
            expect("sufficient: " + cname, ((y, m, d), sorted(base)), got, got == want)
            for extra in date_fields:
                if extra in base or extra not in f:
                    continue
                kw = dict(base)
                kw[extra] = f[extra]
                got = fold("to_naive_date", kw)
                if extra.endswith("_div_100"):
                    grp = extra[:-8]
                    if grp not in base and grp + "_mod_100" not in base:
                        # a century without the rest of its year group is indeterminate (documented: not enough), whatever its value
                        expect("lone century %s" % extra, ((y, m, d), cname), got, got == ("Err", "NotEnough"))
                        continue
                    if grp not in base:
                        # century + two-digit year define the year together: another century is another year, not a contradiction
                        expect("sufficient + consistent %s" % extra, ((y, m, d), cname), got, got == want)
                        continue
                expect("sufficient + consistent %s" % extra, ((y, m, d), cname), got, got == want)
                kw[extra] = (f[extra] + 1) % 7 if extra == "weekday" else f[extra] + 1
                got = fold("to_naive_date", kw)
                expect("sufficient + contradicting %s" % extra, ((y, m, d), cname, kw[extra]), got, got[0] == "Err" and got[1] in ("Impossible", "OutOfRange"))
            if quick and (y, m, d) not in dates[:7] + dates[-10:]:
                continue
            if "(full)" not in cname:
                continue
            for drop in cs:
                kw = {k: v for k, v in base.items() if k != drop}
                got = fold("to_naive_date", kw)
                expect("one element removed", ((y, m, d), cname, drop), got, got == ("Err", "NotEnough"))
    # times
    for h in (0, 1, 11, 12, 13, 23):
        for mi in (0, 59):
            for sec in (None, 0, 59, 60):
                for ns in (None, 0, 1, 999999999):
                    kw = {"hour_div_12": h // 12, "hour_mod_12": h % 12, "minute": mi}
                    if sec is not None:
                        kw["second"] = sec
                    if ns is not None:
                        kw["nanosecond"] = ns
                    if ns is not None and sec is None:
                        w = ("Err", "NotEnough")
                    else:
                        s2 = 59 if sec == 60 else (sec or 0)
                        w = ("Ok", h * 3600 + mi * 60 + s2, (ns or 0) + (10**9 if sec == 60 else 0))
                    got = fold("to_naive_time", kw)
                    expect("to_naive_time", kw, got, got == w)
                    for drop in ("hour_div_12", "hour_mod_12", "minute"):
                        kw2 = {k: v for k, v in kw.items() if k != drop}
                        got = fold("to_naive_time", kw2)
                        expect("to_naive_time without " + drop, kw2, got, got == ("Err", "NotEnough"))
    for kw in ({"hour_div_12": 2, "hour_mod_12": 0, "minute": 0}, {"hour_div_12": 0, "hour_mod_12": 12, "minute": 0}, {"hour_div_12": 0, "hour_mod_12": 0, "minute": 60},
               {"hour_div_12": 0, "hour_mod_12": 0, "minute": 0, "second": 61}, {"hour_div_12": 0, "hour_mod_12": 0, "minute": 0, "second": 0, "nanosecond": 10**9},
               {"hour_div_12": 2**32 - 1, "hour_mod_12": 0, "minute": 0}):
        got = fold("to_naive_time", kw)
        expect("to_naive_time out of range", kw, got, got == ("Err", "OutOfRange"))
    # date-time with a timestamp next to complete date and time fields: the timestamp must denote the same instant (for second 60 either representation of the leap second)
    epoch = cal.day_number(1970, 1, 1)

    def fold_dt(kw, off):
        try:
            v = show(fo.call(F + "to_naive_datetime_with_offset", [parsed(kw), ("const", off)]))
        except Unknown as e:
            return ("unknown", str(e))
        if isinstance(v, tuple) and v[0] == "Result::Ok":
            return ("Ok", v[1][1][1], v[1][2][1], v[1][2][2])
        if isinstance(v, tuple) and v[0] == "Result::Err":
            return ("Err", _err_kind(v))
        return ("?", v)
    for (y, m, d) in [(2024, 2, 29), (1969, 12, 31), (1970, 1, 1), (2000, 1, 1)]:
        o = cal.ordinal(y, m, d)
        yof = (y << 13) | (o << 4) | tbl[y % 400]
        for (h, mi, sec) in ((0, 0, 0), (15, 4, 5), (23, 59, 59), (23, 59, 60)):
            for off in (0, 3600, -5400):
                s2 = 59 if sec == 60 else sec
                local = (cal.day_number(y, m, d) - epoch) * 86400 + h * 3600 + mi * 60 + s2
                ts = local - off
                base = {"year": y, "month": m, "day": d, "hour_div_12": h // 12, "hour_mod_12": h % 12, "minute": mi, "second": sec}
                w_ok = ("Ok", yof, h * 3600 + mi * 60 + s2, 10**9 if sec == 60 else 0)
                got = fold_dt(base, off)
                expect("date-time fields without timestamp", ((y, m, d, h, mi, sec), off), got, got == w_ok)
                for delta in (-2, -1, 0, 1, 2, 60, -86400):
                    kw = dict(base, timestamp=ts + delta)
                    consistent = delta == 0 or (sec == 60 and delta == 1)
                    got = fold_dt(kw, off)
                    expect("date-time fields + %s timestamp" % ("consistent" if consistent else "contradicting"), ((y, m, d, h, mi, sec), off, delta), got,
                           got == w_ok if consistent else got == ("Err", "Impossible"))
    # the offset field is seconds east of UTC
    for off in (-86399, -3600, -1, 0, 1, 3600, 19800, 86399, 86400, -86400, 2**31 - 1):
        try:
            v = show(fo.call(F + "to_fixed_offset", [parsed({"offset": off})]))
        except Unknown as e:
            v = ("unknown", str(e))
        got = ("Ok", v[1][1]) if isinstance(v, tuple) and v[0] == "Result::Ok" else (("Err", _err_kind(v)) if isinstance(v, tuple) and v[0] == "Result::Err" else v)
        w = ("Ok", off) if -86400 < off < 86400 else ("Err", "OutOfRange")
        expect("to_fixed_offset", off, got, got == w)
    got = fold("to_fixed_offset", {})
    expect("to_fixed_offset without offset", {}, got, got == ("Err", "NotEnough"))
    for _ in range(n_ok[0]):
        chk.ok("value")
    for cls, (a, got) in sorted(bad.items()):
        fnn = "to_naive_time" if cls.startswith("to_naive_time") else ("to_naive_datetime_with_offset" if cls.startswith("date-time") else "to_naive_date")
        chk.bad(cls, "%s: fields derived from %s resolve to %s" % (cls, a, got), loc=P.loc(F + fnn))


def r_timestamp_fields(chk, P, tier):
    """when a timestamp is supplied, to_naive_datetime_with_offset fills year, ordinal, hour and minute from the date-time the timestamp denotes; on every
    path these setters read ONE date-time value (after the leap-second step-back, if any): a field read before the adjustment and the others after it
    describe two different seconds"""
    chk.rule("SIB.timestamp_fields", "in the timestamp branch of to_naive_datetime_with_offset set_year / set_ordinal / set_hour / set_minute read the same date-time term on every path", floor=100)
    fn = "format::parsed::Parsed::to_naive_datetime_with_offset"
    n, bad = 0, None
    for p in Sym(P, fn).paths():
        src = {}
        for c in p.calls:
            if isinstance(c[1], str) and c[1].split("::")[-1] in ("set_year", "set_ordinal", "set_hour", "set_minute") and len(c[2]) > 1:
                acc = [x for x in walk_terms(c[2][1]) if x[0] == "call" and isinstance(x[1], str) and x[1].split("::")[-1] in ("year", "ordinal", "hour", "minute") and x[2]]
                if acc:
                    src[c[1].split("::")[-1]] = acc[0][2][0]
        if not src:
            continue
        n += 1
        chk.ok("path")
        if len(set(src.values())) > 1 and bad is None:
            bad = sorted((k, pp(v)[:50]) for k, v in src.items())
    if not n:
        raise AnchorLost(fn + ": timestamp branch setters")
    chk.expect(bad is None, "one source", "the timestamp-derived fields are read from different date-time values on one path: %s" % (bad,), loc=P.loc(fn))
