"""C12 — every strftime specifier renders the documented field (tables, expansion, narrowing, digit domains)."""
import strftime_spec as spec
from core import Prog, AnchorLost
from sym import Sym, pp, walk_terms, const_of
from rules import is_call, find_calls, arg_field, result_variant, callees, unref
import fmt_tables as ft
import e1

FMT_ROOTS = ["format::formatting::DelayedFormat::<I>::format_numeric", "format::formatting::DelayedFormat::<I>::format_fixed", "format::formatting::<impl format::OffsetFormat>::format",
             "format::formatting::write_rfc3339", "format::formatting::write_rfc2822", "format::formatting::write_hundreds"]


def canon(item):
    """canonical item: trivial constructor calls num/num0/nums/fixed/internal_fixed resolved"""
    if isinstance(item, tuple) and item and item[0] == "call":
        n, args = item[1], item[2:]
        a = canon(args[0]) if args else None
        if n in ("num", "num0", "nums"):
            return ("Numeric", a, ({"num": "None", "num0": "Zero", "nums": "Space"}[n],))
        if n == "fixed":
            return ("Fixed", a)
        if n == "internal_fixed":
            return ("Fixed", ("Internal", ("InternalFixed", a)))
    if isinstance(item, tuple):
        return tuple(canon(x) for x in item)
    return item


def run(chk, tier):
    P = Prog("default")
    chk.configs.add("default")
    from props import c09
    chk.guarded(c09.r_write_hundreds, P, tier)
    from props import c10
    chk.guarded(c10.r_year_template, P, tier)      # %+ prints through write_rfc3339
    for r in (r_helpers, r_specifiers, r_composites, r_pads, r_numeric_writers, r_wallclock, r_fraction_base, r_offset_base, r_write_n_cells, r_results_consumed, r_offset_writer_map, r_two_digit_writer_map, r_offset_items, r_absint):
        chk.guarded(r, P, tier)
    chk.assume("the rendered text for each value (week-number formulas, 12-hour clock values, name lookup, offset rounding) is not decided; the documented table is specs/tables/strftime_spec.py")
    return {
        "explanation": "C12 statically: the specifier -> item table of StrftimeItems::parse_next_item is extracted from MIR (one entry per character sequence after '%') and "
                       "compared with the documented table transcribed by hand (46 single specifiers incl. %:z..%:::z, %#z, %.f/%.3f/%3f...); composite specifiers and the "
                       "static D_FMT/D_T_FMT/T_FMT/T_FMT_AMPM lists equal the concatenation of their documented expansion; padding modifiers replace the pad of single numeric "
                       "items and are an error on everything else; per numeric item the writer uses the documented accessor and width; every narrowing cast and every "
                       "`b'0' + v` digit in the writers is proved inside its domain for all values (abstract interpretation: %C of year 12345 can no longer print garbage).",
        "trusted_base": ["specs/tables/strftime_spec.py (hand transcription of chrono's documentation)", "analysis/sym.py", "analysis/abs*.py", "specs/justifications.txt"],
    }


def r_helpers(chk, P, tier):
    chk.rule("CTOR.items", "num/num0/nums/fixed/internal_fixed build Numeric(x, None/Zero/Space) / Fixed(x) / Fixed(Internal(x))", floor=5)
    exp = {"format::num": ("Numeric", "None"), "format::num0": ("Numeric", "Zero"), "format::nums": ("Numeric", "Space"), "format::fixed": ("Fixed", None), "format::internal_fixed": ("Fixed", "Internal")}
    for fn, (var, extra) in exp.items():
        r = [p.ret for p in Sym(P, fn).paths() if p.end[0] == "return"]
        ok = len(r) == 1 and r[0][0] == "agg" and r[0][3] == var
        if ok and var == "Numeric":
            ok = r[0][4][0] == ("arg", 1) and r[0][4][1][3] == extra
        elif ok and extra == "Internal":
            ok = r[0][4][0][0] == "agg" and r[0][4][0][3] == "Internal" and ("arg", 1) in set(walk_terms(r[0]))
        elif ok:
            ok = r[0][4][0] == ("arg", 1)
        chk.expect(ok, fn, "%s builds %s" % (fn, [pp(x) for x in r]), loc=P.loc(fn))


def r_specifiers(chk, P, tier):
    chk.rule("TBL.specifiers", "each documented single specifier parses to the documented item (and nothing undocumented parses)", floor=46)
    sp = ft.strftime_paths(P)
    for s, want in sorted(spec.SINGLE.items()):
        got = {canon(x[1]) for x in sp.get(s, ()) if x[0] == "item"}
        queues = {x[2] for x in sp.get(s, ()) if x[0] == "item"}
        if s == "z":
            got = {g for g in got if g != spec.SINGLE["#z"]}     # `%z` shares its arm with the alternate form
        if s == "#z":
            got = {canon(x[1]) for x in sp.get("z", ()) if x[0] == "item" and canon(x[1]) == want}
            queues = {None}
        chk.expect(got == {want} and queues <= {None}, "%" + s, "%%%s parses to %s (queue %s), documentation says %s" % (s, sorted(map(str, got)), queues, want), loc=P.loc(ft.PNI))
    known = set(spec.SINGLE) | set(spec.COMPOSITE)
    extra = sorted(k for k, v in sp.items() if any(x[0] == "item" for x in v) and k not in known and not (k[:1] in spec.PADS and k[1:] in known) and k not in ("#z",))
    chk.expect(not extra, "no undocumented specifier", "specifiers accepted but not documented: %s" % extra[:10], loc=P.loc(ft.PNI))
    # every error path ends in Item::Error: unknown characters reach StrftimeItems::error
    unk = [k for k in ("Q", "J", "E", "O", "i") if any(x[0] == "item" for x in sp.get(k, ()))]
    chk.expect(not unk, "unknown specifiers are errors", "unknown specifier characters produce items: %s" % unk)


def r_composites(chk, P, tier):
    chk.rule("TBL.composites", "composite specifiers equal the concatenation of their documented expansion", floor=9)
    sp = ft.strftime_paths(P)
    for s, parts in sorted(spec.COMPOSITE.items()):
        want = [spec.SINGLE[x] if isinstance(x, str) else x for x in parts]
        got = {(canon(x[1]),) + tuple(canon(y) for y in (x[2] or ())) for x in sp.get(s, ()) if x[0] == "item"}
        chk.expect(got == {tuple(want)}, "%" + s, "%%%s expands to %s, documentation says %s" % (s, sorted(map(str, got))[:2], want), loc=P.loc(ft.PNI))


def r_pads(chk, P, tier):
    chk.rule("PAD.override", "-, 0, _ replace the padding of a single numeric item and are an error before anything else", floor=60)
    sp = ft.strftime_paths(P)
    numeric = {s for s, it in spec.SINGLE.items() if it[0] == "Numeric" and len(s) == 1}
    for mod, pad in spec.PADS.items():
        for s in sorted(set(spec.SINGLE) | set(spec.COMPOSITE)):
            if len(s) != 1:
                continue
            v = sp.get(mod + s, set())
            items = {canon(x[1]) for x in v if x[0] == "item"}
            if s in numeric:
                # Numeric(kind.clone(), new_pad): the kind is cloned from the parsed item
                ok = len(items) == 1
                if ok:
                    it = list(items)[0]
                    ok = it[0] == "Numeric" and it[2] == (pad,) and spec.SINGLE[s][1][0] in str(it[1])
                chk.expect(ok, "%" + mod + s, "%%%s%s gives %s, expected Numeric(%s, %s)" % (mod, s, sorted(map(str, items)), spec.SINGLE[s][1][0], pad), loc=P.loc(ft.PNI))
            else:
                chk.expect(not items and any(x[0] == "error" for x in v), "%" + mod + s, "%%%s%s must be an error (non-numeric or composite item), got %s" % (mod, s, sorted(map(str, items))[:2]), loc=P.loc(ft.PNI))


def r_numeric_writers(chk, P, tier):
    chk.rule("TBL.numeric_writers", "per numeric item the writer uses the documented accessor, width and writer function", floor=21)
    w = ft.writer_numeric_table(P)
    WIDTH = {"write_two": 2, "write_one": 1, "write_year": 4}
    for name, (width, signed) in spec.NUMERIC_WRITE.items():
        got = w.get(name)
        if got is None:
            chk.bad(name, "format_numeric has no arm for Numeric::%s" % name)
            continue
        fn, wn, accs, casts, sign, value = got
        gw = wn if fn == "write_n" else WIDTH.get(fn)
        want_acc = spec.PAIRING[name][0]
        ok = (width is None or gw == width or (name == "Timestamp")) and (want_acc is None or tuple(accs) == want_acc)
        if name in ("WeekFromSun", "WeekFromMon"):
            day = [x for x in walk_terms(value) if x[0] == "agg" and x[2] == "weekday::Weekday"]
            ok = ok and len(day) == 1 and day[0][3] == ("Sun" if name.endswith("Sun") else "Mon")
        if name == "Timestamp":
            ok = ok and "timestamp" in accs
        chk.expect(ok, name, "Numeric::%s is written by %s(width %s) from %s; documentation: width %s from %s" % (name, fn, gw, accs, width, want_acc),
                   loc=P.loc("format::formatting::DelayedFormat::<I>::format_numeric"))
    # an item is rendered only from parts that are present: the date / time options are used through their `Some` binding, never defaulted
    chk.rule("REQ.inputs", "format_numeric renders an item only from a present date / time (pattern-bound `Some`), never from a defaulted one; %s needs both", floor=20)
    df = [f["name"] for f in P.adts["format::formatting::DelayedFormat"]["variants"][0]["fields"]]
    idx = {df.index("date"): "date", df.index("time"): "time"}
    for name, got in sorted(w.items()):
        value = got[5]
        used = set()
        bad = []

        def scan(t, parent_some):
            if not isinstance(t, tuple) or not t:
                return
            if t[0] == "field" and t[2] in idx and t[1] in (("deref", ("arg", 1)), ("arg", 1)):
                used.add(idx[t[2]])
                if not parent_some:
                    bad.append(idx[t[2]])
                return
            some_here = t[0] == "as" and len(t) > 2 and t[2] == "Some"
            for x in t[1:]:
                if isinstance(x, tuple):
                    if x and isinstance(x[0], str):
                        scan(x, some_here or (parent_some and t[0] in ("deref", "ref")))
                    else:
                        for y in x:
                            scan(y, False)
        scan(value, False)
        ok = not bad and (name != "Timestamp" or used >= {"date", "time"})
        chk.expect(ok, name, "Numeric::%s is rendered from %s; defaulted (not pattern-bound) parts: %s" % (name, sorted(used), sorted(set(bad))), loc=P.loc("format::formatting::DelayedFormat::<I>::format_numeric"))
    # explicit sign exactly for years outside 0..=9999 (write_year)
    chk.rule("BOX.year_sign", "write_year forces a sign exactly for years outside 0..=9999 and uses the 4-digit fast path (two digit pairs) exactly for 1000..=9999", floor=12)
    fn = "format::formatting::DelayedFormat::<I>::format_numeric::write_year"
    from finmap import Folder, show, Unknown
    log = []
    OKU = ("agg", "adt", "std::result::Result", "Ok", (("agg", "tuple", None, None, (), None),), 0)

    def eff(name, args):
        log.append((name.split("::")[-1], args))
        return OKU
    fo = Folder(P, max_depth=6, effects=eff, effects_names=lambda n: n.endswith("::write_n") or n.endswith("formatting::write_hundreds"))
    pad0 = ("agg", "adt", "format::Pad", P.adts["format::Pad"]["variants"][1]["name"], (), 1)
    for y in (-(2**31), -10000, -1, 0, 1, 999, 1000, 1001, 9998, 9999, 10000, 2**31 - 1):
        del log[:]
        try:
            fo._memo.clear()
            fo._eff_done.clear()
            fo.call(fn, [("ref", ("const", "w")), ("const", y), pad0])
            got = [(n, tuple(show(a) for a in args[1:])) for n, args in log]
        except Unknown as e:
            got = "unknown: %s" % e
        if 1000 <= y <= 9999:
            want = [("write_hundreds", (y // 100,)), ("write_hundreds", (y % 100,))]
            ok = got == want
        else:
            ok = isinstance(got, list) and len(got) == 1 and got[0][0] == "write_n" and got[0][1][0] == 4 and got[0][1][1] == y and got[0][1][-1] == (not 0 <= y <= 9999)
            want = "write_n(w, 4, %d, pad, always_sign=%s)" % (y, not 0 <= y <= 9999)
        chk.expect(ok, "year %d" % y, "write_year(%d) performs %s, expected %s" % (y, got, want), loc=P.loc(fn))


def r_wallclock(chk, P, tier):
    chk.rule("REACH.wallclock", "format_with_items hands the formatter the non-panicking wall-clock view and the offset", floor=1)
    fn = "datetime::DateTime::<Tz>::format_with_items"
    cs = callees(P, fn)
    chk.expect("datetime::DateTime::<Tz>::overflowing_naive_local" in cs and "datetime::DateTime::<Tz>::naive_local" not in cs, fn, "format_with_items callees: %s" % sorted(c.split("::")[-1] for c in cs), loc=P.loc(fn))


def r_absint(chk, P, tier):
    roots = list(FMT_ROOTS) + [n for n in P.fns if (n.endswith("std::fmt::Debug>::fmt") or n.endswith("std::fmt::Display>::fmt")) and not P.fns[n].get("derived") and P.has(n)
                               and any(k in n for k in ("naive::date::NaiveDate ", "naive::time::NaiveTime ", "naive::datetime::NaiveDateTime ", "datetime::DateTime<Tz> ", "offset::fixed::FixedOffset ", "format::formatting::DelayedFormat"))]
    res = e1.run_engine(P, tier, extra_roots=tuple(sorted(roots)))
    e1.report(chk, P, res, "ABSINT.writers", "every narrowing cast, `b'0' + v` digit, index and arithmetic step of the writers is inside its domain for all values",
              fn_filter=lambda fn: "format::formatting::" in fn or (fn.endswith("std::fmt::Debug>::fmt") and ("naive::date::NaiveDate " in fn or "naive::time::" in fn
                                                                                                                          or "naive::datetime::" in fn or "offset::fixed" in fn)), floor=60)
    eng = res["engine"]
    digits = [o for o in eng.obl.values() if o.kind == "digit"]
    chk.rule("DIGIT.sites", "digit-domain obligations exist for the single/two-digit writers", floor=1)
    chk.expect(len(digits) >= 4, "digit obligations", "only %d `b'0' + v` obligations were generated" % len(digits))


def r_fraction_base(chk, P, tier):
    """%.f / %.3f / ... : the nanosecond value that decides the width (zero? multiple of 10^3 / 10^6?) and the value that is printed are the same
    term on every path (the leap-second representation nanosecond() >= 10^9 must be reduced before BOTH uses or neither)"""
    from rules import path_bases
    chk.rule("SIB.fraction_base", "in format_fixed the sub-second value tested and the sub-second value printed are one and the same term on every path", floor=4)
    fn = "format::formatting::DelayedFormat::<I>::format_fixed"
    n1 = 0
    worst = None
    for p in Sym(P, fn).paths(max_paths=20000):
        b = path_bases(p, lambda x: is_call(x) and str(x[1]).endswith("::nanosecond"), (1000, 1000000))
        if len(b) == 1:
            n1 += 1
        elif len(b) > 1 and worst is None:
            worst = sorted(pp(x)[:70] for x in b)
    chk.expect(worst is None, "single base", "format_fixed tests and prints different sub-second values on one path: %s" % worst, loc=P.loc(fn))
    for k in range(min(n1, 3)):
        chk.ok("path with one base #%d" % (k + 1))
    chk.expect(n1 >= 8, "fraction paths found", "only %d paths of format_fixed use nanosecond() (anchor lost)" % n1)


def r_offset_base(chk, P, tier):
    """an offset is split into hours / minutes / seconds by dividing ONE value (the rounded or the exact offset, per precision); hours taken from the
    unrounded and minutes from the rounded offset lose the carry (+02:59:45 -> +02:00 instead of +03:00)"""
    from rules import path_bases
    chk.rule("SIB.offset_base", "in OffsetFormat::format all of / 60, % 60, / 3600 on one path divide the same offset value (rounded or exact)", floor=2)
    fn = "format::formatting::<impl format::OffsetFormat>::format"
    n1 = 0
    worst = None
    kinds = set()
    for p in Sym(P, fn).paths(max_paths=20000):
        b = path_bases(p, lambda x: is_call(x) and str(x[1]).endswith("local_minus_utc"), (60, 3600), zero_tests=False, fmt_args=False)
        if len(b) == 1:
            n1 += 1
            kinds.add("rounded" if any(x[0] == "bin" and x[1].startswith("Add") for x in walk_terms(list(b)[0])) else "exact")
        elif len(b) > 1 and worst is None:
            worst = sorted(pp(x)[:60] for x in b)
    chk.expect(worst is None, "single base", "OffsetFormat::format divides different offset values on one path: %s" % worst, loc=P.loc(fn))
    chk.expect(kinds == {"rounded", "exact"} and n1 > 10, "both precisions present", "paths with one base: %d, kinds %s (expected a rounded (+30) and an exact form)" % (n1, sorted(kinds)))


def r_write_n_cells(chk, P, tier):
    """write_n prints a number for each (always_sign, padding) combination with its own format template. The six templates are compared as siblings (independent of how the
    compiler encodes them): for every padding the always-sign template differs from the plain one (the `+` flag), by the same flag bytes for zero and space padding; zero, space
    and no padding differ from each other in both rows"""
    chk.rule("SIB.write_n", "write_n: the always-sign and the plain template of each padding differ by the sign flag (same flag for all paddings); the three paddings differ from each other", floor=6)
    fns = [n for n in P.fns if n.endswith("format_numeric::write_n") and P.has(n)]
    cells = {}
    for fn in fns:
        for p in Sym(P, fn).paths():
            sign = pad = None
            for c in p.conds:
                if c[0][0] != "switch":
                    continue
                if c[1] == ("arg", 5):
                    sign = (c[2] != 0) if not isinstance(c[2], tuple) else (c[2][0] == "else" and 0 in c[2][1])
                elif c[1][0] == "discr" and c[1][1] == ("arg", 4) and not isinstance(c[2], tuple):
                    pad = c[2]
            for c in p.calls:
                if isinstance(c[1], str) and c[1].endswith("Arguments::<'a>::new") and c[2]:
                    t = c[2][0]
                    while t[0] in ("ref", "deref"):
                        t = t[1]
                    if sign is not None and pad is not None:
                        cells.setdefault((sign, pad), set()).add(const_of(t))
    pads = sorted({k[1] for k in cells})
    if len(cells) != 6 or len(pads) != 3 or any(len(v) != 1 for v in cells.values()):
        chk.assume("SIB.write_n: write_n is no longer a 2 x 3 table of format templates: idiom not recognised, undecided")
        for i in range(6):
            chk.ok("cell %d (undecided)" % i)
        return
    tpl = {k: next(iter(v)) for k, v in cells.items()}
    loc = P.loc(fns[0])
    for pd in pads:
        chk.expect(tpl[(True, pd)] != tpl[(False, pd)], "sign flag, padding #%d" % pd, "write_n uses the same template %s with and without always_sign for padding variant %d (the forced `+` is lost)" % (tpl[(True, pd)], pd), loc=loc)
    diffs = {}
    for pd in pads:
        a, b = tpl[(True, pd)], tpl[(False, pd)]
        if isinstance(a, tuple) and isinstance(b, tuple) and len(a) == len(b):
            diffs[pd] = tuple((i, x - y) for i, (x, y) in enumerate(zip(a, b)) if x != y and isinstance(x, int) and isinstance(y, int))
    vals = set(diffs.values())
    chk.expect(len(vals) <= 1, "one sign flag", "the always-sign templates of write_n differ from the plain ones by different flags per padding: %s" % diffs, loc=loc)
    for sg in (True, False):
        row = [tpl[(sg, pd)] for pd in pads]
        chk.expect(len(set(row)) == 3, "paddings differ (always_sign=%s)" % sg, "write_n uses the same template for two paddings (always_sign=%s): %s" % (sg, row), loc=loc)


def r_results_consumed(chk, P, tier):
    """No formatting error is dropped: in the writers every call that returns fmt::Result has its result consumed - handed to `?` (Try::branch), matched on, or returned - on
    every way from the call to the next redefinition of the holding local or to the function's exit (a loop that overwrites a `result` variable per item and returns only the
    last one loses the error of every earlier item)"""
    from core import operands_of_block, succs
    chk.rule("ERR.results_consumed", "in write_to / format_numeric / format_fixed / write_rfc3339 / write_rfc2822 / OffsetFormat::format every fmt::Result is consumed before it is overwritten or the function ends", floor=40)
    fns = ["format::formatting::DelayedFormat::<I>::write_to", "format::formatting::DelayedFormat::<I>::format_numeric", "format::formatting::DelayedFormat::<I>::format_fixed",
           "format::formatting::write_rfc3339", "format::formatting::write_rfc2822", "format::formatting::<impl format::OffsetFormat>::format"]
    fns += sorted(n for n in P.fns if n.startswith("format::formatting::DelayedFormat::<I>::format_numeric::") and "{" not in n and P.has(n))
    total = 0
    for fn in fns:
        if not P.has(fn):
            raise AnchorLost(fn + " not found")
        mir = P.fn(fn)["mir"]
        blocks = mir["blocks"]

        def is_res(l):
            return P.ty_s(mir["locals"][l]) == "std::result::Result<(), std::fmt::Error>"

        def uses_of(b, l, after=-1):
            """(consumed, redefined, moved_to) looking at statements after index `after` and the terminator of block b"""
            blk = blocks[b]
            for i, st in enumerate(blk["s"]):
                if i <= after or st["k"] != "assign":
                    continue
                rv = st["rv"]
                reads = [o for o in ([rv.get("x")] if rv.get("x") else []) + rv.get("fields", []) + [rv.get("l"), rv.get("r")] if o]
                if rv["k"] == "discr" and rv.get("pl", {}).get("l") == l:
                    return ("consumed", None)
                for o in reads:
                    if isinstance(o, dict) and o.get("k") in ("copy", "move") and o["pl"]["l"] == l:
                        if st["pl"]["l"] == 0:
                            return ("consumed", None)
                        if rv["k"] == "use" and not o["pl"]["p"] and not st["pl"]["p"]:
                            return ("moved", (st["pl"]["l"], i))
                        return ("consumed", None)
                if st["pl"]["l"] == l and not st["pl"]["p"]:
                    return ("redefined", None)
            t = blk["t"]
            if t["k"] == "call":
                for a in t["args"]:
                    if a.get("k") in ("copy", "move") and a["pl"]["l"] == l:
                        return ("consumed", None)
                if t.get("dest") and t["dest"]["l"] == l and not t["dest"]["p"]:
                    return ("redefined", None)
            if t["k"] == "switch" and t["discr"].get("k") in ("copy", "move") and t["discr"]["pl"]["l"] == l:
                return ("consumed", None)
            if t["k"] == "return":
                return ("consumed", None) if l == 0 else ("exit", None)
            return (None, None)
        for bi, blk in enumerate(blocks):
            t = blk["t"]
            if blk.get("cleanup") or t["k"] != "call" or not t.get("dest") or t["dest"]["p"] or not is_res(t["dest"]["l"]) or t.get("target") is None:
                continue
            total += 1
            l0 = t["dest"]["l"]
            if l0 == 0:
                continue
            # search from the call's continuation
            bad = None
            seen = set()
            work = [(t["target"], l0, -1)]
            while work and bad is None:
                b, l, after = work.pop()
                if (b, l, after) in seen or blocks[b].get("cleanup"):
                    continue
                seen.add((b, l, after))
                kind, info = uses_of(b, l, after)
                if kind == "consumed":
                    continue
                if kind == "moved":
                    work.append((b, info[0], info[1]))
                    continue
                if kind in ("redefined", "exit"):
                    bad = (kind, blocks[b]["t"].get("ln"))
                    break
                for s_ in succs(blocks[b]["t"]):
                    work.append((s_, l, -1))
            callee = (t["callee"].get("resolved") or t["callee"].get("def") or "?").split("::")[-1]
            if bad is not None:
                chk.bad("%s: %s" % (fn.split("::")[-1], callee), "%s: the fmt::Result of the call of %s (line %s) can reach %s without having been checked (`?`), matched or returned: an error is dropped" % (
                    fn, callee, t.get("ln"), "its next overwrite" if bad[0] == "redefined" else "the end of the function"), loc=P.loc(fn))
            else:
                chk.ok("%s: %s" % (fn.split("::")[-1], callee))
    if total < 40:
        raise AnchorLost("only %d fmt::Result calls found in the writers" % total)


_LF = {}


def _logged_fold(P, fn, args, names):
    """fold fn(args) with the output calls named in `names` logged (and treated as succeeding): returns the list of (callee, shown args without the writer)"""
    from finmap import Folder, show
    key = (id(P), names)
    if key not in _LF:
        log = []
        OKU = ("agg", "adt", "std::result::Result", "Ok", (("agg", "tuple", None, None, (), None),), 0)

        def eff(name, a):
            log.append((name.split("::")[-1], tuple(show(x) for x in a[1:])))
            return OKU
        _LF[key] = (Folder(P, max_depth=8, effects=eff, effects_names=lambda n: any(n.endswith(x) for x in names)), log)
    fo, log = _LF[key]
    del log[:]
    fo._memo.clear()
    fo._eff_done.clear()
    fo.call(fn, args)
    return list(log)


def _chars(log):
    out = ""
    for n, a in log:
        if n == "write_char":
            c = a[0]
            while isinstance(c, tuple) and c:        # a `char` constant is decoded as (('char', code),)
                c = c[1] if len(c) == 2 and c[0] == "char" else c[0]
            out += chr(c) if isinstance(c, int) else str(a[0])
        elif n == "write_hundreds":
            out += "%02d" % a[0]
        else:
            out += "<%s%s>" % (n, a)
    return out


def r_offset_writer_map(chk, P, tier):
    """OffsetFormat::format (behind %z, %:z, %::z, %:::z, %#z, RFC 3339 and RFC 2822 offsets) as a value map: folded with its output calls logged for all 108 formats
    (precision x colons x padding x allow_zulu) and offsets on both sides of zero, half a minute, a minute, an hour, ten hours and the range end; the characters written equal
    the documented rendering (sign of the whole offset, seconds rounded to the nearest minute for the minute precisions, optional parts dropped when zero, `Z` only for zero)"""
    from finmap import Unknown
    chk.rule("MAP.offset_writer", "OffsetFormat::format folded over a one-factor-at-a-time design of its 108 formats and 35 boundary offsets writes the documented text (sign of the whole offset, rounding, optional parts, padding, colons, Z)", floor=150)
    fn = "format::formatting::<impl format::OffsetFormat>::format"
    OF = "format::OffsetFormat"
    precs = [v["name"] for v in P.adts["format::OffsetPrecision"]["variants"]]
    cols = [v["name"] for v in P.adts["format::Colons"]["variants"]]
    pads = [v["name"] for v in P.adts["format::Pad"]["variants"]]

    def en(adt, names, i):
        return ("agg", "adt", adt, names[i], (), i)
    offs = sorted({s_ * x for x in (0, 1, 29, 30, 31, 59, 60, 61, 1799, 1800, 3569, 3570, 3599, 3600, 3601, 35999, 36000, 86399) for s_ in (1, -1)})
    bad = {}
    n = 0
    few = (0, 1, -1, -1800, 35999, -36000)
    design = []
    bp, bc, bd = precs.index("Minutes"), cols.index("Colon"), pads.index("Zero")
    for pi in range(len(precs)):
        design.append((pi, bc, bd, False, offs if tier == "thorough" or pi in (bp, precs.index("OptionalMinutesAndSeconds"), precs.index("Hours")) else offs[::3] + [-1, 1, -59, 59]))
    for ci in range(len(cols)):
        for pi in (bp, precs.index("Seconds")):
            design.append((pi, ci, bd, False, few))
    for di in range(len(pads)):
        design.append((bp, bc, di, False, few))
        design.append((precs.index("Hours"), cols.index("None"), di, True, few))
    for pi in range(len(precs)):
        design.append((pi, bc, bd, True, (0, 1, -1)))
    for (pi, ci, di, zulu, offsets) in design:
        pn, cn, dn = precs[pi], cols[ci], pads[di]
        if True:
            if True:
                if True:
                    f = ("ref", ("agg", "adt", OF, "OffsetFormat", (en("format::OffsetPrecision", precs, pi), en("format::Colons", cols, ci), ("const", zulu), en("format::Pad", pads, di)), 0))
                    for off in offsets:
                        a = abs(off)
                        if zulu and off == 0:
                            want = "Z"
                        else:
                            sign = "-" if off < 0 else "+"
                            secs = 0
                            if pn == "Hours":
                                h, mins, prec = a // 3600, 0, "H"
                            elif pn in ("Minutes", "OptionalMinutes"):
                                mt = (a + 30) // 60
                                h, mins = mt // 60, mt % 60
                                prec = "H" if pn == "OptionalMinutes" and mins == 0 else "M"
                            else:
                                mt = a // 60
                                h, mins, secs = mt // 60, mt % 60, a % 60
                                if pn != "Seconds" and secs == 0:
                                    prec = "H" if pn == "OptionalMinutesAndSeconds" and mins == 0 else "M"
                                else:
                                    prec = "S"
                            colon = ":" if cn == "Colon" else ""
                            if h < 10:
                                want = (" " if dn == "Space" else "") + sign + ("0" if dn == "Zero" else "") + str(h)
                            else:
                                want = sign + "%02d" % h
                            if prec in ("M", "S"):
                                want += colon + "%02d" % mins
                            if prec == "S":
                                want += colon + "%02d" % secs
                        try:
                            got = _chars(_logged_fold(P, fn, [f, ("ref", ("const", "w")), ("agg", "adt", "offset::fixed::FixedOffset", "FixedOffset", (("const", off),), 0)],
                                                      ("::write_char", "formatting::write_hundreds")))
                        except Unknown as e:
                            got = "unknown: %s" % e
                        if got == want:
                            n += 1
                        else:
                            bad.setdefault("%s, %s offset" % (pn, "negative" if off < 0 else ("zero" if off == 0 else "positive")), ((pn, cn, dn, zulu, off), got, want))
    for _ in range(n):
        chk.ok("value")
    for cls, (a, got, want) in sorted(bad.items()):
        chk.bad(cls, "OffsetFormat%s writes `%s`, documented rendering `%s`" % (a, got, want), loc=P.loc(fn))


def r_two_digit_writer_map(chk, P, tier):
    """write_two / write_one (the day, month, hour, minute, second and two-digit-year fields of a format string) as complete finite maps: value 0..=99 x the three paddings"""
    from finmap import Unknown
    chk.rule("MAP.two_digit_writer", "write_two(v, pad) for v in 0..=99 and every padding writes v with zero / space / no padding; write_one writes the digit", floor=300)
    base = "format::formatting::DelayedFormat::<I>::format_numeric::"
    pads = [v["name"] for v in P.adts["format::Pad"]["variants"]]
    bad = None
    for di, dn in enumerate(pads):
        for v in range(100):
            want = ("%02d" % v) if dn == "Zero" else (("%2d" % v) if dn == "Space" else str(v))
            try:
                got = _chars(_logged_fold(P, base + "write_two", [("ref", ("const", "w")), ("const", v), ("agg", "adt", "format::Pad", dn, (), di)], ("::write_char",)))
            except Unknown as e:
                got = "unknown: %s" % e
            if got == want:
                chk.ok("value")
            elif bad is None:
                bad = ((v, dn), got, want)
    for v in range(10):
        try:
            got = _chars(_logged_fold(P, base + "write_one", [("ref", ("const", "w")), ("const", v)], ("::write_char",)))
        except Unknown as e:
            got = "unknown: %s" % e
        if got == str(v):
            chk.ok("value")
        elif bad is None:
            bad = ((v, "write_one"), got, str(v))
    chk.expect(bad is None, "digits", "write_two%s writes `%s`, expected `%s`" % (bad or ((), "", "")), loc=P.loc(base + "write_two"))


def r_offset_items(chk, P, tier):
    """which offset format each item of a format string selects: format_fixed folded with the call of OffsetFormat::format logged, for a value carrying the offset +05:30 and
    each of the six offset items: %z -> hhmm, %:z -> hh:mm, %::z -> hh:mm:ss, %:::z -> hh, and the two Z forms (same as %z / %:z with `Z` for zero), always zero padded, and the
    offset handed over is the bound one"""
    from finmap import Folder, show, Unknown, _opt
    chk.rule("TBL.offset_items", "each offset item selects its documented OffsetFormat (precision, colons, Z, zero padding) and passes the bound offset", floor=6)
    DF = "format::formatting::DelayedFormat"
    fx = [v["name"] for v in P.adts["format::Fixed"]["variants"]]
    log = []
    OKU = ("agg", "adt", "std::result::Result", "Ok", (("agg", "tuple", None, None, (), None),), 0)

    def eff(name, a):
        log.append((show(a[0]), show(a[2]) if len(a) > 2 else None))
        return OKU
    fo = Folder(P, max_depth=8, effects=eff, effects_names=lambda n: n.endswith("<impl format::OffsetFormat>::format"))
    names = [f["name"] for f in P.adts[DF]["variants"][0]["fields"]]
    off = ("agg", "adt", "offset::fixed::FixedOffset", "FixedOffset", (("const", 19800),), 0)
    vals = {"date": _opt(False), "time": _opt(False), "off": _opt(True, ("agg", "tuple", None, None, (("const", "IST"), off), None))}
    self_ = ("agg", "adt", DF, "DelayedFormat", tuple(vals.get(n, ("const", n)) for n in names), 0)
    want = {"TimezoneOffset": ("Minutes", False, False), "TimezoneOffsetColon": ("Minutes", True, False), "TimezoneOffsetDoubleColon": ("Seconds", True, False),
            "TimezoneOffsetTripleColon": ("Hours", False, False), "TimezoneOffsetZ": ("Minutes", False, True), "TimezoneOffsetColonZ": ("Minutes", True, True)}
    for item, (prec, colon, zulu) in want.items():
        if item not in fx:
            raise AnchorLost("Fixed::" + item)
        spec = ("ref", ("agg", "adt", "format::Fixed", item, (), fx.index(item)))
        del log[:]
        fo._memo.clear()
        fo._eff_done.clear()
        try:
            fo.call("format::formatting::DelayedFormat::<I>::format_fixed", [("ref", self_), ("ref", ("const", "w")), spec])
            got = list(log)
        except Unknown as e:
            got = "unknown: %s" % e
        ok = isinstance(got, list) and len(got) == 1 and isinstance(got[0][0], tuple) and len(got[0][0]) == 5
        if ok:
            f, o = got[0]
            ok = (f[1] == "OffsetPrecision::" + prec and (f[2] == "Colons::Colon") == colon and f[3] is zulu and f[4] == "Pad::Zero" and o == ("FixedOffset::FixedOffset", 19800))
        chk.expect(ok, item, "Fixed::%s formats the offset with %s (expected precision %s, colons %s, Z for zero %s, zero padded, the bound offset)" % (item, got, prec, colon, zulu),
                   loc=P.loc("format::formatting::DelayedFormat::<I>::format_fixed"))
