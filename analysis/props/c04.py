"""C04 — zone-aware date-times: one instant, many wall clocks (mostly shape)."""
from core import Prog, AnchorLost
from sym import Sym, pp, walk_terms, const_of
from rules import (reads_fields, derived_impls, field_names, fields_private, arg_field, is_call, find_calls, unref,
                   aggregate_sites, field_writes, accept_boxes, callees, extract_switch_map, result_variant)

DT = "datetime::DateTime"
NDT = "naive::datetime::NaiveDateTime"
DTI = "datetime::DateTime::<Tz>::"


def is_dt(t):
    return t.get("adt") == DT


def single_ret(P, fn):
    ps = [p for p in Sym(P, fn).paths() if p.end[0] == "return"]
    if len(ps) != 1:
        raise AnchorLost("%s is expected to be straight-line (found %d return paths)" % (fn, len(ps)))
    return ps[0].ret


def run(chk, tier):
    P = Prog("default")
    chk.configs.add("default")
    for r in (r_noread, r_copy, r_writers, r_direction, r_wallclock, r_filter, r_offset_range, r_opt_wrappers):
        chk.guarded(r, P)
    from props import c02
    chk.guarded(c02.r_wrappers, P, None)
    from props import c05
    chk.guarded(c05.r_projections, P, None)     # a unique wall-clock time is its own earliest / latest / single instant
    chk.guarded(r_offset_shift_map, P, tier)
    chk.assume("foreign TimeZone implementations are outside the analysed program")
    chk.assume("that local<->UTC round trips are identities on values (the one-day headroom arithmetic) is not decided")
    return {
        "explanation": "Structural rules for C04 over MIR: comparison/hash impls of DateTime read only the UTC field and delegate to the derived "
                       "NaiveDateTime impls; every zone conversion copies the UTC field bit for bit; the set of DateTime construction/assignment "
                       "sites is the confirmed one; from-local subtracts and to-local adds the offset down to the NaiveTime operator; every "
                       "Datelike/Timelike getter, with_* setter and formatter goes through overflowing_naive_local; every function that "
                       "re-resolves a modified wall clock passes its result through the MIN_UTC/MAX_UTC filter (or a year-validating naive op); "
                       "FixedOffset::east_opt/west_opt accept exactly (-86400, 86400).",
        "trusted_base": ["MIR/type facts from rustc nightly", "def-use term reconstruction (analysis/sym.py)"],
    }


def r_noread(chk, P):
    chk.rule("NOREAD.offset", "==, <, cmp and hash of DateTime read only the UTC field and delegate to NaiveDateTime's derived impls", floor=9)
    fns = {
        "<datetime::DateTime<Tz> as std::cmp::PartialEq<datetime::DateTime<Tz2>>>::eq": "<naive::datetime::NaiveDateTime as std::cmp::PartialEq>::eq",
        "<datetime::DateTime<Tz> as std::cmp::PartialOrd<datetime::DateTime<Tz2>>>::partial_cmp": "<naive::datetime::NaiveDateTime as std::cmp::PartialOrd>::partial_cmp",
        "<datetime::DateTime<Tz> as std::cmp::Ord>::cmp": "<naive::datetime::NaiveDateTime as std::cmp::Ord>::cmp",
        "<datetime::DateTime<Tz> as std::hash::Hash>::hash": "<naive::datetime::NaiveDateTime as std::hash::Hash>::hash",
    }
    for fn, target in fns.items():
        rd = reads_fields(P, fn, is_dt)
        chk.expect(rd == {0}, "reads:" + fn, "%s reads DateTime fields %s; only field 0 (datetime, the UTC value) may be read" % (fn, sorted(rd)), loc=P.loc(fn))
        ret = single_ret(P, fn)
        ok = is_call(ret, name=target) and all(arg_field(a) in ((1, 0), (2, 0)) for a in ret[2][:2 if "Hash" not in fn else 1])
        chk.expect(ok, "delegates:" + fn, "%s does not delegate to %s on the UTC fields: %s" % (fn, target, pp(ret)), loc=P.loc(fn))
    # positive control for the read rule
    rd = reads_fields(P, DTI + "offset", is_dt)
    chk.expect(rd == {1}, "control: offset() reads field 1", "positive control failed: DateTime::offset reads %s" % sorted(rd))
    chk.rule("DERIVE.ndt", "NaiveDateTime's Eq/Ord/Hash are derived over (date, time) in that order", floor=6)
    chk.expect(field_names(P, NDT) == ["date", "time"], "fields", "NaiveDateTime fields are %s" % field_names(P, NDT))
    d = derived_impls(P, NDT)
    for tr in ("std::cmp::PartialEq", "std::cmp::Eq", "std::cmp::PartialOrd", "std::cmp::Ord", "std::hash::Hash"):
        chk.expect(d.get(tr) is True, tr, "impl %s for NaiveDateTime is not derived" % tr)


def r_copy(chk, P):
    chk.rule("COPY.instant", "zone conversions copy the UTC field unchanged", floor=13)
    ret = single_ret(P, DTI + "with_timezone")
    ok = is_call(ret, name="offset::TimeZone::from_utc_datetime") and arg_field(ret[2][1]) == (1, 0)
    chk.expect(ok, "with_timezone", "with_timezone does not pass self.datetime to from_utc_datetime: " + pp(ret), loc=P.loc(DTI + "with_timezone"))
    ret = single_ret(P, DTI + "to_utc")
    ok = ret[0] == "agg" and ret[2] == DT and arg_field(ret[4][0]) == (1, 0)
    chk.expect(ok, "to_utc", "to_utc does not copy self.datetime: " + pp(ret))
    ret = single_ret(P, DTI + "fixed_offset")
    ok = is_call(ret, name=DTI + "with_timezone") and arg_field(ret[2][0]) == (1, None)
    chk.expect(ok, "fixed_offset", "fixed_offset is not self.with_timezone(..): " + pp(ret))
    ret = single_ret(P, "offset::TimeZone::from_utc_datetime")
    ok = is_call(ret, name=DTI + "from_naive_utc_and_offset") and arg_field(ret[2][0]) == (2, None)
    chk.expect(ok, "TimeZone::from_utc_datetime", "default from_utc_datetime does not pass the UTC value through: " + pp(ret))
    ret = single_ret(P, DTI + "from_naive_utc_and_offset")
    ok = ret[0] == "agg" and ret[2] == DT and arg_field(ret[4][0]) == (1, None) and arg_field(ret[4][1]) == (2, None)
    chk.expect(ok, "from_naive_utc_and_offset", "from_naive_utc_and_offset does not store its arguments unchanged: " + pp(ret))
    ret = single_ret(P, DTI + "naive_utc")
    chk.expect(arg_field(ret) == (1, 0), "naive_utc", "naive_utc does not return self.datetime: " + pp(ret))
    froms = [n for n in P.fns if n.startswith("<datetime::DateTime<") and "std::convert::From<datetime::DateTime<" in n and n.endswith("::from")]
    for fn in froms:
        ret = single_ret(P, fn)
        ok = is_call(ret, name=DTI + "with_timezone") and arg_field(ret[2][0]) == (1, None)
        chk.expect(ok, fn, "%s is not src.with_timezone(..): %s" % (fn, pp(ret)), loc=P.loc(fn))
    chk.expect(len(froms) >= 6, "six From conversions", "only %d From<DateTime<_>> conversions found" % len(froms))
    for m in ("from_utc_datetime", "from_local_datetime"):
        ov = P.impl_of_trait_item.get("offset::TimeZone::" + m, [])
        chk.expect(not ov, "no override of " + m, "TimeZone::%s is overridden by %s" % (m, ov))


# construction / assignment sites of DateTime confirmed by reading (function -> reason)
WRITERS = {
    "<datetime::DateTime<Tz> as std::clone::Clone>::clone": "field-wise clone",
    DTI + "from_naive_utc_and_offset": "the constructor from a UTC value",
    DTI + "from_utc": "deprecated alias of the constructor",
    DTI + "from_local": "deprecated: subtracts the offset (documented)",
    DTI + "to_utc": "copies the UTC value",
    DTI + "MIN_UTC": "range end constant",
    DTI + "MAX_UTC": "range end constant",
    DTI + "UNIX_EPOCH": "epoch constant",
}
ASSIGNERS = {
    "<datetime::DateTime<Tz> as std::ops::Add<offset::fixed::FixedOffset>>::add": "documented operator, panics on overflow",
    "<datetime::DateTime<Tz> as std::ops::Sub<offset::fixed::FixedOffset>>::sub": "documented operator, panics on overflow",
}


def r_writers(chk, P):
    chk.rule("WRITE.datetime", "only the confirmed constructors build a DateTime / assign its UTC field; both fields are private", floor=9)
    sites = aggregate_sites(P, DT)
    for fn, bi, si, st in sites:
        base = fn.split("::{")[0]
        chk.expect(base in WRITERS, "agg:" + fn, "%s builds a DateTime value directly (not one of the confirmed constructors)" % fn, loc=P.loc(fn, st["ln"]))
    for fn, ln, fld in field_writes(P, is_dt):
        chk.expect(fn in ASSIGNERS, "assign:%s.%d" % (fn, fld), "%s assigns field %d of a DateTime" % (fn, fld), loc=P.loc(fn, ln))
    chk.expect(fields_private(P, DT), "private fields", "DateTime has a public field")
    muts = []
    for n, f in P.fns.items():
        if f.get("reachable") and f.get("pub") and "ret" in f:
            t = P.ty(f["ret"])
            if t.get("k") == "ref" and t.get("mut") and P.ty(t["inner"]).get("adt") in (NDT, DT) and any(
                    P.ty(P.ty(i).get("inner", i)).get("adt") == DT for i in f.get("inputs", []) if P.ty(i).get("k") == "ref"):
                muts.append(n)
    chk.expect(not muts, "no &mut accessor", "public functions hand out &mut to DateTime internals: %s" % muts)


def r_direction(chk, P):
    chk.rule("DIR.offset", "from local time the offset is subtracted, to local time it is added, down to the NaiveTime operator", floor=9)
    cl = "offset::TimeZone::from_local_datetime::{closure#0}"
    cs = callees(P, cl)
    chk.expect(NDT + "::checked_sub_offset" in cs and NDT + "::checked_add_offset" not in cs, "from_local_datetime",
               "from_local_datetime does not resolve local time by checked_sub_offset: callees %s" % sorted(c for c in cs if "offset" in c), loc=P.loc(cl))
    ret = single_ret(P, "offset::TimeZone::from_local_datetime")
    ok = is_call(ret, suffix="::and_then") and any(is_call(c, name="offset::TimeZone::offset_from_local_datetime") for c in find_calls(ret))
    chk.expect(ok, "from_local_datetime uses offset_from_local_datetime", "from_local_datetime: " + pp(ret))
    for fn, want, bad in ((DTI + "naive_local", NDT + "::checked_add_offset", NDT + "::checked_sub_offset"),
                          (DTI + "overflowing_naive_local", NDT + "::overflowing_add_offset", NDT + "::overflowing_sub_offset")):
        cs = callees(P, fn)
        ret = single_ret(P, fn)
        inner = [c for c in find_calls(ret) if c[1] == want]
        ok = want in cs and bad not in cs and inner and arg_field(inner[0][2][0]) == (1, 0) and is_call(unref(inner[0][2][1]), name="offset::Offset::fix")
        chk.expect(ok, fn, "%s is not self.datetime + self.offset.fix(): %s" % (fn, pp(ret)), loc=P.loc(fn))
    for fn, want in ((NDT + "::checked_add_offset", "naive::time::NaiveTime::overflowing_add_offset"),
                     (NDT + "::checked_sub_offset", "naive::time::NaiveTime::overflowing_sub_offset"),
                     (NDT + "::overflowing_add_offset", "naive::time::NaiveTime::overflowing_add_offset")):
        cs = callees(P, fn)
        others = {c for c in cs if c.startswith("naive::time::NaiveTime::overflowing_") and c != want}
        ok = want in cs and not others
        # day carry: -1 -> previous day, +1 -> next day, otherwise same date
        carry_ok = True
        for p in Sym(P, fn).paths():
            sw = [c for c in p.conds if c[0][0] == "switch" and c[1][0] == "field" and is_call(c[1][1], name=want)]
            if not sw or p.end[0] != "return":
                continue
            v = sw[0][2]
            names = {c[1] for c in find_calls(p.ret)} | {c[1][1][1] for c in p.conds if c[1][0] == "discr" and c[1][1][0] == "call"}
            pred, succ = "naive::date::NaiveDate::pred_opt" in names, "naive::date::NaiveDate::succ_opt" in names
            if v == -1:
                carry_ok &= pred and not succ
            elif v == 1:
                carry_ok &= succ and not pred
            else:
                carry_ok &= not pred and not succ
        chk.expect(ok and carry_ok, fn, "%s: time part must use %s; carry -1/+1 must map to pred_opt/succ_opt (callees %s)" % (
            fn, want, sorted(c for c in cs if "overflowing" in c or "pred" in c or "succ" in c)), loc=P.loc(fn))
    for fn, op in (("naive::time::NaiveTime::overflowing_add_offset", "Add"), ("naive::time::NaiveTime::overflowing_sub_offset", "Sub")):
        ret = single_ret(P, fn)
        ops = [t for t in walk_terms(ret) if t[0] == "bin" and t[1].replace("WithOverflow", "") in ("Add", "Sub")
               and any(is_call(x, suffix="local_minus_utc") for x in walk_terms(t))]
        ok = ops and all(t[1].startswith(op) for t in ops) and all(
            arg_field(_strip_cast(t[2])) == (1, 0) and is_call(t[3], suffix="local_minus_utc") for t in ops)
        chk.expect(ok, fn, "%s must compute secs %s offset (operand order matters): %s" % (fn, "+" if op == "Add" else "-", pp(ret)), loc=P.loc(fn))
    ret = single_ret(P, "<offset::fixed::FixedOffset as offset::Offset>::fix")
    chk.expect(arg_field(ret) == (1, None), "FixedOffset::fix", "FixedOffset::fix is not the identity: " + pp(ret))
    ret = single_ret(P, "offset::fixed::FixedOffset::local_minus_utc")
    chk.expect(arg_field(ret) == (1, 0), "local_minus_utc", "local_minus_utc does not return the stored field: " + pp(ret))
    ret = single_ret(P, "offset::fixed::FixedOffset::utc_minus_local")
    ok = ret[0] == "un" and ret[1] == "Neg" and arg_field(ret[2]) == (1, 0)
    chk.expect(ok, "utc_minus_local", "utc_minus_local is not the negated field: " + pp(ret))


def _strip_cast(t):
    while t[0] == "cast":
        t = t[1]
    return t


GETTERS = {
    "traits::Datelike": ["year", "month", "month0", "day", "day0", "ordinal", "ordinal0", "weekday", "iso_week"],
    "traits::Timelike": ["hour", "minute", "second", "nanosecond"],
}
SETTERS = {
    "traits::Datelike": ["with_year", "with_month", "with_month0", "with_day", "with_day0", "with_ordinal", "with_ordinal0"],
    "traits::Timelike": ["with_hour", "with_minute", "with_second", "with_nanosecond"],
}
ONL = DTI + "overflowing_naive_local"


def r_wallclock(chk, P):
    chk.rule("WALL.getters", "every Datelike/Timelike getter of DateTime is the same-named NaiveDateTime getter on overflowing_naive_local()", floor=13)
    for tr, ms in GETTERS.items():
        for m in ms:
            fn = "<datetime::DateTime<Tz> as %s>::%s" % (tr, m)
            ret = single_ret(P, fn)
            target = "<naive::datetime::NaiveDateTime as %s>::%s" % (tr, m)
            ok = is_call(ret, name=target) and len(ret[2]) == 1 and is_call(unref(ret[2][0]), name=ONL) and arg_field(unref(ret[2][0])[2][0]) == (1, None)
            chk.expect(ok, m, "%s is not self.overflowing_naive_local().%s(): %s" % (fn, m, pp(ret)), loc=P.loc(fn))
    chk.rule("WALL.setters", "every with_* of DateTime maps the same-named NaiveDateTime setter over the wall clock via map_local", floor=11)
    for tr, ms in SETTERS.items():
        for m in ms:
            fn = "<datetime::DateTime<Tz> as %s>::%s" % (tr, m)
            ret = single_ret(P, fn)
            ok = is_call(ret, name="datetime::map_local") and arg_field(ret[2][0]) == (1, None)
            cl = fn + "::{closure#0}"
            target = "<naive::datetime::NaiveDateTime as %s>::%s" % (tr, m)
            rets = [p.ret for p in Sym(P, cl).paths() if p.end[0] == "return"]
            # every path applies the same-named naive setter to the wall clock, or returns the wall clock unchanged
            setter = [r for r in rets if is_call(r, name=target) and arg_field(r[2][0]) == (2, None)]
            ident = [r for r in rets if result_variant(r)[0] == "Some" and arg_field(r[4][0]) == (2, None)]
            ok = ok and setter and len(setter) + len(ident) == len(rets)
            chk.expect(ok, m, "%s is not map_local(self, |dt| dt.%s(..)): %s / closure %s" % (fn, m, pp(ret), [pp(r) for r in rets]), loc=P.loc(fn))
    chk.rule("WALL.format", "Debug, Display, format_with_items, to_rfc2822, to_rfc3339(_opts), date_naive, time use the non-panicking wall-clock view", floor=7)
    for fn in ("<datetime::DateTime<Tz> as std::fmt::Debug>::fmt", "<datetime::DateTime<Tz> as std::fmt::Display>::fmt",
               DTI + "format_with_items", DTI + "to_rfc2822", DTI + "to_rfc3339", DTI + "to_rfc3339_opts"):
        cs = callees(P, fn)
        chk.expect(ONL in cs and DTI + "naive_local" not in cs, fn, "%s does not use overflowing_naive_local (or uses the panicking naive_local)" % fn, loc=P.loc(fn))
    ret = single_ret(P, DTI + "time")
    ok = is_call(ret, name="<naive::time::NaiveTime as std::ops::Add<offset::fixed::FixedOffset>>::add") and is_call(ret[2][1], name="offset::Offset::fix") \
        and is_call(ret[2][0], name=NDT + "::time") and arg_field(ret[2][0][2][0]) == (1, 0)
    chk.expect(ok, "time()", "DateTime::time is not self.datetime.time() + self.offset.fix(): " + pp(ret), loc=P.loc(DTI + "time"))
    # map_local applies f to overflowing_naive_local(self) on every path (any number of return paths)
    inner = []
    npaths = 0
    for p_ in Sym(P, "datetime::map_local").paths():
        if p_.end[0] != "return":
            continue
        npaths += 1
        fcalls = [c for c in p_.calls if not isinstance(c[1], str) or str(c[1]).endswith("call_mut") or str(c[1]).endswith("call_once") or str(c[1]).endswith("::call")]
        onl = [c for t in fcalls for c in find_calls(t) if c[1] == ONL] + [c for c in p_.calls if c[1] == ONL]
        inner.append(bool(onl) and all(arg_field(c[2][0]) == (1, None) for c in onl))
    chk.expect(npaths > 0 and all(inner), "map_local wall clock", "map_local does not apply f to overflowing_naive_local(self) on every path")


def _closure_mentions(P, cl, names, seen=None):
    """named constants referenced by a closure body (and its nested closures)"""
    found = set()
    stack = [cl]
    seen = set()
    while stack:
        c = stack.pop()
        if c in seen or not P.has(c):
            continue
        seen.add(c)
        f = P.fn(c)
        from core import operands_of_block
        bodies = [f["mir"]] + f.get("promoted", [])
        for b in [b for m in bodies for b in m["blocks"]]:
            if b.get("cleanup"):
                continue
            for op in operands_of_block(b):
                if op.get("k") == "const" and "def" in op:
                    for n in names:
                        if op["def"].endswith("::" + n):
                            found.add(n)
        stack.extend(P.closures_of(c))
        # a private helper extracted from this function after the review is part of its body
        from rules import is_new_helper
        for bi, t, cs in P.calls(c):
            stack.extend(x for x in cs if is_new_helper(P, x))
    return found


# one-sided filters that are sufficient because the operation moves the instant in one direction only
ONE_SIDED = {DTI + "checked_add_days": {"MAX_UTC"}, DTI + "checked_sub_days": {"MIN_UTC"}}


def _ints(v, out):
    if isinstance(v, bool):
        return
    if isinstance(v, int):
        out.append(v)
    elif isinstance(v, dict):
        for x in v.values():
            _ints(x, out)
    elif isinstance(v, (list, tuple)):
        for x in v:
            _ints(x, out)


def _utc_bound(P, t):
    """'MIN_UTC' / 'MAX_UTC' when the term is (a reference to) that constant, by name or by its compiler-evaluated value"""
    for y in walk_terms(t):
        if y[0] == "named" and y[1].endswith("MIN_UTC"):
            return "MIN_UTC"
        if y[0] == "named" and y[1].endswith("MAX_UTC"):
            return "MAX_UTC"
        if y[0] == "const" and isinstance(y[1], tuple) and "datetime::DateTime" in repr(y[1])[:60]:
            got = []
            _ints(y[1], got)
            for name, path in (("MIN_UTC", NDT + "::MIN"), ("MAX_UTC", NDT + "::MAX")):
                want = []
                _ints(P.value(path), want)
                if want and got[-len(want):] == want or got[:len(want)] == want:
                    return name
    return None


def has_range_filter(P, fn):
    """fn's result passes through Option::filter / LocalResult::and_then with a closure comparing against MIN_UTC and MAX_UTC"""
    for p in Sym(P, fn).paths():
        if p.end[0] != "return":
            continue
        var, _ = result_variant(p.ret)
        if var in ("None",):
            continue
        if is_call(p.ret) and str(p.ret[1]).endswith("::from_residual"):
            continue  # `?` propagating a None
        if var == "Some" and arg_field(p.ret[4][0]) == (1, None):
            continue  # returns self unchanged: the same instant
        ok = False
        t = p.ret
        # peel Some(..) wrappers / ? operators are separate paths
        for c in [t] if t[0] == "call" else []:
            if isinstance(c[1], str) and (c[1].endswith("Option::<T>::filter") or c[1].endswith("LocalResult::<T>::and_then")):
                clos = [a for a in c[2] if a[0] == "agg" and a[1] == "closure"]
                need = ONE_SIDED.get(fn, {"MIN_UTC", "MAX_UTC"})
                if clos and _closure_mentions(P, clos[0][2], ("MIN_UTC", "MAX_UTC")) >= need:
                    ok = True
        if not ok:
            # second idiom: the comparisons are path conditions (`if v >= MIN_UTC && v <= MAX_UTC { Some(v) } else { None }`)
            need = ONE_SIDED.get(fn, {"MIN_UTC", "MAX_UTC"})
            have = set()
            for c in p.conds:
                tc = c[1]
                truth = (c[2] != 0) if not isinstance(c[2], tuple) else (c[2][0] == "else" and 0 in c[2][1])
                if c[0][0] != "switch" or not is_call(tc) or not truth:
                    continue
                op = str(tc[1]).split("::")[-1]
                if len(tc[2]) != 2:
                    continue
                which = _utc_bound(P, tc[2][1])
                if op in ("ge", "gt") and which == "MIN_UTC":
                    have.add("MIN_UTC")
                if op in ("le", "lt") and which == "MAX_UTC":
                    have.add("MAX_UTC")
            ok = have >= need
        if not ok:
            return False, pp(p.ret)
    return True, None


# naive operations that cannot return a date in the one-day headroom (they rebuild the date through a year-validating constructor)
YEAR_VALIDATING = {NDT + "::checked_add_months": "NaiveDate::diff_months -> from_ymd_opt/from_mdf checks MIN_YEAR..=MAX_YEAR; Months(0) returns self unchanged (same instant)",
                   NDT + "::checked_sub_months": "same as checked_add_months"}


def r_filter(chk, P):
    chk.rule("DOM.range_filter", "functions re-resolving a modified wall clock in the zone filter the result against MIN_UTC/MAX_UTC and, where they return an Option, keep only a unique (`single`) resolution", floor=11)
    resolvers = {"offset::TimeZone::from_local_datetime", NDT + "::and_local_timezone"}
    found = []
    for n, f in P.fns.items():
        if "mir" not in f or f.get("deprecated") or not n.startswith("datetime::"):
            continue
        base = n.split("::{closure")[0]
        if base in found:
            continue
        names = [n] + P.closures_of(n)
        calls_res = any(c in resolvers for x in names for c in callees(P, x, with_closures=False))
        uses_wall = any(ONL in callees(P, x, with_closures=False) for x in names)
        if calls_res and uses_wall and "{closure" not in n:
            found.append(n)
    for fn in sorted(found):
        ok, why = has_range_filter(P, fn)
        if not ok:
            # alternative: the modified value comes from a year-validating naive operation
            cs = callees(P, fn)
            yv = [c for c in cs if c in YEAR_VALIDATING]
            ok = bool(yv)
        chk.expect(ok, fn, "%s re-resolves a wall-clock value in the zone without the MIN_UTC/MAX_UTC filter: %s" % (fn, why), loc=P.loc(fn))
    want = {"datetime::map_local", DTI + "with_time", DTI + "checked_add_days", DTI + "checked_sub_days", DTI + "checked_add_months", DTI + "checked_sub_months"}
    chk.expect(want <= set(found), "resolver set", "expected wall-clock re-resolving functions not found: %s" % sorted(want - set(found)))
    # every Option-returning re-resolver keeps only a unique wall-clock time: it projects with `single`, never `earliest` / `latest`
    # (documented: "returns None if the local time is ambiguous or in a gap")
    for fn in sorted(want - {DTI + "with_time"}):
        if fn not in found:
            continue
        cs = set()
        for x in [fn] + P.closures_of(fn):
            cs |= set(callees(P, x, with_closures=False))
        proj = sorted(c.rsplit("::", 1)[-1] for c in cs if c.startswith("offset::LocalResult::<T>::") and c.rsplit("::", 1)[-1] in ("single", "earliest", "latest", "unwrap"))
        chk.expect(proj == ["single"], fn + " projection", "%s resolves the stepped wall-clock time with %s, expected only `single` (an ambiguous or skipped time is refused)" % (fn, proj), loc=P.loc(fn))
    # the year-validating claim: diff_months builds its result through from_ymd_opt -> from_mdf, which compares the year with MIN_YEAR/MAX_YEAR
    seen = P.reachable_from(["naive::date::NaiveDate::diff_months"])
    ok = "naive::date::NaiveDate::from_mdf" in seen
    c = _closure_mentions(P, "naive::date::NaiveDate::from_mdf", ("MIN_YEAR", "MAX_YEAR"))
    chk.expect(ok and c == {"MIN_YEAR", "MAX_YEAR"}, "month stepping validates the year", "NaiveDate::diff_months no longer reaches the year check in from_mdf")


def r_offset_range(chk, P):
    chk.rule("BOX.fixedoffset", "FixedOffset::east_opt/west_opt accept exactly -86399..=86399 and store +secs / -secs", floor=2)
    for fn, neg in (("offset::fixed::FixedOffset::east_opt", False), ("offset::fixed::FixedOffset::west_opt", True)):
        bs = accept_boxes(P, fn, {"secs": ("arg", 1)})
        ok = len(bs) == 1 and bs[0][0]["secs"] == [-86399, 86399] and not bs[0][1]
        if ok:
            v = bs[0][2].ret[4][0]
            fld = v[4][0] if v[0] == "agg" else None
            if neg:
                ok = fld is not None and fld[0] == "un" and fld[1] == "Neg" and fld[2] == ("arg", 1)
            else:
                ok = fld == ("arg", 1)
        chk.expect(ok, fn, "%s: acceptance box %s" % (fn, [(b[0], [pp(c[1]) for c in b[1]]) for b in bs]), loc=P.loc(fn))


def r_offset_shift_map(chk, P, tier):
    """Wall clock = UTC + offset as a region-representative value map. NaiveDateTime::checked_add/sub_offset and overflowing_add/sub_offset, the provided TimeZone::from_utc_datetime /
    from_local_datetime with a FixedOffset receiver, and DateTime::naive_local / overflowing_naive_local / timestamp / naive_utc are folded (no execution) for times on both sides of
    midnight and a leap second, dates in mid-year, at year ends and at both ends of the range, and offsets 0, +-1 s, +-1 h -+1 s, +-(24 h - 1 s): the wall clock is the UTC reading
    shifted by exactly the offset with the (leap) fraction kept, the checked forms refuse exactly the results outside MIN..=MAX, the overflowing forms go up to a day beyond, and
    building from a wall-clock time and reading it back (or from UTC) is the identity."""
    import calendar_oracle as cal
    from finmap import Folder, show, Unknown
    from rules import table_value
    from props.c01 import flags_of
    chk.rule("MAP.offset_shift", "checked / overflowing offset shifts of NaiveDateTime, from_utc_datetime / from_local_datetime of FixedOffset and naive_local / timestamp of DateTime folded on all region boundaries equal UTC + offset", floor=3000)
    fo = Folder(P, max_depth=14)
    tbl = [flags_of(c) for c in table_value(P, "naive::internals::YEAR_TO_FLAGS")]
    miny, maxy = P.value("naive::date::MIN_YEAR"), P.value("naive::date::MAX_YEAR")
    epoch = cal.day_number(1970, 1, 1)
    dn_min, dn_max = cal.day_number(miny, 1, 1), cal.day_number(maxy, 12, 31)
    NDT = "naive::datetime::NaiveDateTime"

    def yof_of_dn(dn):
        y = dn * 400 // 146097
        while cal.day_number(y, 1, 1) > dn:
            y -= 1
        while cal.day_number(y + 1, 1, 1) <= dn:
            y += 1
        o = dn - cal.day_number(y, 1, 1) + 1
        return (y << 13) | (o << 4) | tbl[y % 400]

    def ndt(dn, secs, frac):
        return ("agg", "adt", NDT, "NaiveDateTime", (("agg", "adt", "naive::date::NaiveDate", "NaiveDate", (("const", yof_of_dn(dn)),), 0),
                                                     ("agg", "adt", "naive::time::NaiveTime", "NaiveTime", (("const", secs), ("const", frac)), 0)), 0)

    def fix(sec):
        return ("agg", "adt", "offset::fixed::FixedOffset", "FixedOffset", (("const", sec),), 0)

    def parts(v):
        if v == "Option::None":
            return None
        if isinstance(v, tuple) and v[0] in ("Option::Some", "LocalResult::Single"):
            v = v[1]
        if isinstance(v, tuple) and v[0] == "DateTime::DateTime":
            v = v[1]
        def first_int(x):
            # a date that is one of the crate's constants (BEFORE_MIN / AFTER_MAX) shows as the decoded constant struct: its only integer is the packed yof
            if isinstance(x, int) and not isinstance(x, bool):
                return x
            if isinstance(x, tuple):
                for y in x:
                    r = first_int(y)
                    if r is not None:
                        return r
            return None
        try:
            d = v[1][1] if isinstance(v[1], tuple) and v[1] and v[1][0] == "NaiveDate::NaiveDate" else first_int(v[1])
            return (d, v[2][1], v[2][2])
        except Exception:
            return ("?", v)

    def shifted(dn, secs, frac, off, lo, hi):
        t = secs + off
        dn2, s2 = dn + t // 86400, t % 86400
        if not lo <= dn2 <= hi:
            return None
        return (yof_of_dn(dn2), s2, frac)
    bad = {}
    n = [0]

    def expect(cls, a, got, w):
        if got == w:
            n[0] += 1
        else:
            bad.setdefault(cls, (a, got, w))

    def fold(fn, args):
        try:
            return show(fo.call(fn, args))
        except Unknown as e:
            return "unknown: %s" % e
    days = [cal.day_number(2024, 2, 29), cal.day_number(2023, 12, 31), cal.day_number(2024, 1, 1), epoch, dn_min, dn_min + 1, dn_max - 1, dn_max]
    times = [(0, 0), (1, 0), (43200, 5), (86398, 0), (86399, 999999999), (86399, 1500000000), (3599, 1000000000)]
    offs = [0, 1, -1, 3599, -3599, 3600, -3600, 43200, 86399, -86399]
    for dn in days:
        for (secs, frac) in times:
            x = ndt(dn, secs, frac)
            for off in offs:
                expect("checked_add_offset", (dn, secs, frac, off), parts(fold(NDT + "::checked_add_offset", [x, fix(off)])), shifted(dn, secs, frac, off, dn_min, dn_max))
                expect("checked_sub_offset", (dn, secs, frac, off), parts(fold(NDT + "::checked_sub_offset", [x, fix(off)])), shifted(dn, secs, frac, -off, dn_min, dn_max))
                expect("overflowing_add_offset", (dn, secs, frac, off), parts(fold(NDT + "::overflowing_add_offset", [x, fix(off)])), shifted(dn, secs, frac, off, dn_min - 1, dn_max + 1))
                expect("overflowing_sub_offset", (dn, secs, frac, off), parts(fold(NDT + "::overflowing_sub_offset", [x, fix(off)])), shifted(dn, secs, frac, -off, dn_min - 1, dn_max + 1))
                # a zone-aware value built from this UTC reading: stored UTC is the reading, the wall clock is UTC + offset, the timestamp ignores the offset
                dtv = ("agg", "adt", "datetime::DateTime", "DateTime", (x, fix(off)), 0)
                expect("from_utc_datetime", (dn, secs, frac, off), parts(fold("offset::TimeZone::from_utc_datetime", [("ref", fix(off)), ("ref", x)])), (yof_of_dn(dn), secs, frac))
                expect("naive_utc", (dn, secs, frac, off), parts(fold("datetime::DateTime::<Tz>::naive_utc", [("ref", dtv)])), (yof_of_dn(dn), secs, frac))
                expect("timestamp", (dn, secs, frac, off), fold("datetime::DateTime::<Tz>::timestamp", [("ref", dtv)]), (dn - epoch) * 86400 + secs)
                expect("overflowing_naive_local", (dn, secs, frac, off), parts(fold("datetime::DateTime::<Tz>::overflowing_naive_local", [("ref", dtv)])), shifted(dn, secs, frac, off, dn_min - 1, dn_max + 1))
                w = shifted(dn, secs, frac, off, dn_min, dn_max)
                if w is not None:
                    expect("naive_local", (dn, secs, frac, off), parts(fold("datetime::DateTime::<Tz>::naive_local", [("ref", dtv)])), w)
                # from a wall-clock reading: the stored UTC is reading - offset, or no value if that leaves the range
                got = fold("offset::TimeZone::from_local_datetime", [("ref", fix(off)), ("ref", x)])
                w = shifted(dn, secs, frac, -off, dn_min, dn_max)
                expect("from_local_datetime", (dn, secs, frac, off), "LocalResult::None" if got == "LocalResult::None" and w is None else parts(got), "LocalResult::None" if w is None else w)
    for _ in range(n[0]):
        chk.ok("value")
    for cls, (a, got, w) in sorted(bad.items()):
        chk.bad(cls, "%s: (day number, second, fraction, offset) = %s folds to %s, UTC + offset gives %s" % (cls, a, got, w), loc=P.loc(NDT + "::checked_add_offset"))


def r_opt_wrappers(chk, P, tier=None):
    import rules
    rules.opt_wrappers(chk, P, ("offset::fixed::",), floor=2)
