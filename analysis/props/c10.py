"""C10 — RFC 3339: shape of the strict reader against the ABNF, writer structure (narrow)."""
from core import Prog, AnchorLost
from sym import Sym, pp, walk_terms, const_of
from rules import is_call, find_calls, arg_field, result_variant, callees, unref, cond_constraints
from props.c09 import skeletons, decode_template
import e1

PR = "format::parse::parse_rfc3339"
WR = "format::formatting::write_rfc3339"
BAD_CHAR_PREDICATES = ("is_numeric", "is_alphanumeric", "is_alphabetic", "is_digit", "is_uppercase", "is_lowercase")


def run(chk, tier):
    P = Prog("default")
    chk.configs.add("default")
    from props import c11
    chk.guarded(c11.r_item_arms, P, tier)
    from props import c09, c12
    chk.guarded(c09.r_write_hundreds, P, tier)
    chk.guarded(c12.r_offset_writer_map, P, tier)
    for r in (r_reader_shape, r_offset_bound, r_entry, r_writer, r_year_box, r_year_template, r_fraction_templates, r_ascii, r_absint, r_flow, r_own_ranges, r_fraction_scale, r_fraction_base):
        chk.guarded(r, P, tier)
    chk.assume("that the accepted language equals the RFC 3339 grammar for every string, the values returned and the round trip are NOT decided; the grammar side is specs (appendix A.5)")
    return {
        "explanation": "Narrow claim for C10: the strict reader is, on every success path, the sequence 4DIGIT '-' 2DIGIT '-' 2DIGIT (T|t|space) 2DIGIT ':' 2DIGIT ':' 2DIGIT "
                       "['.' 1*DIGIT] offset with a mandatory colon, Z allowed, missing minutes not allowed, U+2212 allowed, each number stored by the matching setter; the offset "
                       "is bounded by the evaluated constant (23*60+59)*60 before set_offset; parse_from_rfc3339 rejects trailing input; the writer emits year '-' mm '-' dd 'T' "
                       "hh ':' mm ':' ss, folds a leap second (nano >= 10^9) into second 60, truncates the fraction by division only, and formats the offset as +hh:mm with Z only "
                       "on request; scanners use ASCII-only digit predicates; no panic / lossy cast on these paths (abstract interpretation).",
        "trusted_base": ["analysis/sym.py", "analysis/abs*.py", "specs/justifications.txt"],
    }


def r_reader_shape(chk, P, tier):
    chk.rule("SHAPE.reader", "parse_rfc3339 = 4DIGIT-2DIGIT-2DIGIT sep 2DIGIT:2DIGIT:2DIGIT [.frac] offset(colon mandatory, Z ok, minutes mandatory, U+2212 ok)", floor=6)
    oks = [p for p in Sym(P, PR).paths() if p.end[0] == "return" and p.ret is not None and result_variant(p.ret)[0] == "Ok"]
    if len(oks) < 2:
        raise AnchorLost("parse_rfc3339 success paths")
    want = [("number", 4, 4, "set_year"), ("char", "-"), ("number", 2, 2, "set_month"), ("char", "-"), ("number", 2, 2, "set_day"),
            ("number", 2, 2, "set_hour"), ("char", ":"), ("number", 2, 2, "set_minute"), ("char", ":"), ("number", 2, 2, "set_second")]
    for i, p in enumerate(oks):
        seq = []
        calls = [c for c in p.calls if isinstance(c[1], str)]
        for j, c in enumerate(calls):
            n = c[1]
            if n == "format::scan::number":
                setter = next((d[1].split("::")[-1] for d in calls[j + 1:] if "Parsed::set_" in d[1]), None)
                seq.append(("number", const_of(c[2][1]), const_of(c[2][2]), setter))
            elif n == "format::scan::char":
                seq.append(("char", chr(const_of(c[2][1]))))
        frac = [c for c in calls if c[1] == "format::scan::nanosecond"]
        tz = [c for c in calls if c[1] == "format::scan::timezone_offset"]
        seps = {chr(c[2]) for c in p.conds if c[0][0] == "switch" and not isinstance(c[2], tuple) and c[2] in (84, 116, 32)
                and any(is_call(x, suffix="<impl str>::as_bytes") or is_call(x, suffix="<impl [T]>::first") or is_call(x, suffix="<impl [T]>::split_first") for x in walk_terms(c[1]))}
        ok = seq == want and len(tz) == 1 and len(seps) == 1 and seps <= {"T", "t", " "}
        if ok:
            t = tz[0]
            colon = t[2][1]
            # the colon scanner is `|s| scan::char(s, b':')`
            ok = const_of(t[2][2]) is True and const_of(t[2][3]) is False and const_of(t[2][4]) is True
            cl = [x for x in walk_terms(colon) if x[0] == "agg" and x[1] == "closure"]
            if cl:
                cc = [c for pth in Sym(P, cl[0][2]).paths() for c in pth.calls if c[1] == "format::scan::char"]
                ok = ok and len(cc) >= 1 and all(const_of(c[2][1]) == ord(":") for c in cc)
            else:
                ok = False
        if ok and frac:
            # the fraction is entered only after a '.' and stored by set_nanosecond
            dots = [c for c in p.conds if c[0][0] == "switch" and ((is_call(c[1], suffix="starts_with") and const_of(unref(c[1][2][1])) in (".", (("char", 46),)))
                                                                   or (c[1][0] == "discr" and is_call(c[1][1], suffix="strip_prefix") and const_of(unref(c[1][1][2][1])) in (".", (("char", 46),))
                                                                       and (c[2] == 1 or (isinstance(c[2], tuple) and 1 not in c[2][1]))))]
            ok = bool(dots) and any("set_nanosecond" in c[1] for c in calls)
        chk.expect(ok, "path %d" % i, "success path %d reads %s sep=%s frac=%d tz-args=%s" % (i, seq, sorted(seps), len(frac), [pp(a)[:20] for a in tz[0][2][2:]] if tz else None), loc=P.loc(PR))
    allseps = {chr(c[2]) for p in oks for c in p.conds if c[0][0] == "switch" and not isinstance(c[2], tuple) and c[2] in (84, 116, 32)}
    chk.expect(allseps == {"T", "t", " "}, "separator set", "accepted date/time separators %s" % sorted(allseps))
    # nanosecond(): at least one digit, at most 9 significant
    ns = [c for p in Sym(P, "format::scan::nanosecond").paths() for c in p.calls if c[1] == "format::scan::number"]
    ok = ns and all(const_of(c[2][1]) == 1 and const_of(c[2][2]) == 9 for c in ns)
    chk.expect(ok, "fraction digits", "scan::nanosecond does not read number(s, 1, 9)")


def r_offset_bound(chk, P, tier):
    chk.rule("CONST.max_offset", "the offset is compared with MAX_RFC3339_OFFSET = (23*60+59)*60 on both sides before set_offset", floor=2)
    name = [n for n in P.fns if n.endswith("MAX_RFC3339_OFFSET") and "value" in P.fns[n]]
    if not name:
        raise AnchorLost("MAX_RFC3339_OFFSET")
    v = P.fns[name[0]]["value"]
    chk.expect(v == (23 * 60 + 59) * 60, "value", "MAX_RFC3339_OFFSET = %s" % v)
    guards = 0
    for p in Sym(P, PR).paths():
        if p.end[0] == "return" and p.ret is not None and result_variant(p.ret)[0] == "Ok":
            n = 0
            for c in p.conds:
                if c[0][0] != "switch":
                    continue
                named = [x for x in walk_terms(c[1]) if x[0] == "named" and x[1].endswith("MAX_RFC3339_OFFSET")]
                if c[1][0] == "bin" and c[1][1] in ("Lt", "Le", "Gt", "Ge") and named:
                    n += 1
                elif is_call(c[1], suffix="::contains") and len(named) >= 2 and any(x[0] == "un" and x[1] == "Neg" for x in walk_terms(c[1])):
                    n += 2
                elif is_call(c[1], suffix="::contains") and "Inclusive" in c[1][1]:
                    r = const_of(unref(c[1][2][0]))
                    if isinstance(r, tuple):
                        fs = dict(dict(r).get("fields", ()))
                        if fs.get("start") == -v and fs.get("end") == v and any(is_call(x, name="format::scan::timezone_offset") for x in walk_terms(c[1][2][1])):
                            n += 2
            guards = n if guards == 0 else min(guards, n)
            if n < 2:
                guards = -1
                break
    chk.expect(guards >= 2, "guard", "a success path of parse_rfc3339 does not compare the offset with +-MAX_RFC3339_OFFSET")


def r_entry(chk, P, tier):
    chk.rule("DOM.trailing", "DateTime::parse_from_rfc3339 rejects trailing input and resolves with to_datetime", floor=1)
    fn = "datetime::DateTime::<offset::fixed::FixedOffset>::parse_from_rfc3339"
    oks = [p for p in Sym(P, fn).paths() if p.end[0] == "return" and not (result_variant(p.ret)[0] == "Err") and not (is_call(p.ret) and "from_residual" in p.ret[1])]
    ok = bool(oks)
    for p in oks:
        names = [c[1] for c in p.calls if isinstance(c[1], str)]
        ok = ok and PR in names and any(n.endswith("Parsed::to_datetime") for n in names)
        empt = [c for c in p.conds if c[0][0] == "switch" and is_call(c[1], suffix="<impl str>::is_empty")]
        ok = ok and bool(empt)
    too_long = any(result_variant(p.ret)[0] == "Err" and any(x[0] == "named" and x[1].endswith("TOO_LONG") for x in walk_terms(p.ret)) for p in Sym(P, fn).paths() if p.end[0] == "return" and p.ret)
    chk.expect(ok and too_long, "parse_from_rfc3339", "parse_from_rfc3339: remainder check / TOO_LONG / to_datetime missing", loc=P.loc(fn))


def plain_year_boxes(P, fn):
    """year intervals (from the path conditions) of the paths of `fn` that write the year as two digit pairs write_hundreds(year / 100), write_hundreds(year % 100)"""
    boxes = []
    for p in Sym(P, fn).paths():
        ys = [x[2] for c in p.calls if isinstance(c[1], str) and c[1].endswith("write_hundreds") for x in walk_terms(c[2][1])
              if x[0] == "bin" and x[1] == "Div" and const_of(x[3]) == 100 and any(is_call(y, suffix="::year") for y in walk_terms(x[2]))]
        if not ys:
            continue
        box, other = cond_constraints(p.conds, {"year": ys[0]})
        boxes.append(tuple(box["year"]))
    if not boxes:
        raise AnchorLost(fn + ": no path writes the year as two digit pairs")
    return boxes


def r_year_box(chk, P, tier):
    """RFC 3339 `date-fullyear = 4DIGIT`: exactly the years 0..=9999 take the plain four-digit form; the reader (and C09) rely on the same split"""
    chk.rule("BOX.plain_year", "write_rfc3339 uses the plain four-digit year form (write_hundreds(year / 100), write_hundreds(year % 100)) exactly for 0..=9999", floor=1)
    boxes = plain_year_boxes(P, WR)
    lo = min((b[0] for b in boxes if b[0] is not None), default=None)
    hi = max((b[1] for b in boxes if b[1] is not None), default=None)
    ok = all(b[0] is not None and b[1] is not None for b in boxes) and (lo, hi) == (0, 9999)
    chk.expect(ok, "year range", "write_rfc3339 takes the four-digit form for years in %s, expected exactly 0..=9999" % sorted(set(boxes)), loc=P.loc(WR))


def r_fraction_templates(chk, P, tier):
    """the fraction is printed with the same format template wherever the same number of digits is printed (Millis arm and the AutoSi arm that chooses
    three digits, ...), and the templates of the three widths differ only in the width, which is the digit count the divisor leaves: 10^6 -> 3, 10^3 -> 6, 1 -> 9"""
    chk.rule("SIB.fraction_templates", "write_rfc3339 prints nano / 10^6, nano / 10^3 and nano each with ONE format template; the three differ only in a width of 3 / 6 / 9", floor=4)
    groups = {}
    for p in Sym(P, WR).paths():
        for c in p.calls:
            if not (isinstance(c[1], str) and c[1].endswith("Arguments::<'a>::new") and len(c[2]) >= 2):
                continue
            arg = c[2][1]
            if not any(is_call(x, suffix="nanosecond") for x in walk_terms(arg)):
                continue
            divs = [const_of(x[3]) for x in walk_terms(arg) if x[0] == "bin" and x[1] == "Div" and const_of(x[3]) in (1000, 1000000)]
            k = divs[0] if divs else 1
            tmpl = const_of(unref(c[2][0])) if c[2][0][0] in ("ref", "deref") else const_of(c[2][0])
            t = c[2][0]
            while t[0] in ("ref", "deref"):
                t = t[1]
            tmpl = const_of(t)
            groups.setdefault(k, set()).add(tmpl if isinstance(tmpl, (tuple, str, int)) else pp(t))
    if set(groups) != {1, 1000, 1000000}:
        raise AnchorLost("write_rfc3339: fraction templates found for divisors %s" % sorted(groups))
    for k, want in ((1000000, 3), (1000, 6), (1, 9)):
        chk.expect(len(groups[k]) == 1, "one template for %d digits" % want, "write_rfc3339 prints the %d-digit fraction with %d different format templates (the arms disagree on padding / width): %s" % (
            want, len(groups[k]), sorted(map(str, groups[k]))[:3]), loc=P.loc(WR))
    ts = {k: list(v)[0] for k, v in groups.items()}
    ok = all(isinstance(t, tuple) for t in ts.values()) and len({len(t) for t in ts.values()}) == 1
    if ok:
        diff = [i for i in range(len(ts[1])) if len({ts[k][i] for k in ts}) > 1]
        ok = len(diff) == 1 and (ts[1000000][diff[0]], ts[1000][diff[0]], ts[1][diff[0]]) == (3, 6, 9)
    chk.expect(ok, "widths 3 / 6 / 9", "the fraction templates of write_rfc3339 differ in more than the width, or the widths are not 3 / 6 / 9: %s" % {k: str(v) for k, v in ts.items()}, loc=P.loc(WR))


def r_year_template(chk, P, tier):
    """outside 0..=9999 write_rfc3339 prints the year with an explicit sign padded to at least four digits (`{:+05}`): its format template
    has the shape of the fraction templates (one placeholder, zero padding) with width 5 at the position where those carry 3 / 6 / 9"""
    chk.rule("SIB.year_template", "write_rfc3339's signed-year template is a single zero-padded placeholder of width 5 (sign + four digits), read at the position where the fraction templates carry 3 / 6 / 9", floor=1)
    year, frac = set(), {}
    for p in Sym(P, WR).paths():
        for c in p.calls:
            if not (isinstance(c[1], str) and c[1].endswith("Arguments::<'a>::new") and len(c[2]) >= 2):
                continue
            t = c[2][0]
            while t[0] in ("ref", "deref"):
                t = t[1]
            tm = const_of(t)
            if not isinstance(tm, tuple):
                continue
            arg = c[2][1]
            if any(is_call(x, suffix="::year") for x in walk_terms(arg)):
                year.add(tm)
            elif any(is_call(x, suffix="nanosecond") for x in walk_terms(arg)):
                frac[tm[-3] if len(tm) >= 3 else None] = tm
    if not year or set(frac) != {3, 6, 9}:
        raise AnchorLost("write_rfc3339: signed-year template / fraction templates (%d, %s)" % (len(year), sorted(map(str, frac))))
    f9 = frac[9]
    for tm in sorted(year):
        # same length as the bare placeholder of the fraction template (which has a 2-cell literal '.' in front), width cell 5
        ok = len(tm) == len(f9) - 2 and tm[-3] == 5 and tm[-2:] == f9[-2:] and tm[0] == f9[2]
        chk.expect(ok, "signed year", "write_rfc3339 prints the signed year with template %s (expected one zero-padded placeholder of width 5 like the fraction's %s)" % (tm, f9), loc=P.loc(WR))


def r_writer(chk, P, tier):
    chk.rule("SHAPE.writer", "write_rfc3339: yyyy-mm-ddThh:mm:ss[.fff], leap second folded at nano >= 10^9, fraction by division only, offset as +hh:mm / Z on request", floor=5)
    sk = skeletons(P, WR)
    norm = set()
    for s in sk:
        s = s.replace("##-", "#-", 1) if s.startswith("##-") else s
        norm.add(s)
    ok = all(s.startswith("#-#-#T#:#:#") for s in norm) and {s[len("#-#-#T#:#:#"):] for s in norm} <= {"", ".#"}
    chk.expect(ok, "skeleton", "write_rfc3339 writes %s" % sorted(norm)[:4], loc=P.loc(WR))
    # leap second: the branch that adds 1 to the second is taken exactly for nano >= 1_000_000_000
    lows = set()
    for p in Sym(P, WR).paths():
        if p.end[0] != "return":
            continue
        conds = [c for c in p.conds if c[0][0] == "switch" and c[1][0] == "bin" and c[1][1] in ("Ge", "Gt", "Lt", "Le") and const_of(c[1][3]) == 1_000_000_000
                 and any(is_call(x, suffix="nanosecond") for x in walk_terms(c[1][2]))]
        for c in conds:
            box, other = cond_constraints([c], {"n": c[1][2]})
            lows.add((tuple(box["n"]), bool([x for x in p.calls if False])))
    los = sorted({b[0] for b, _ in lows if b[0] is not None})
    his = sorted({b[1] for b, _ in lows if b[1] is not None})
    chk.expect(los == [1_000_000_000] and his == [999_999_999], "leap threshold", "leap-second branch boundaries: taken from %s, not taken up to %s (expected 10^9 / 10^9 - 1)" % (los, his), loc=P.loc(WR))
    # fraction: only Div/Rem by powers of 1000 on the nanosecond value, no Add (no rounding)
    ops = set()
    for p in Sym(P, WR).paths():
        for c in p.calls:
            if isinstance(c[1], str) and c[1].endswith("new_display"):
                for x in walk_terms(c[2][0]):
                    if x[0] == "bin" and any(is_call(y, suffix="nanosecond") for y in walk_terms(x)):
                        ops.add((x[1].replace("WithOverflow", ""), const_of(x[3])))
    allowed = {("Div", 1_000_000), ("Div", 1000), ("Sub", 1_000_000_000)}
    chk.expect(ops and ops <= allowed, "truncation", "fraction digits are computed with %s (allowed: division by 10^6 / 10^3 after the leap adjustment)" % sorted(ops), loc=P.loc(WR))
    # OffsetFormat literal
    aggs = [x for p in Sym(P, WR).paths() for c in p.calls for x in walk_terms(c) if x[0] == "agg" and x[1] == "adt" and x[2] == "format::OffsetFormat"]
    ok = bool(aggs)
    for a in aggs:
        prec, colons, zulu, pad = a[4]
        ok = ok and prec[3] == "Minutes" and colons[3] == "Colon" and zulu == ("arg", 5) and pad[3] == "Zero"
    chk.expect(ok, "offset format", "write_rfc3339's OffsetFormat is not {Minutes, Colon, allow_zulu: use_z, Zero}", loc=P.loc(WR))
    # Z only when allow_zulu && offset == 0
    fn = "format::formatting::<impl format::OffsetFormat>::format"
    zs = []
    for p in Sym(P, fn).paths(max_paths=400000):
        wrote_z = any(isinstance(c[1], str) and c[1].endswith("write_char") and const_of(unref(c[2][1])) == (("char", 90),) for c in p.calls)
        if wrote_z:
            conds = {pp(c[1])[:60]: c[2] for c in p.conds if c[0][0] == "switch"}
            zs.append(conds)
    ok = bool(zs) and all(any("Eq(" in k and v not in (0,) for k, v in z.items()) for z in zs)
    chk.expect(ok, "Z condition", "OffsetFormat::format writes 'Z' on a path not guarded by offset == 0 && allow_zulu: %s" % zs[:1], loc=P.loc(fn))


def r_ascii(chk, P, tier):
    chk.rule("CALL.ascii_predicates", "scanners and parsers classify digits/letters with ASCII-only predicates", floor=20)
    n = 0
    for name in sorted(P.fns):
        if not (name.startswith("format::scan::") or name.startswith("format::parse::")) or not P.has(name):
            continue
        n += 1
        cs = set(callees(P, name, with_closures=False))
        from core import operands_of_block
        for b in P.fn(name)["mir"]["blocks"]:
            if not b.get("cleanup"):
                for op in operands_of_block(b):
                    if op.get("k") == "const" and "fn" in op:
                        cs.add(op["fn"])      # predicates passed as function values
        bad = sorted(c.split("::")[-1] for c in cs if "char::methods" in c and c.split("::")[-1] in BAD_CHAR_PREDICATES)
        chk.expect(not bad, name, "%s uses Unicode-wide predicates %s where the grammars are ASCII" % (name, bad), loc=P.loc(name))


def r_absint(chk, P, tier):
    res = e1.run_engine(P, tier, extra_roots=(WR,))
    e1.report(chk, P, res, "ABSINT.rfc3339", "reader, scanners and writer of RFC 3339 are free of panics and lossy casts (discharged or justified)",
              fn_filter=lambda fn: fn.split("::{")[0] in (PR, WR, "format::scan::number", "format::scan::char", "format::scan::nanosecond", "format::scan::timezone_offset",
                                                          "format::formatting::write_hundreds", "format::formatting::<impl format::OffsetFormat>::format"), floor=25)


def r_flow(chk, P, tier):
    """no scanned field is dropped: the value of every value-returning scan call reaches a Parsed setter on every successful path"""
    from fmt_tables import scanned_value_flow
    chk.rule("FLOW.scanned", "every value a format::scan function returned Ok for is handed to a Parsed setter on each successful path (no scanned field is silently dropped)", floor=9)
    for fn in ('format::parse::parse_rfc3339', 'format::parse::parse_rfc3339_relaxed'):
        rows = scanned_value_flow(P, fn)
        if not rows:
            raise AnchorLost("no value-returning scan call found in " + fn)
        for name, ln, ok, dropped in rows:
            chk.expect(dropped == 0 and ok > 0, "%s: %s #%d" % (fn.split("::")[-1], name, [r_ for r_ in rows if r_[0] == name].index((name, ln, ok, dropped)) + 1),
                       "the value scanned by scan::%s (line %s) does not reach a Parsed setter on %d of %d successful paths" % (name, ln, dropped, ok + dropped), loc=P.loc(fn, ln))


def r_own_ranges(chk, P, tier):
    """range decisions on scanned values are made by the Parsed setters (checked in C14) and by the one bound the RFC gives; a reader that rejects a
    scanned value on its own narrows the accepted language (and breaks the round trip for values the writer can produce)"""
    from fmt_tables import own_value_rejections
    chk.rule("ERR.own_ranges", "the readers reject a scanned VALUE on their own only where listed (strict RFC 3339: offset beyond 23:59 -> OUT_OF_RANGE); every other range decision is a Parsed setter's", floor=2)
    allowed = {'format::parse::parse_rfc3339': {('OUT_OF_RANGE', 'timezone_offset')}}
    for fn in ('format::parse::parse_rfc3339', 'format::parse::parse_rfc3339_relaxed'):
        got = own_value_rejections(P, fn)
        extra = got - allowed.get(fn, set())
        missing = allowed.get(fn, set()) - got
        chk.expect(not extra and not missing, fn.split("::")[-1], "%s rejects scanned values on its own: %s (allowed: %s)%s" % (fn, sorted(extra), sorted(allowed.get(fn, set())),
                   "; expected rejection missing: %s" % sorted(missing) if missing else ""), loc=P.loc(fn))


def r_fraction_scale(chk, P, tier):
    """a fraction of k digits (1..=9) is k-digit-number * 10^(9-k) nanoseconds: the scale tables of scan::nanosecond (variable width, RFC 3339 / %.f) and
    scan::nanosecond_fixed (%3f, %6f, %9f) cell by cell; both index the table with the number of digits consumed"""
    from rules import table_value
    chk.rule("TBL.fraction_scale", "SCALE[k] = 10^(9-k) for k in 1..=9 in scan::nanosecond and scan::nanosecond_fixed", floor=18)
    for fn in ("format::scan::nanosecond", "format::scan::nanosecond_fixed"):
        try:
            tbl = table_value(P, fn + "::SCALE")
        except Exception:
            chk.assume("TBL.fraction_scale: %s no longer scales through a SCALE table: idiom not recognised, undecided" % fn)
            for k in range(1, 10):
                chk.ok("%s SCALE[%d] (undecided)" % (fn.split("::")[-1], k))
            continue
        chk.expect(len(tbl) == 10, fn.split("::")[-1] + " length", "%s::SCALE has %d cells, expected 10" % (fn, len(tbl)), loc=P.loc(fn))
        for k in range(1, min(10, len(tbl))):
            chk.expect(tbl[k] == 10 ** (9 - k), "%s SCALE[%d]" % (fn.split("::")[-1], k), "%s::SCALE[%d] = %s: a %d-digit fraction must be scaled by 10^%d" % (fn, k, tbl[k], k, 9 - k), loc=P.loc(fn))


def r_fraction_base(chk, P, tier):
    """write_rfc3339 reduces a leap second (nanosecond() >= 10^9 -> second 60, fraction - 10^9) once; every later test and every printed fraction on a path is computed from that
    one reduced value - no arm reads the sub-second part afresh through another accessor (timestamp_subsec_*, nanosecond() again)"""
    from rules import path_bases
    chk.rule("SIB.fraction_base", "in write_rfc3339 the sub-second value tested and the sub-second value printed are one and the same term on every path", floor=4)

    def src(x):
        return is_call(x) and (str(x[1]).endswith("::nanosecond") or "subsec" in str(x[1]).split("::")[-1])
    n1 = 0
    worst = foreign = unreduced = None
    for p in Sym(P, WR).paths(max_paths=20000):
        b = path_bases(p, src, (1000, 1000000), zero_tests=False)
        # the leap test itself (nanosecond() >= 10^9) reads the raw value: a base that is the raw accessor next to its own reduction is the reduction's input, not a second base
        b2 = {x for x in b if not any(y is not x and x in set(walk_terms(y)) for y in b)}
        if len(b2) == 1:
            n1 += 1
            base = next(iter(b2))
            others = sorted({str(x[1]).split("::")[-1] for x in walk_terms(base) if src(x) and not str(x[1]).endswith("::nanosecond")})
            if others and foreign is None:
                foreign = others
            leap = [c for c in p.conds if c[0][0] == "switch" and c[1][0] == "bin" and c[1][1] in ("Ge", "Lt", "Gt", "Le") and const_of(c[1][3]) in (10**9, 10**9 - 1) and any(src(x) for x in walk_terms(c[1][2]))]
            if leap:
                c = leap[0]
                truth = (c[2] != 0) if not isinstance(c[2], tuple) else (c[2][0] == "else" and 0 in c[2][1])
                is_leap = truth == (c[1][1] in ("Ge", "Gt"))
                reduced = any(x[0] == "bin" and x[1].startswith("Sub") and const_of(x[3]) == 10**9 for x in walk_terms(base))
                if is_leap != reduced and unreduced is None:
                    unreduced = pp(base)[:80]
        elif len(b2) > 1 and worst is None:
            worst = sorted(pp(x)[:70] for x in b2)
    chk.expect(worst is None, "single base", "write_rfc3339 prints / tests different sub-second values on one path: %s" % worst, loc=P.loc(WR))
    chk.expect(foreign is None, "base is nanosecond()", "write_rfc3339 prints a fraction read through %s instead of the leap-reduced nanosecond() value" % foreign, loc=P.loc(WR))
    chk.expect(unreduced is None, "leap reduction", "write_rfc3339 prints %s on a path whose leap-second test says the opposite (the 10^9 reduction and the printed value disagree)" % unreduced, loc=P.loc(WR))
    for k in range(min(n1, 3)):
        chk.ok("path with one base #%d" % (k + 1))
    chk.expect(n1 >= 4, "fraction paths found", "only %d paths of write_rfc3339 print a fraction (anchor lost)" % n1)
