"""C13 — parsing with a format string inverts formatting with it (narrow: reader/writer table agreement)."""
import strftime_spec as spec
from core import Prog, AnchorLost
from sym import Sym, pp, walk_terms, const_of
from rules import is_call, find_calls, callees
import fmt_tables as ft
import scan_tables
from props import c12

WRITE_WIDTH = {"write_two": 2, "write_one": 1, "write_year": 4}


def run(chk, tier):
    P = Prog("default")
    chk.configs.add("default")
    for r in (r_numeric, r_setters, r_fixed, r_names, r_flow, r_whitespace, r_sign_arms, r_own_ranges, r_ampm, r_long_names, r_parse_entry):
        chk.guarded(r, P, tier)
    from props import c14
    chk.guarded(c14.r_offset_used, P, tier)
    chk.guarded(c14.r_verify_halves, P, tier)
    chk.guarded(c14.r_resolve_year_map, P, tier)
    from props import c10
    chk.guarded(c10.r_fraction_scale, P, tier)
    chk.guarded(c12.r_composites, P, tier)       # %r / %c / %x / %X item lists: the parser reads the same lists (Space vs Literal matters only when parsing)
    chk.guarded(c12.r_numeric_writers, P, tier)
    chk.guarded(c12.r_offset_writer_map, P, tier)
    chk.guarded(c12.r_two_digit_writer_map, P, tier)
    chk.assume("the round trip itself (for any value), white-space and letter-case perturbations are NOT decided; only that reader and writer agree item by item on width, sign and field")
    return {
        "explanation": "Narrow claim for C13: for every Numeric item the reader's (max width, signed, setter) triple is compatible with what the writer emits (width >= written "
                       "width, a sign is read wherever the writer can emit one, the Parsed field set is the one the written accessor denotes); every Fixed / internal fixed item "
                       "has an explicit arm on both sides; the sign rule of write_year; month/weekday name tables of the scanners equal the writer's tables.",
        "trusted_base": ["specs/tables/strftime_spec.py pairing table", "analysis/sym.py"],
    }


def r_numeric(chk, P, tier):
    chk.rule("SIB.numeric_items", "reader width/sign vs writer width/sign per Numeric item", floor=21)
    r = ft.reader_numeric_table(P)
    w = ft.writer_numeric_table(P)
    names = [v["name"] for v in P.adts["format::Numeric"]["variants"] if v["name"] != "Internal"]
    for n in names:
        if n not in r or n not in w:
            chk.bad(n, "Numeric::%s has no arm in the %s" % (n, "reader" if n not in r else "writer"))
            continue
        width, signed, setter = r[n]
        fn, wn, accs, casts, sign, value = w[n]
        ww = wn if fn == "write_n" else WRITE_WIDTH.get(fn)
        can_sign = spec.NUMERIC_WRITE[n][1]
        ok = width >= (ww or 0)
        # a sign must be readable where the writer emits one and the documentation promises the inverse (%Y, %G, %s)
        if n in ("Year", "IsoYear", "Timestamp"):
            ok = ok and signed
        chk.expect(ok, n, "Numeric::%s: reader accepts width %s signed=%s, writer emits width %s via %s (can be signed: %s)" % (n, width, signed, ww, fn, can_sign),
                   loc=P.loc("format::parse::parse_internal"))


def r_setters(chk, P, tier):
    chk.rule("PAIR.setters", "the reader stores each Numeric item in the Parsed field the writer's accessor denotes", floor=21)
    r = ft.reader_numeric_table(P)
    for n, (acc, setter) in spec.PAIRING.items():
        got = r.get(n, (None, None, None))[2]
        chk.expect(got == setter, n, "Numeric::%s is read with %s, expected %s" % (n, got, setter), loc=P.loc("format::parse::parse_internal"))
    # the two weekday setters decode their own numbering
    for fn, exp in (("set_weekday_with_num_days_from_sunday", {0: "Sun", 1: "Mon", 2: "Tue", 3: "Wed", 4: "Thu", 5: "Fri", 6: "Sat"}),
                    ("set_weekday_with_number_from_monday", {1: "Mon", 2: "Tue", 3: "Wed", 4: "Thu", 5: "Fri", 6: "Sat", 7: "Sun"})):
        full = "format::parse::" + fn
        got = {}
        for p in Sym(P, full).paths():
            sw = [c for c in p.conds if c[0][0] == "switch" and c[1] == ("arg", 2) and not isinstance(c[2], tuple)]
            wd = [x for t in p.calls for x in walk_terms(t) if x[0] == "agg" and x[2] == "weekday::Weekday"]
            if sw and wd:
                got[sw[0][2]] = wd[0][3]
        chk.expect(got == exp, fn, "%s maps %s, expected %s" % (fn, got, exp), loc=P.loc(full))


def switch_values(P, fn, adt):
    """explicit switch values on discriminants of `adt`-typed places in fn"""
    f = P.fn(fn)
    m = f["mir"]
    vals = set()
    for b in m["blocks"]:
        if b.get("cleanup") or b["t"]["k"] != "switch":
            continue
        d = b["t"]["discr"]
        if d["k"] not in ("copy", "move"):
            continue
        l = d["pl"]["l"]
        # find `l = discr(place)` and the type of place
        for b2 in m["blocks"]:
            for st in b2["s"]:
                if st["k"] == "assign" and st["pl"]["l"] == l and st["rv"]["k"] == "discr":
                    pl = st["rv"]["pl"]
                    ty = m["locals"][pl["l"]]
                    for e in pl["p"]:
                        t = P.ty(ty)
                        if e == "*":
                            ty = t.get("inner", ty)
                        elif e[0] == "f":
                            ty = e[2]
                    if P.ty(ty).get("adt") == adt:
                        vals |= {v for v, _ in b["t"]["targets"]}
    return vals


def r_fixed(chk, P, tier):
    chk.rule("EXH.fixed", "every Fixed and InternalInternal variant has an explicit arm in the reader and in the writer", floor=4)
    for adt, fns in (("format::Fixed", ("format::parse::parse_internal", "format::formatting::DelayedFormat::<I>::format_fixed")),
                     ("format::InternalInternal", ("format::parse::parse_internal", "format::formatting::DelayedFormat::<I>::format_fixed"))):
        variants = {v["discr"]: v["name"] for v in P.adts[adt]["variants"]}
        for fn in fns:
            vals = switch_values(P, fn, adt)
            missing = sorted(variants[v] for v in variants if v not in vals)
            # one variant may be the `otherwise` edge of an exhaustive match: allow at most one missing
            chk.expect(len(missing) <= 1, "%s in %s" % (adt.split("::")[-1], fn.split("::")[-1]), "%s: variants without an explicit arm in %s: %s" % (adt, fn, missing), loc=P.loc(fn))


def r_names(chk, P, tier):
    chk.rule("TBL.names", "name scanners accept exactly the names the writer tables emit (default locale)", floor=4)
    sm = scan_tables.short_month_table(P)
    sw = scan_tables.short_weekday_table(P)
    lw, lm = scan_tables.long_suffixes(P)
    months = ["January", "February", "March", "April", "May", "June", "July", "August", "September", "October", "November", "December"]
    days = ["Monday", "Tuesday", "Wednesday", "Thursday", "Friday", "Saturday", "Sunday"]
    chk.expect(sm == {m[:3].lower(): i for i, m in enumerate(months)}, "short months", "scan::short_month0 table %s" % sm)
    chk.expect(sw == {d[:3].lower(): d[:3] for d in days}, "short weekdays", "scan::short_weekday table %s" % sw)
    chk.expect(lm == [m[3:].lower() for m in months], "long month suffixes", "LONG_MONTH_SUFFIXES %s" % lm)
    chk.expect(lw == [d[3:].lower() for d in days], "long weekday suffixes", "LONG_WEEKDAY_SUFFIXES %s" % lw)
    # writer tables of the default locale
    from format_locales import default_tables
    t = default_tables(P)
    chk.expect(t["short_months"] == [m[:3] for m in months] and t["long_months"] == months, "writer months", "default-locale month tables %s" % (t["short_months"],))
    chk.expect(t["short_weekdays"] == ["Sun", "Mon", "Tue", "Wed", "Thu", "Fri", "Sat"] and t["long_weekdays"] == [days[6]] + days[:6], "writer weekdays (Sunday first)",
               "default-locale weekday tables %s" % (t["short_weekdays"],))


def r_flow(chk, P, tier):
    """no scanned field is dropped: the value of every value-returning scan call reaches a Parsed setter on every successful path"""
    from fmt_tables import scanned_value_flow
    chk.rule("FLOW.scanned", "every value a format::scan function returned Ok for is handed to a Parsed setter on each successful path (no scanned field is silently dropped)", floor=9)
    for fn in ('format::parse::parse_internal',):
        rows = scanned_value_flow(P, fn)
        if not rows:
            raise AnchorLost("no value-returning scan call found in " + fn)
        for name, ln, ok, dropped in rows:
            chk.expect(dropped == 0 and ok > 0, "%s: %s #%d" % (fn.split("::")[-1], name, [r_ for r_ in rows if r_[0] == name].index((name, ln, ok, dropped)) + 1),
                       "the value scanned by scan::%s (line %s) does not reach a Parsed setter on %d of %d successful paths" % (name, ln, dropped, ok + dropped), loc=P.loc(fn, ln))


def r_whitespace(chk, P, tier):
    """the format-string tokenizer and the reader classify white space with one predicate: Unicode White_Space (char::is_whitespace, which is also what
    str::trim_start uses). A run classified differently by the tokenizer (Space item vs part of a Literal) no longer matches what the reader skips."""
    chk.rule("WS.one_predicate", "every white-space test in format::{strftime, parse, scan} is char::is_whitespace (the Unicode notion that str::trim_start uses); none is the ASCII variant", floor=5)
    n = 0
    for name, f in sorted(P.fns.items()):
        if "mir" not in f or not name.startswith("format::") or "::tests::" in name:
            continue
        for b in f["mir"]["blocks"]:
            t = b["t"]
            if b.get("cleanup") or t["k"] != "call":
                continue
            r = t["callee"].get("resolved") or t["callee"].get("def") or ""
            if r.split("::")[-1] in ("is_whitespace", "is_ascii_whitespace"):
                n += 1
                chk.expect(r == "std::char::methods::<impl char>::is_whitespace", "%s #%d" % (name.split("::{")[0].split("::")[-1], n),
                           "%s tests white space with %s; the other tokenizer/reader sites use char::is_whitespace (Unicode)" % (name, r.split("::")[-1]), loc=P.loc(name, t.get("ln")))


def r_sign_arms(chk, P, tier):
    """after an explicit sign the reader takes every digit that follows, for '+' exactly as for '-' (the writer prints all digits of a signed year)"""
    chk.rule("SIB.sign_arms", "in parse_internal every scan::number call that follows an explicit sign (&s[1..]) has the same bounds (1, usize::MAX)", floor=2)
    fn = "format::parse::parse_internal"
    seen = {}

    def sign_tested(p_):
        """which sign characters this path has tested for and found ('+', '-')"""
        found = set()
        for c in p_.conds:
            if c[0][0] != "switch":
                continue
            v = c[2]
            if c[1][0] == "discr":
                truth = v == 1 or (isinstance(v, tuple) and v[0] == "else" and 1 not in v[1])
            else:
                truth = (v != 0) if not isinstance(v, tuple) else (v[0] == "else" and 0 in v[1])
            if not truth:
                continue
            r = repr(c[1])
            for ch, code in (("+", 43), ("-", 45)):
                if "('char', %d)" % code in r or "('const', '%s')" % ch in r:
                    found.add(ch)
        return found
    for p_ in Sym(P, fn).paths(max_paths=6000):
        signs = sign_tested(p_)
        for c in p_.calls:
            if isinstance(c[1], str) and c[1] == "format::scan::number":
                a0 = c[2][0]
                after_sign = any(x[0] == "agg" and x[2] == "std::ops::RangeFrom" and const_of(x[4][0]) == 1 for x in walk_terms(a0)) or \
                    any(is_call(x) and str(x[1]).endswith("strip_prefix") for x in walk_terms(a0))
                if after_sign and signs:
                    for ch in signs:
                        seen[(ch, const_of(c[2][1]), const_of(c[2][2]))] = (const_of(c[2][1]), const_of(c[2][2]))
    if len(seen) < 2:
        raise AnchorLost("parse_internal: %d signed scan::number calls" % len(seen))
    if {k[0] for k in seen} != {"+", "-"}:
        raise AnchorLost("parse_internal: signed number arms found for %s" % sorted({k[0] for k in seen}))
    for k, (lo, hi) in sorted(seen.items(), key=lambda kv: str(kv[0])):
        chk.expect(lo == 1 and hi == (1 << 64) - 1, "number after '%s' (%s, %s)" % k, "scan::number after an explicit sign is bounded by (%s, %s), expected (1, usize::MAX) in both sign arms" % (lo, hi), loc=P.loc(fn))


def r_own_ranges(chk, P, tier):
    """range decisions on scanned values are made by the Parsed setters (checked in C14) and by the one bound the RFC gives; a reader that rejects a
    scanned value on its own narrows the accepted language (and breaks the round trip for values the writer can produce)"""
    from fmt_tables import own_value_rejections
    chk.rule("ERR.own_ranges", "the readers reject a scanned VALUE on their own only where listed (strict RFC 3339: offset beyond 23:59 -> OUT_OF_RANGE); every other range decision is a Parsed setter's", floor=1)
    allowed = {}
    for fn in ('format::parse::parse_internal',):
        got = own_value_rejections(P, fn)
        extra = got - allowed.get(fn, set())
        missing = allowed.get(fn, set()) - got
        chk.expect(not extra and not missing, fn.split("::")[-1], "%s rejects scanned values on its own: %s (allowed: %s)%s" % (fn, sorted(extra), sorted(allowed.get(fn, set())),
                   "; expected rejection missing: %s" % sorted(missing) if missing else ""), loc=P.loc(fn))


def r_ampm(chk, P, tier):
    """%p and %P differ in letter case only: both arms of format_fixed pick the AM/PM string by the same test, the flag of hour12() (which is what the
    reader's hour_div_12 is combined with)"""
    chk.rule("SIB.ampm", "every AM/PM arm of format_fixed selects the string by hour12().0, the same test in all arms", floor=2)
    fn = "format::formatting::DelayedFormat::<I>::format_fixed"
    sel = {}
    n = 0
    for p_ in Sym(P, fn).paths(max_paths=20000):
        if not any(isinstance(c[1], str) and c[1].split("::")[-1] == "am_pm" for c in p_.calls):
            continue
        n += 1
        for c in p_.conds:
            if c[0][0] == "switch" and any(is_call(x) and str(x[1]).split("::")[-1] in ("hour", "hour12", "hour24") for x in walk_terms(c[1])):
                sel[pp(c[1])] = sel.get(pp(c[1]), 0) + 1
    if n < 2:
        raise AnchorLost("format_fixed: %d AM/PM paths" % n)
    ok = len(sel) == 1 and all(t.startswith("hour12(") and t.endswith(".0") for t in sel)
    chk.expect(ok, "selector", "the AM/PM arms of format_fixed select by %s (expected the single test hour12().0)" % sorted(t[:60] for t in sel), loc=P.loc(fn))
    chk.ok("%d AM/PM paths" % n)


def r_long_names(chk, P, tier):
    """the long-name scanners for months and weekdays are siblings: after the short name both compare the suffix the same way (length test, then
    ASCII-case-insensitive equality)"""
    chk.rule("SIB.long_names", "short_or_long_month0 and short_or_long_weekday match the long-name suffix through the same calls (len guard against the suffix length only + eq_ignore_ascii_case)", floor=4)
    a, b = "format::scan::short_or_long_month0", "format::scan::short_or_long_weekday"

    def sig(fn):
        return sorted(c.split("::")[-1] for c in callees(P, fn) if c.split("::")[-1] not in ("short_month0", "short_weekday", "num_days_from_monday", "branch", "from_residual"))
    sa, sb = sig(a), sig(b)
    chk.expect(sa == sb, "same calls", "the two long-name scanners differ: month uses %s, weekday uses %s" % (sa, sb), loc=P.loc(b))
    chk.expect("eq_ignore_ascii_case" in sa and "len" in sa, "case-insensitive with length guard", "long-name suffix comparison is %s (expected len guard + eq_ignore_ascii_case: the writer's case is not the only accepted one)" % sa, loc=P.loc(a))

    # the only length test is against the suffix's own length: a constant cut-off on the remaining input (e.g. `s.len() < 2`) skips the
    # one-letter suffixes of "June" / "July" ("e", "y")
    for fn in (a, b):
        consts = set()
        for p in Sym(P, fn).paths():
            for c in p.conds:
                for x in walk_terms(c[1]):
                    if x[0] == "bin" and x[1] in ("Ge", "Gt", "Lt", "Le", "Eq", "Ne"):
                        for u, v in ((x[2], x[3]), (x[3], x[2])):
                            if v[0] == "const" and any(is_call(y, suffix="<impl str>::len") for y in walk_terms(u)):
                                consts.add((x[1], pp(v)))
        # harmless cut-offs: those below the shortest non-empty suffix of the table (read from the table constant in the same conditions)
        lens = set()
        for p in Sym(P, fn).paths():
            for c in p.conds:
                for x in walk_terms(c[1]):
                    if x[0] == "const" and isinstance(x[1], tuple) and x[1] and all(isinstance(e, tuple) and all(isinstance(b_, int) for b_ in e) for e in x[1]):
                        lens |= {len(e) for e in x[1] if len(e) > 0}
        if not lens:
            raise AnchorLost("suffix table of " + fn)
        minl = min(lens)

        def harmless(op, k):
            try:
                k = int(k)
            except ValueError:
                return False
            return (op in ("Lt", "Ge") and k <= minl) or (op in ("Le", "Gt") and k < minl) or (op in ("Eq", "Ne") and k == 0)
        consts = {(op, k) for op, k in consts if not harmless(op, k)}
        chk.expect(not consts, fn.split("::")[-1] + " length tests", "%s compares the remaining input's length with a constant %s (expected only the suffix's own length)" % (fn, sorted(consts)), loc=P.loc(fn))


def r_parse_entry(chk, P, tier):
    """parse_from_str and parse_and_remainder of one type are the same reader with and without the remainder: both resolve the parsed fields through the same Parsed
    resolver (to_naive_date, to_naive_time, to_naive_datetime_with_offset, to_datetime) and no other"""
    chk.rule("SIB.parse_entry", "parse_from_str and parse_and_remainder of each type call the same Parsed resolver", floor=4)
    types = {"naive::date::NaiveDate": "to_naive_date", "naive::time::NaiveTime": "to_naive_time", "naive::datetime::NaiveDateTime": "to_naive_datetime_with_offset",
             "datetime::DateTime::<offset::fixed::FixedOffset>": "to_datetime"}
    for ty, want in types.items():
        got = {}
        for m in ("parse_from_str", "parse_and_remainder"):
            fn = "%s::%s" % (ty, m)
            if not P.has(fn):
                raise AnchorLost(fn + " not found")
            got[m] = sorted(c.split("::")[-1] for c in callees(P, fn) if c.startswith("format::parsed::Parsed::to_"))
        ok = got["parse_from_str"] == got["parse_and_remainder"] == [want]
        chk.expect(ok, ty.split("::")[-1].split("<")[0], "%s: parse_from_str resolves through %s, parse_and_remainder through %s (expected both: %s)" % (
            ty, got["parse_from_str"], got["parse_and_remainder"], want), loc=P.loc("%s::parse_and_remainder" % ty))
