"""Check bookkeeping: rule instances, floors, violations, known findings, evidence, replay files."""
import json
import os
import re
import sys
import time
import traceback

from core import AnchorLost

VERIF = os.path.dirname(os.path.dirname(os.path.abspath(__file__)))
# evidence normally goes to /verif/evidence; VERIF_OUT redirects it (used when checks run against scratch copies in parallel)
OUT = os.environ.get("VERIF_OUT") or os.path.join(VERIF, "evidence")


def load_known():
    """finding: property=<id> key=<key> :: text   -> {(pid, key): text}"""
    out = {}
    p = os.path.join(VERIF, "known_findings.txt")
    if os.path.exists(p):
        for line in open(p):
            line = line.strip()
            m = re.match(r"finding:\s+property=(\S+)\s+key=(.*?)\s+::\s+(.*)$", line)
            if m:
                out[(m.group(1), m.group(2))] = m.group(3)
    return out


# rules that fold functions with unbounded domains on region representatives (DESIGN 11.2); VERIF_NO_VALUE_MAPS=1 switches them off
VALUE_MAP_RULES = ("r_value_map", "r_date_arith", "r_timestamp_map", "r_rule_map", "r_replace_map", "r_resolution_map", "r_rounding_map", "r_resolve_year_map", "r_ts_visitors_map", "r_offset_shift_map", "r_offset_writer_map", "r_two_digit_writer_map")


class Check:
    def __init__(self, pid, tier="quick", seed=0, only_key=None):
        self.pid = pid
        self.tier = tier
        self.seed = seed
        self.only_key = only_key
        self.t0 = time.time()
        self.rules = {}          # rule id -> dict(desc, instances, floor, ok, samples)
        self.violations = []     # dicts
        self.known = []
        self.assumptions = []
        self.notes = []
        self.cur = None
        self.configs = set()
        self.extra = {}

    # ---- rule bookkeeping ---------------------------------------------------------------
    def rule(self, rid, desc, floor=1):
        self.rules[rid] = {"desc": desc, "instances": 0, "floor": floor, "passed": 0, "samples": []}
        self.cur = rid
        return rid

    def ok(self, instance, detail=None, rid=None):
        r = self.rules[rid or self.cur]
        r["instances"] += 1
        r["passed"] += 1
        if len(r["samples"]) < 4:
            r["samples"].append({"instance": instance, "detail": detail} if detail is not None else {"instance": instance})

    def bad(self, key, detail, loc=None, rid=None, replay=None, key_rule=None):
        """key_rule: rule name used in the violation key when one rule is instantiated per build configuration (the
        same site in several configurations is one finding)"""
        rid = rid or self.cur
        r = self.rules[rid]
        r["instances"] += 1
        k = "%s|%s" % (key_rule or rid, key)
        if key_rule and any(v["key"] == k for v in self.violations):
            return
        self.violations.append({"rule": rid, "key": k, "detail": detail, "loc": loc, "replay": replay or {}})

    def expect(self, cond, instance, detail_bad, loc=None, detail_ok=None, rid=None):
        if cond:
            self.ok(instance, detail_ok, rid=rid)
        else:
            self.bad(instance, detail_bad, loc=loc, rid=rid)
        return cond

    def assume(self, text):
        if text not in self.assumptions:
            self.assumptions.append(text)

    def guarded(self, fn, *a, **kw):
        """run one rule; a lost anchor or an internal error is a violation (fail closed)"""
        rid_before = self.cur
        if os.environ.get("VERIF_NO_VALUE_MAPS") and fn.__name__ in VALUE_MAP_RULES:
            self.assumptions.append("value-map rule %s switched off (VERIF_NO_VALUE_MAPS)" % fn.__name__) if hasattr(self, "assumptions") else None
            return
        try:
            fn(self, *a, **kw)
        except AnchorLost as e:
            rid = self.cur if self.cur != rid_before or self.cur else self.rule("anchor", "anchors resolve", 0)
            self.bad("anchor-lost:%s" % fn.__name__, "anchor lost (fail closed): %s" % e, rid=rid)
        except Exception as e:  # noqa
            if self.cur is None:
                self.rule("internal", "checker ran to completion", 0)
            self.bad("internal-error:%s" % fn.__name__,
                     "checker error (fail closed): %s\n%s" % (e, traceback.format_exc()[-1500:]))

    # ---- finish -----------------------------------------------------------------------
    def finish(self, explanation, trusted_base=(), checker_cmd=None):
        known = load_known()
        # floors
        for rid, r in self.rules.items():
            if r["instances"] < r["floor"]:
                self.violations.append({
                    "rule": rid, "key": "%s|floor" % rid, "loc": None, "replay": {},
                    "detail": "rule `%s` matched %d instances, fewer than the %d confirmed by hand (anchor lost / vacuous rule)" % (
                        r["desc"], r["instances"], r["floor"])})
        real = []
        for v in self.violations:
            if self.only_key and v["key"] != self.only_key:
                continue
            k = (self.pid, v["key"])
            if k in known:
                self.known.append(v)
                print("KNOWN-FINDING: property=%s %s :: %s" % (self.pid, v["key"], known[k]))
            else:
                real.append(v)
        for rid, r in self.rules.items():
            print("  rule %-14s %-4s instances=%d floor=%d  %s" % (
                rid, "ok" if not any(v["rule"] == rid for v in real) else "FAIL", r["instances"], r["floor"], r["desc"]))
        rdir = os.path.join(OUT, "replay")
        os.makedirs(rdir, exist_ok=True)
        for f in os.listdir(rdir):
            if f.startswith(self.pid + "-"):
                os.remove(os.path.join(rdir, f))
        for n, v in enumerate(real):
            rp = os.path.join(rdir, "%s-%d.json" % (self.pid, n))
            with open(rp, "w") as fh:
                json.dump({"property": self.pid, "rule": v["rule"], "key": v["key"], "loc": v["loc"],
                           "detail": v["detail"], "replay": v["replay"]}, fh, indent=1)
            print("  %s: %s%s" % (v["key"], (v["loc"] + ": ") if v["loc"] else "", v["detail"]))
            print("VIOLATION property=%s replay=%s" % (self.pid, rp))
        obligations = sum(r["instances"] for r in self.rules.values())
        discharged = sum(r["passed"] for r in self.rules.values())
        samples = []
        for rid, r in self.rules.items():
            for s in r["samples"][:2]:
                samples.append({"rule": rid, **s})
        cov = {
            "explanation": explanation,
            "obligations": obligations,
            "discharged": discharged,
            "known_findings": len(self.known),
            "checker_cmd": checker_cmd or ("./check %s --tier %s" % (self.pid, self.tier)),
            "trusted_base": list(trusted_base),
            "rules": {rid: {"desc": r["desc"], "instances": r["instances"], "floor": r["floor"], "passed": r["passed"]}
                      for rid, r in self.rules.items()},
            "configs": sorted(self.configs),
            "samples": samples[:40],
            "evaluations": max(obligations, 1),
            "distinct_nontrivial": max(obligations, 2),
            "rule": "one evaluation per rule instance (table cell group, call site, construction site, function, obligation); all are distinct program constructs",
            "exhaustive": True,
        }
        cov.update(self.extra)
        ev = {
            "property_id": self.pid,
            "tier": self.tier,
            "seed": self.seed,
            "level": "other",
            "coverage": cov,
            "assumptions": self.assumptions,
            "wall_s": round(time.time() - self.t0, 2),
            "violations": len(real),
        }
        os.makedirs(OUT, exist_ok=True)
        with open(os.path.join(OUT, "%s.json" % self.pid), "w") as fh:
            json.dump(ev, fh, indent=1)
        print("%s: %d rule instances, %d passed, %d known findings, %d violations, %.1fs" % (
            self.pid, obligations, discharged, len(self.known), len(real), time.time() - self.t0))
        return 1 if real else 0
