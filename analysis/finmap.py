"""Finite maps: the value table of a small pure function over a finite argument domain, obtained by
substituting each domain value into the def-use terms reconstructed by sym.py and folding constants
(MATCH rule generalised from `match` arms to arithmetic on a finite domain). No code of the crate is
executed: the terms are expression trees read from MIR; crate-local callees are inlined by the same
reconstruction (bounded depth)."""
import re
from sym import Sym, pp

INT_RANGE = {}
for _b in (8, 16, 32, 64, 128):
    INT_RANGE["i%d" % _b] = (-(1 << (_b - 1)), (1 << (_b - 1)) - 1)
    INT_RANGE["u%d" % _b] = (0, (1 << _b) - 1)
INT_RANGE["isize"] = INT_RANGE["i64"]
INT_RANGE["usize"] = INT_RANGE["u64"]
INT_RANGE["char"] = (0, 0x10FFFF)      # `u8 as char`: the code point


class Unknown(Exception):
    pass


def wrap(v, ty):
    if ty not in INT_RANGE:
        raise Unknown("cast to " + ty)
    lo, hi = INT_RANGE[ty]
    n = hi - lo + 1
    return (v - lo) % n + lo


def _c(v):
    return ("const", v)


def _isc(t):
    return t[0] == "const" and isinstance(t[1], (int, bool))


CMP = {"Eq": lambda a, b: a == b, "Ne": lambda a, b: a != b, "Lt": lambda a, b: a < b, "Le": lambda a, b: a <= b,
       "Gt": lambda a, b: a > b, "Ge": lambda a, b: a >= b}


class Folder:
    def __init__(self, prog, max_depth=5, opaque=None, effects=None, effects_names=None):
        self.opaque = opaque
        # effects(name, folded args) -> folded result: lets a rule record calls of output routines (write_char, write_n, ..) and continue with their success value
        self.effects = effects
        self.effects_names = effects_names or (lambda n: True)
        self._eff_done = {}
        self.prog = prog
        self.max_depth = max_depth
        self._paths = {}
        self._memo = {}

    def paths(self, fpath):
        if fpath not in self._paths:
            try:
                self._paths[fpath] = Sym(self.prog, fpath).paths()
            except Exception:
                self._paths[fpath] = Sym(self.prog, fpath).paths(max_paths=400000)
        return self._paths[fpath]

    def ev(self, t, env, bind, depth):
        key = None
        if bind:
            key = pp(t)
            if key in bind:
                b = bind[key]
                return b if isinstance(b, tuple) and b and b[0] in ("agg", "const", "ref") else _c(b)
        k = t[0]
        if k == "const":
            return t
        if k == "named":
            if isinstance(t[2], (int, bool)):
                return _c(t[2])
            return ("const", t[2])
        if k == "arg":
            if t in env:
                return env[t]
            raise Unknown(pp(t))
        if k == "ref":
            return ("ref", self.ev(t[1], env, bind, depth))
        if k == "deref":
            x = self.ev(t[1], env, bind, depth)
            if x[0] == "ref":
                return x[1]
            if x[0] == "const":
                return x
            raise Unknown("deref " + pp(t))
        if k == "field":
            x = self.ev(t[1], env, bind, depth)
            if x[0] == "agg" and t[2] < len(x[4]):
                return x[4][t[2]]
            if x[0] == "const" and isinstance(x[1], tuple):
                # decoded constant aggregate: (('adt',..),('fields',(('0',v),..)))
                d = dict(x[1])
                if "fields" in d:
                    fs = list(d["fields"])
                    return _c(fs[t[2]][1])
                if "tuple" in d:
                    return _c(d["tuple"][t[2]])
            raise Unknown("field " + pp(t))
        if k == "as":
            return self.ev(t[1], env, bind, depth)
        if k == "agg":
            if t[1] == "closure":
                # captures are evaluated leniently: a closure that is never applied (or does not use a capture) must not make the fold fail
                caps = []
                for x in t[4]:
                    try:
                        caps.append(self.ev(x, env, bind, depth))
                    except Unknown:
                        caps.append(("opaque", pp(x)[:80]))
                return t[:4] + (tuple(caps),) + t[5:]
            return t[:4] + (tuple(self.ev(x, env, bind, depth) for x in t[4]),) + t[5:]
        if k == "cast":
            x = self.ev(t[1], env, bind, depth)
            if len(t) > 3 and not str(t[3]).startswith("IntToInt") and (x[0] == "ref" or (x[0] == "const" and isinstance(x[1], tuple))):
                return x        # pointer coercion (&[T; N] -> &[T]): the same constant array
            if _isc(x):
                return _c(wrap(int(x[1]), t[2]))
            if x[0] == "agg" and x[1] == "adt" and not x[4]:
                adt = self.prog.adts.get(x[2])
                if adt:
                    return _c(adt["variants"][x[5]]["discr"])
            raise Unknown("cast " + pp(t))
        if k == "discr":
            x = self.ev(t[1], env, bind, depth)
            if x[0] == "agg" and x[1] == "adt":
                adt = self.prog.adts.get(x[2])
                return _c(adt["variants"][x[5]]["discr"] if adt else x[5])
            if x[0] == "const" and isinstance(x[1], tuple):
                d = dict(i for i in x[1] if isinstance(i, tuple) and len(i) == 2)
                if "vidx" in d and "adt" in d:
                    adt = self.prog.adts.get(d["adt"])
                    return _c(adt["variants"][d["vidx"]]["discr"] if adt else d["vidx"])
            raise Unknown("discr " + pp(t))
        if k == "un":
            x = self.ev(t[2], env, bind, depth)
            if _isc(x):
                if t[1] == "Neg":
                    return _c(-int(x[1]))
                if t[1] == "Not":
                    return _c(not x[1]) if isinstance(x[1], bool) else _c(~int(x[1]))
            raise Unknown("un " + pp(t))
        if k == "bin":
            a = self.ev(t[2], env, bind, depth)
            b = self.ev(t[3], env, bind, depth)
            if not (_isc(a) and _isc(b)):
                raise Unknown("bin " + pp(t))
            x, y = int(a[1]), int(b[1])
            op = t[1]
            wo = op.endswith("WithOverflow")
            if wo:
                op = op[:-12]
            if op in CMP:
                return _c(CMP[op](x, y))
            if op == "Add":
                r = x + y
            elif op == "Sub":
                r = x - y
            elif op == "Mul":
                r = x * y
            elif op == "Div":
                if y == 0:
                    raise Unknown("div by zero")
                r = abs(x) // abs(y) * (1 if (x >= 0) == (y >= 0) else -1)
            elif op == "Rem":
                if y == 0:
                    raise Unknown("rem by zero")
                r = abs(x) % abs(y) * (1 if x >= 0 else -1)
            elif op == "BitAnd":
                r = x & y
            elif op == "BitOr":
                r = x | y
            elif op == "BitXor":
                r = x ^ y
            elif op == "Shl":
                r = x << y
            elif op == "Shr":
                r = x >> y
            else:
                raise Unknown("op " + op)
            if isinstance(a[1], bool) and isinstance(b[1], bool) and op in ("BitAnd", "BitOr", "BitXor"):
                r = bool(r)
            if wo:
                # (wrapped result, overflow flag): the flag needs the operand type, kept as a fifth element of checked-operation terms
                ty = t[4] if len(t) > 4 else None
                if ty in INT_RANGE and not isinstance(r, bool):
                    lo, hi = INT_RANGE[ty]
                    return ("agg", "tuple", None, None, (_c(wrap(r, ty)), _c(not lo <= r <= hi)), None)
                return ("agg", "tuple", None, None, (_c(r), _c(False)), None)
            return _c(r)
        if k == "call":
            name = t[1]
            if isinstance(name, str) and self.effects is not None and self.effects_names(name):
                # an output call is performed once, however often its term is re-evaluated while the path conditions of sibling paths are tested
                ek = (t, tuple(sorted((k, v) for k, v in env.items())) if env else ())
                try:
                    if ek in self._eff_done:
                        return self._eff_done[ek]
                except TypeError:
                    ek = None
                r = self.effects(name, [self.ev(a, env, bind, depth) for a in t[2]])
                if r is not None:
                    if ek is not None:
                        self._eff_done[ek] = r
                    return r
            if isinstance(name, str) and name.startswith("std::convert::num::<impl std::convert::From<") and name.endswith(">::from"):
                return _ident(self, [self.ev(a, env, bind, depth) for a in t[2]])
            if isinstance(name, str) and name not in STD_MODELS and name.startswith("<") and (name.endswith(" as std::cmp::PartialEq>::eq") or name.endswith(" as std::cmp::PartialEq>::ne")):
                # derived equality of plain data (unit-variant enums, small structs): structural comparison of the folded values
                args = [self.ev(a, env, bind, depth) for a in t[2]]
                try:
                    return _eq_model(name.endswith("::ne"))(self, args)
                except Unknown:
                    pass
            if isinstance(name, str) and name in STD_MODELS:
                args = [self.ev(a, env, bind, depth) for a in t[2]]
                return STD_MODELS[name](self, args)
            if isinstance(name, str) and self.prog.has(name) and depth < self.max_depth:
                args = [self.ev(a, env, bind, depth) for a in t[2]]
                if "{closure#" in name.rsplit("::", 1)[-1] and len(args) == 2 and args[1][0] == "agg" and args[1][1] == "tuple":
                    # Fn::call(&closure, (a, b, ..)): the closure body takes the tuple's components as separate parameters
                    if self.prog.fn(name)["mir"]["argc"] == 1 + len(args[1][4]):
                        args = [args[0]] + list(args[1][4])
                return self.call(name, args, depth + 1)
            if isinstance(name, str) and not self.prog.has(name) and t[2] and depth < self.max_depth:
                # a trait method called inside a provided method (unresolved in the generic body): dispatch on the folded receiver's type
                recv = self.ev(t[2][0], env, bind, depth)
                r0 = recv[1] if recv[0] == "ref" else recv
                rty = r0[2] if (r0[0] == "agg" and r0[1] == "adt") else None
                if rty is None and r0[0] == "const" and isinstance(r0[1], tuple) and r0[1] and isinstance(r0[1][0], tuple) and r0[1][0][0] == "adt":
                    rty = r0[1][0][1]           # a unit / constant struct receiver (e.g. `Utc`)
                if rty is not None and "::" in name:
                    tr, meth = name.rsplit("::", 1)
                    cand = "<%s as %s>::%s" % (rty, tr, meth)
                    if self.prog.has(cand):
                        args = [recv] + [self.ev(a, env, bind, depth) for a in t[2][1:]]
                        return self.call(cand, args, depth + 1)
            if isinstance(name, str) and self.opaque is not None and self.opaque(name):
                # a call the caller of the folder declared symbolic (e.g. the `+` of a generic parameter): kept as a term over folded arguments
                return ("opaque", name, tuple(self.ev(a, env, bind, depth) for a in t[2]))
            raise Unknown("call " + str(name))
        if k == "upd":
            base = self.ev(t[1], env, bind, depth)
            if t[2] == "*":
                if base[0] != "ref":
                    raise Unknown("upd through non-ref")
                # the inner term is written in terms of ('deref', original base): evaluate it as the new referent
                return ("ref", self.ev(t[3], env, bind, depth))
            if isinstance(t[2], tuple) and t[2][0] == "f" and base[0] == "agg":
                fs = list(base[4])
                fs[t[2][1]] = self.ev(t[3], env, bind, depth)
                return base[:4] + (tuple(fs),) + base[5:]
            raise Unknown("upd " + pp(t))
        if k == "index":
            base = self.ev(t[1], env, bind, depth)
            idx = self.ev(t[2], env, bind, depth) if t[2][0] != "local" else None
            if idx is not None and _isc(idx) and base[0] == "const" and isinstance(base[1], tuple):
                return _c(base[1][int(idx[1])])
            if idx is not None and _isc(idx) and base[0] == "agg" and base[1] == "array" and 0 <= int(idx[1]) < len(base[4]):
                return self.ev(base[4][int(idx[1])], env, bind, depth) if not _isc(base[4][int(idx[1])]) else base[4][int(idx[1])]
            raise Unknown("index " + pp(t))
        raise Unknown(k + " " + pp(t))

    def call(self, fpath, args, depth=0, bind=None):
        if bind is None:
            try:
                key = (fpath, tuple(args))
                hit = self._memo.get(key)
            except TypeError:
                key = hit = None
            if hit is not None:
                if isinstance(hit, Unknown):
                    raise hit
                return hit
            try:
                r = self._call(fpath, args, depth, bind)
            except Unknown as e:
                if key is not None and depth < self.max_depth - 2:
                    self._memo[key] = e
                raise
            if key is not None:
                self._memo[key] = r
            return r
        return self._call(fpath, args, depth, bind)

    def _call(self, fpath, args, depth=0, bind=None):
        env = {("arg", i + 1): a for i, a in enumerate(args)}
        for p in self.paths(fpath):
            taken = True
            for c in p.conds:
                if c[0][0] == "assert":
                    v = self.ev(c[1], env, bind, depth)
                    if not _isc(v) or bool(v[1]) != c[2]:
                        raise Unknown("assert may fail in " + fpath)
                    continue
                v = self.ev(c[1], env, bind, depth)
                if not _isc(v):
                    raise Unknown("switch on non-constant in " + fpath)
                val = int(v[1])
                want = c[2]
                if isinstance(want, tuple):
                    if val in want[1]:
                        taken = False
                        break
                elif val != want:
                    taken = False
                    break
            if taken:
                if p.end[0] != "return":
                    raise Unknown("path ends in %s in %s" % (p.end[0], fpath))
                return self.ev(p.ret, env, bind, depth)
        raise Unknown("no path taken in " + fpath)


def _ints(args):
    out = []
    for a in args:
        while a[0] == "ref":
            a = a[1]
        if not _isc(a):
            raise Unknown("std model on non-constant")
        out.append(int(a[1]))
    return out


def _u(bits, f):
    return lambda self, args: _c(f(_ints(args)[0], bits))


def _tz(v, bits):
    if v == 0:
        return bits
    return (v & -v).bit_length() - 1


def _opt(some, payload=None):
    if some:
        return ("agg", "adt", "std::option::Option", "Some", (payload,), 1)
    return ("agg", "adt", "std::option::Option", "None", (), 0)


def _checked(op):
    def f(self, args, ty):
        a, b = _ints(args)
        r = op(a, b)
        lo, hi = INT_RANGE[ty]
        return _opt(lo <= r <= hi, _c(r))
    return f


def _expect(self, args):
    a = args[0]
    if a[0] == "agg" and a[3] in ("Some", "Ok"):
        return a[4][0]
    raise Unknown("unwrap/expect of a non-Some value")


def _ident(self, args):
    a = args[0]
    while a[0] == "ref":
        a = a[1]
    return a


def _unwrap_or(self, args):
    a = args[0]
    if a[0] == "agg" and a[3] in ("Some", "Ok"):
        return a[4][0]
    if a[0] == "agg" and a[3] in ("None",):
        return args[1]
    raise Unknown("unwrap_or of a non-constant")


def _const_seq(a):
    """the python tuple behind (a reference to / an unsizing cast of) a constant array"""
    n = 0
    while isinstance(a, tuple) and a and a[0] in ("ref", "cast", "as") and n < 6:
        a = a[1]
        n += 1
    if isinstance(a, tuple) and a and a[0] == "const" and isinstance(a[1], tuple):
        return a[1]
    raise Unknown("slice model on a non-constant slice")


def _int_seq(a):
    """python ints of a constant array or an aggregate array of folded integer constants (behind references / unsizing casts)"""
    n = 0
    while isinstance(a, tuple) and a and a[0] in ("ref", "cast", "as") and n < 6:
        a = a[1]
        n += 1
    if isinstance(a, tuple) and a and a[0] == "const" and isinstance(a[1], tuple):
        return [int(x) for x in a[1]]
    if isinstance(a, tuple) and a and a[0] == "agg" and a[1] == "array" and all(_isc(x) for x in a[4]):
        return [int(x[1]) for x in a[4]]
    raise Unknown("slice model on a non-constant slice")


def _binary_search(self, args):
    seq = _int_seq(args[0])
    k = args[1][1] if args[1][0] == "ref" else args[1]
    if not _isc(k):
        raise Unknown("binary_search for a non-constant key")
    k = int(k[1])
    if any(seq[i] > seq[i + 1] for i in range(len(seq) - 1)):
        raise Unknown("binary_search on an unsorted slice")
    hits = [i for i, v in enumerate(seq) if v == k]
    if len(hits) == 1:
        return ("agg", "adt", "std::result::Result", "Ok", (_c(hits[0]),), 0)
    if hits:
        raise Unknown("binary_search with several equal elements (unspecified which is returned)")
    return ("agg", "adt", "std::result::Result", "Err", (_c(sum(1 for v in seq if v < k)),), 1)


def _partition_point(self, args):
    seq = _int_seq(args[0])
    n = 0
    flags = []
    for v in seq:
        r = _call_closure(self, args[1], [("ref", _c(v))])
        if not _isc(r):
            raise Unknown("partition_point predicate not folded")
        flags.append(bool(r[1]))
    if any(b and not a for a, b in zip(flags, flags[1:])):
        raise Unknown("partition_point on a slice that is not partitioned (unspecified result)")
    return _c(sum(flags))


def _range_agg(r):
    """a promoted constant range (decoded struct constant) as an aggregate of constants"""
    if r[0] == "const" and isinstance(r[1], tuple):
        d = dict(r[1])
        if "fields" in d:
            fs = [v for _, v in d["fields"]]
            if len(fs) >= 2 and all(isinstance(v, int) for v in fs[:2]):
                return ("agg", "adt", "range", "range", tuple(_c(v) for v in fs), 0)
    return r


def _range_incl_contains(self, args):
    r = _range_agg(args[0][1] if args[0][0] == "ref" else args[0])
    x = args[1][1] if args[1][0] == "ref" else args[1]
    if not (r[0] == "agg" and len(r[4]) >= 2 and _isc(r[4][0]) and _isc(r[4][1]) and _isc(x)):
        raise Unknown("contains on a non-constant range")
    return _c(int(r[4][0][1]) <= int(x[1]) <= int(r[4][1][1]))


def _range_contains(self, args):
    r = _range_agg(args[0][1] if args[0][0] == "ref" else args[0])
    x = args[1][1] if args[1][0] == "ref" else args[1]
    if not (r[0] == "agg" and len(r[4]) >= 2 and _isc(r[4][0]) and _isc(r[4][1]) and _isc(x)):
        raise Unknown("contains on a non-constant range")
    return _c(int(r[4][0][1]) <= int(x[1]) < int(r[4][1][1]))


def _slice_len(self, args):
    return _c(len(_const_seq(args[0])))


def _slice_is_empty(self, args):
    return _c(len(_const_seq(args[0])) == 0)


def _slice_get(self, args):
    seq = _const_seq(args[0])
    i = _ints(args[1:2])[0]
    if 0 <= i < len(seq):
        return ("agg", "adt", "std::option::Option", "Some", (("ref", _c(seq[i])),), 1)
    return ("agg", "adt", "std::option::Option", "None", (), 0)


def _cf(variant, payload):
    return ("agg", "adt", "std::ops::ControlFlow", variant, (payload,), 0 if variant == "Continue" else 1)


def _try_branch(self, args):
    a = args[0]
    if a[0] == "agg" and a[1] == "adt" and a[3] in ("Some", "Ok"):
        return _cf("Continue", a[4][0])
    if a[0] == "agg" and a[1] == "adt" and a[3] in ("None", "Err"):
        return _cf("Break", a)
    raise Unknown("Try::branch of a non-constant value")


def _from_residual(self, args):
    a = args[0]
    if a[0] == "agg" and a[1] == "adt" and a[3] in ("None", "Err"):
        return a
    raise Unknown("from_residual of a non-constant value")


def _result_ok(self, args):
    a = args[0]
    if a[0] == "agg" and a[1] == "adt" and a[3] == "Ok":
        return ("agg", "adt", "std::option::Option", "Some", (a[4][0],), 1)
    if a[0] == "agg" and a[1] == "adt" and a[3] == "Err":
        return ("agg", "adt", "std::option::Option", "None", (), 0)
    raise Unknown("Result::ok of a non-constant value")


_INT_RANGES = {"u8": (0, 255), "u16": (0, 65535), "u32": (0, (1 << 32) - 1), "u64": (0, (1 << 64) - 1), "usize": (0, (1 << 64) - 1),
               "i8": (-128, 127), "i16": (-32768, 32767), "i32": (-(1 << 31), (1 << 31) - 1), "i64": (-(1 << 63), (1 << 63) - 1), "isize": (-(1 << 63), (1 << 63) - 1)}


def _try_from_int(target):
    def f(self, args):
        v = _ints(args[:1])[0]
        lo, hi = _INT_RANGES[target]
        if lo <= v <= hi:
            return ("agg", "adt", "std::result::Result", "Ok", (_c(v),), 0)
        return ("agg", "adt", "std::result::Result", "Err", (("const", "TryFromIntError"),), 1)
    return f


def _call_closure(self, clo, args):
    """apply a folded closure value to folded arguments (the environment is passed by reference or by value as the closure's own MIR says)"""
    c = clo[1] if clo[0] == "ref" else clo
    if not (c[0] == "agg" and c[1] == "closure" and self.prog.has(c[2])):
        raise Unknown("not a closure value: " + pp(clo)[:60])
    m = self.prog.fn(c[2])["mir"]
    env_ty = self.prog.ty_s(m["locals"][1])
    env = ("ref", c) if env_ty.startswith("&") else c
    return self.call(c[2], [env] + list(args), 1)


def _is_opt(v):
    return v[0] == "agg" and v[1] == "adt" and v[3] in ("Some", "None")


def _opt_and_then(self, args):
    o, f = args
    if not _is_opt(o):
        raise Unknown("and_then on non-constant option")
    return o if o[3] == "None" else _call_closure(self, f, [o[4][0]])


def _opt_map(self, args):
    o, f = args
    if not _is_opt(o):
        raise Unknown("map on non-constant option")
    return o if o[3] == "None" else _opt(True, _call_closure(self, f, [o[4][0]]))


def _opt_map_or(self, args):
    o, d, f = args
    if not _is_opt(o):
        raise Unknown("map_or on non-constant option")
    return d if o[3] == "None" else _call_closure(self, f, [o[4][0]])


def _opt_ok_or(self, args):
    o, e = args
    if not _is_opt(o):
        raise Unknown("ok_or on non-constant option")
    if o[3] == "None":
        return ("agg", "adt", "std::result::Result", "Err", (e,), 1)
    return ("agg", "adt", "std::result::Result", "Ok", (o[4][0],), 0)


def _opt_ok_or_else(self, args):
    o, f = args
    if not _is_opt(o):
        raise Unknown("ok_or_else on non-constant option")
    if o[3] == "None":
        return ("agg", "adt", "std::result::Result", "Err", (_call_closure(self, f, []),), 1)
    return ("agg", "adt", "std::result::Result", "Ok", (o[4][0],), 0)


def _opt_unwrap_or_else(self, args):
    o, f = args
    if not _is_opt(o):
        raise Unknown("unwrap_or_else on non-constant option")
    return _call_closure(self, f, []) if o[3] == "None" else o[4][0]


def _opt_or(self, args):
    a, b = args
    if not _is_opt(a):
        raise Unknown("or on non-constant option")
    return b if a[3] == "None" else a


def _opt_is(which):
    def f(self, args):
        o = args[0][1] if args[0][0] == "ref" else args[0]
        if not _is_opt(o):
            raise Unknown("is_some on non-constant option")
        return _c(o[3] == which)
    return f


def _into_int(self, args):
    if _isc(args[0]) and isinstance(args[0][1], int):
        return args[0]          # Into between integer types is the lossless widening
    raise Unknown("Into::into of a non-integer")


def _as_agg(v):
    """a decoded constant unit variant (element of a const table) in the aggregate form the folder builds for enum values"""
    if v[0] == "const" and isinstance(v[1], tuple) and v[1] and isinstance(v[1][0], tuple) and v[1][0][0] == "adt":
        d = dict(i for i in v[1] if isinstance(i, tuple) and len(i) == 2)
        if "variant" in d and "vidx" in d and not d.get("fields"):
            return ("agg", "adt", d["adt"], d["variant"], (), d["vidx"])
    return v


def _struct_eq(a, b):
    """structural equality of two folded values (constants and aggregates of them); Unknown if anything is not folded"""
    a = _as_agg(a[1] if a[0] == "ref" else a)
    b = _as_agg(b[1] if b[0] == "ref" else b)
    if _isc(a) and _isc(b):
        return a[1] == b[1]
    if a[0] == "agg" and b[0] == "agg":
        if a[1] != b[1] or a[3] != b[3] or len(a[4]) != len(b[4]):
            return False
        return all(_struct_eq(x, y) for x, y in zip(a[4], b[4]))
    raise Unknown("equality of non-folded values")


def _eq_model(neg):
    def f(self, args):
        r = _struct_eq(args[0], args[1])
        return _c((not r) if neg else r)
    return f


def _clone(self, args):
    a = args[0]
    return a[1] if a[0] == "ref" else a       # Clone of a folded (Copy-like) value is the value


def _fn_call(self, args):
    tup = args[1]
    if not (tup[0] == "agg" and tup[1] == "tuple"):
        raise Unknown("Fn::call with a non-tuple argument pack")
    return _call_closure(self, args[0], list(tup[4]))


def _opt_as_ref(self, args):
    o = args[0][1] if args[0][0] == "ref" else args[0]
    if not _is_opt(o):
        raise Unknown("as_ref on a non-constant option")
    return o if o[3] == "None" else _opt(True, ("ref", o[4][0]))


STD_MODELS = {
    "std::option::Option::<T>::as_ref": _opt_as_ref,
    "std::ops::FnMut::call_mut": _fn_call,
    "std::ops::FnOnce::call_once": _fn_call,
    "std::ops::Fn::call": _fn_call,
    "core::slice::<impl [T]>::partition_point": _partition_point,
    "<std::option::Option<T> as std::clone::Clone>::clone": _clone,
    "std::clone::Clone::clone": _clone,
    "std::clone::impls::<impl std::clone::Clone for i32>::clone": _clone,
    "std::clone::impls::<impl std::clone::Clone for i64>::clone": _clone,
    "std::clone::impls::<impl std::clone::Clone for u32>::clone": _clone,
    "<std::option::Option<T> as std::cmp::PartialEq>::eq": _eq_model(False),
    "<std::option::Option<T> as std::cmp::PartialEq>::ne": _eq_model(True),
    "<weekday::Weekday as std::cmp::PartialEq>::eq": _eq_model(False),
    "<weekday::Weekday as std::cmp::PartialEq>::ne": _eq_model(True),
    "std::cmp::PartialEq::ne": _eq_model(True),
    "std::cmp::PartialEq::eq": _eq_model(False),
    "std::ops::RangeInclusive::<Idx>::new": lambda self, args: ("agg", "adt", "std::ops::RangeInclusive", "RangeInclusive", (args[0], args[1], _c(False)), 0),
    "core::slice::<impl [T]>::binary_search": _binary_search,
    "std::ops::RangeInclusive::<Idx>::contains": _range_incl_contains,
    "std::ops::Range::<Idx>::contains": _range_contains,
    "<T as std::convert::Into<U>>::into": _into_int,
    "<std::result::Result<T, F> as std::ops::FromResidual<std::result::Result<std::convert::Infallible, E>>>::from_residual": _from_residual,
    "std::option::Option::<T>::and_then": _opt_and_then,
    "std::option::Option::<T>::map": _opt_map,
    "std::option::Option::<T>::map_or": _opt_map_or,
    "std::option::Option::<T>::ok_or": _opt_ok_or,
    "std::option::Option::<T>::ok_or_else": _opt_ok_or_else,
    "std::option::Option::<T>::unwrap_or_else": _opt_unwrap_or_else,
    "std::option::Option::<T>::or": _opt_or,
    "std::option::Option::<T>::is_some": _opt_is("Some"),
    "std::option::Option::<T>::is_none": _opt_is("None"),
    "std::result::Result::<T, E>::ok": _result_ok,
    "<std::option::Option<T> as std::ops::Try>::branch": _try_branch,
    "<std::result::Result<T, E> as std::ops::Try>::branch": _try_branch,
    "<std::option::Option<T> as std::ops::FromResidual<std::option::Option<std::convert::Infallible>>>::from_residual": _from_residual,
    "core::slice::<impl [T]>::len": _slice_len,
    "core::slice::<impl [T]>::is_empty": _slice_is_empty,
    "core::slice::<impl [T]>::get": _slice_get,
    "std::num::NonZero::<T>::new_unchecked": _ident,
    "std::num::NonZero::<T>::get": _ident,
    "std::option::Option::<T>::unwrap_or": _unwrap_or,
    "expect": _expect,
    "std::option::Option::<T>::expect": _expect,
    "std::option::Option::<T>::unwrap": _expect,
    "std::result::Result::<T, E>::unwrap": _expect,
    "std::result::Result::<T, E>::expect": _expect,
}
for _b in (8, 16, 32, 64):
    for _s in ("u", "i"):
        _t = "%s%d" % (_s, _b)
        _p = "core::num::<impl %s>::" % _t
        STD_MODELS[_p + "trailing_zeros"] = _u(_b, lambda v, bits: _tz(v % (1 << bits), bits))
        STD_MODELS[_p + "leading_zeros"] = _u(_b, lambda v, bits: bits - (v % (1 << bits)).bit_length())
        STD_MODELS[_p + "count_ones"] = _u(_b, lambda v, bits: bin(v % (1 << bits)).count("1"))
        STD_MODELS[_p + "rem_euclid"] = lambda self, args: _c(_ints(args)[0] % abs(_ints(args)[1]))
        STD_MODELS[_p + "div_euclid"] = lambda self, args: _c((_ints(args)[0] - _ints(args)[0] % abs(_ints(args)[1])) // _ints(args)[1])
        STD_MODELS[_p + "abs"] = (lambda ty: lambda self, args: _c(wrap(abs(_ints(args)[0]), ty)))(_t)
        STD_MODELS[_p + "unsigned_abs"] = lambda self, args: _c(abs(_ints(args)[0]))
        STD_MODELS[_p + "abs_diff"] = lambda self, args: _c(abs(_ints(args)[0] - _ints(args)[1]))
        STD_MODELS[_p + "signum"] = lambda self, args: _c((_ints(args)[0] > 0) - (_ints(args)[0] < 0))
        STD_MODELS[_p + "checked_add"] = (lambda ty: lambda self, args: _checked(lambda a, b: a + b)(self, args, ty))(_t)
        STD_MODELS[_p + "checked_sub"] = (lambda ty: lambda self, args: _checked(lambda a, b: a - b)(self, args, ty))(_t)
        STD_MODELS[_p + "checked_mul"] = (lambda ty: lambda self, args: _checked(lambda a, b: a * b)(self, args, ty))(_t)


def _int_cmp(self, args):
    a, b = [x[1] if x[0] == "ref" else x for x in args]
    if not (_isc(a) and _isc(b)):
        raise Unknown("cmp of non-constants")
    d = (int(a[1]) > int(b[1])) - (int(a[1]) < int(b[1]))
    # std::cmp::Ordering is not part of the fact file: the variant index slot carries the discriminant (-1 / 0 / 1) itself
    return ("agg", "adt", "std::cmp::Ordering", ("Less", "Equal", "Greater")[d + 1], (), d)


for _t in _INT_RANGES:
    STD_MODELS["std::cmp::impls::<impl std::cmp::Ord for %s>::cmp" % _t] = _int_cmp


def _int_minmax(pick):
    def f(self, args):
        a, b = args[0], args[1]
        if not (_isc(a) and _isc(b) and isinstance(a[1], int) and isinstance(b[1], int)):
            raise Unknown("min/max of non-integers")
        return _c(pick(int(a[1]), int(b[1])))
    return f


for _n in ("std::cmp::Ord::min", "std::cmp::min"):
    STD_MODELS[_n] = _int_minmax(min)
for _n in ("std::cmp::Ord::max", "std::cmp::max"):
    STD_MODELS[_n] = _int_minmax(max)

def _is_res(v):
    return v[0] == "agg" and v[1] == "adt" and v[3] in ("Ok", "Err")


def _res(variant, payload):
    return ("agg", "adt", "std::result::Result", variant, (payload,), 0 if variant == "Ok" else 1)


def _res_map(self, args):
    r, f = args
    if not _is_res(r):
        raise Unknown("Result::map on a non-constant result")
    return r if r[3] == "Err" else _res("Ok", _call_closure(self, f, [r[4][0]]))


def _res_map_err(self, args):
    r, f = args
    if not _is_res(r):
        raise Unknown("Result::map_err on a non-constant result")
    return r if r[3] == "Ok" else _res("Err", _call_closure(self, f, [r[4][0]]))


def _res_and_then(self, args):
    r, f = args
    if not _is_res(r):
        raise Unknown("Result::and_then on a non-constant result")
    return r if r[3] == "Err" else _call_closure(self, f, [r[4][0]])


def _res_unwrap_or(self, args):
    r, d = args
    if not _is_res(r):
        raise Unknown("Result::unwrap_or on a non-constant result")
    return r[4][0] if r[3] == "Ok" else d


def _res_is(which):
    def f(self, args):
        r = args[0][1] if args[0][0] == "ref" else args[0]
        if not _is_res(r):
            raise Unknown("is_ok on a non-constant result")
        return _c(r[3] == which)
    return f


def _opt_filter(self, args):
    o, f = args
    if not _is_opt(o):
        raise Unknown("filter on non-constant option")
    if o[3] == "None":
        return o
    r = _call_closure(self, f, [("ref", o[4][0])])
    if not _isc(r):
        raise Unknown("filter predicate not folded")
    return o if r[1] else _opt(False)


def _opt_is_some_and(self, args):
    o, f = args
    if not _is_opt(o):
        raise Unknown("is_some_and on non-constant option")
    return _c(False) if o[3] == "None" else _call_closure(self, f, [o[4][0]])


def _opt_unwrap_or_default(self, args):
    o = args[0]
    if not _is_opt(o):
        raise Unknown("unwrap_or_default on non-constant option")
    if o[3] == "Some":
        return o[4][0]
    raise Unknown("unwrap_or_default of None (default of an unknown type)")


def _bool_then_some(self, args):
    b, v = args
    if not _isc(b):
        raise Unknown("then_some on a non-constant bool")
    return _opt(True, v) if b[1] else _opt(False)


def _bool_then(self, args):
    b, f = args
    if not _isc(b):
        raise Unknown("then on a non-constant bool")
    return _opt(True, _call_closure(self, f, [])) if b[1] else _opt(False)


STD_MODELS.update({
    "std::result::Result::<T, E>::map": _res_map,
    "std::result::Result::<T, E>::map_err": _res_map_err,
    "std::result::Result::<T, E>::and_then": _res_and_then,
    "std::result::Result::<T, E>::unwrap_or": _res_unwrap_or,
    "std::result::Result::<T, E>::is_ok": _res_is("Ok"),
    "std::result::Result::<T, E>::is_err": _res_is("Err"),
    "std::option::Option::<T>::filter": _opt_filter,
    "std::option::Option::<T>::is_some_and": _opt_is_some_and,
    "std::option::Option::<T>::unwrap_or_default": _opt_unwrap_or_default,
    "std::bool::<impl bool>::then_some": _bool_then_some,
    "std::bool::<impl bool>::then": _bool_then,
    "core::bool::<impl bool>::then_some": _bool_then_some,
    "core::bool::<impl bool>::then": _bool_then,
})
for _b in (8, 16, 32, 64):
    for _s in ("u", "i"):
        _t = "%s%d" % (_s, _b)
        _p = "core::num::<impl %s>::" % _t
        _lo, _hi = _INT_RANGES[_t]

        def _mk(op, ty=_t, lo=_lo, hi=_hi):
            def chk_(self, args):
                a, b = _ints(args)
                r = op(a, b)
                return _opt(True, _c(r)) if r is not None and lo <= r <= hi else _opt(False)
            def sat_(self, args):
                a, b = _ints(args)
                r = op(a, b)
                return _c(min(max(r, lo), hi))
            def wrap_(self, args):
                a, b = _ints(args)
                return _c(wrap(op(a, b), ty))
            return chk_, sat_, wrap_
        for _n, _op in (("add", lambda a, b: a + b), ("sub", lambda a, b: a - b), ("mul", lambda a, b: a * b)):
            _c1, _s1, _w1 = _mk(_op)
            STD_MODELS.setdefault(_p + "saturating_" + _n, _s1)
            STD_MODELS.setdefault(_p + "wrapping_" + _n, _w1)
        _c2, _, _ = _mk(lambda a, b: None if b == 0 else (abs(a) // abs(b)) * (1 if (a >= 0) == (b >= 0) else -1))
        STD_MODELS.setdefault(_p + "checked_div", _c2)
        _c3, _, _ = _mk(lambda a, b: None if b == 0 else abs(a) % abs(b) * (1 if a >= 0 else -1))
        STD_MODELS.setdefault(_p + "checked_rem", _c3)
        _c4, _, _ = _mk(lambda a, b: None if b == 0 else a % abs(b))
        STD_MODELS.setdefault(_p + "checked_rem_euclid", _c4)
        _c5, _, _ = _mk(lambda a, b: None if b == 0 else (a - a % abs(b)) // b)
        STD_MODELS.setdefault(_p + "checked_div_euclid", _c5)
        _c6, _s6, _w6 = _mk(lambda a, b: a ** b if 0 <= b <= 200 else None)
        STD_MODELS.setdefault(_p + "checked_pow", _c6)
        STD_MODELS.setdefault(_p + "pow", (lambda ty, lo, hi: lambda self, args: (lambda r: _c(r) if lo <= r <= hi else (_ for _ in ()).throw(Unknown("pow overflows")))(_ints(args)[0] ** _ints(args)[1]))(_t, _lo, _hi))
        STD_MODELS.setdefault(_p + "checked_neg", (lambda lo, hi: lambda self, args: (lambda r: _opt(True, _c(r)) if lo <= r <= hi else _opt(False))(-_ints(args)[0]))(_lo, _hi))
        STD_MODELS.setdefault(_p + "checked_abs", (lambda lo, hi: lambda self, args: (lambda r: _opt(True, _c(r)) if lo <= r <= hi else _opt(False))(abs(_ints(args)[0])))(_lo, _hi))
        STD_MODELS.setdefault(_p + "is_negative", lambda self, args: _c(_ints(args)[0] < 0))
        STD_MODELS.setdefault(_p + "is_positive", lambda self, args: _c(_ints(args)[0] > 0))
        STD_MODELS.setdefault(_p + "min", _int_minmax(min))
        STD_MODELS.setdefault(_p + "max", _int_minmax(max))

for _a in _INT_RANGES:
    for _b in _INT_RANGES:
        if _a != _b:
            STD_MODELS["std::convert::num::<impl std::convert::TryFrom<%s> for %s>::try_from" % (_a, _b)] = _try_from_int(_b)


def show(v):
    """printable form of a folded value"""
    if v[0] == "const":
        if isinstance(v[1], tuple) and v[1] and isinstance(v[1][0], tuple) and v[1][0][0] == "adt":
            d = dict(i for i in v[1] if isinstance(i, tuple) and len(i) == 2)
            if "variant" in d and not d.get("fields"):
                return d["adt"].split("::")[-1] + "::" + d["variant"]        # a constant unit variant (e.g. an element of a const table) like its aggregate form
        return v[1]
    if v[0] == "agg":
        if v[1] == "adt":
            name = v[2].split("::")[-1] + "::" + v[3]
            return (name,) + tuple(show(x) for x in v[4]) if v[4] else name
        return tuple(show(x) for x in v[4])
    if v[0] == "ref":
        return show(v[1])
    if v[0] == "opaque":
        return ("opaque", v[1]) + tuple(show(x) for x in v[2])
    return pp(v)


def finite_map(prog, fpath, bindings=None, args=None, folder=None):
    """bindings: {pp-string of a term: [values]} (one binding) -> {(value,): result}
       args: list of argument tuples of folded values -> {args: result}"""
    fo = folder or Folder(prog)
    out = {}
    if bindings:
        (key, vals), = bindings.items()
        for v in vals:
            try:
                out[(v,)] = show(fo.call(fpath, [], bind={key: v}))
            except Unknown as e:
                out[(v,)] = "unknown: %s" % e
    return out
