"""Core of the rule library (E2): fact access, CFG, dominators, call graph, MIR pretty printer."""
import json
import os
import sys
from collections import defaultdict, deque

from facts import load  # noqa


class AnchorLost(Exception):
    """an item the rules are anchored in is missing from the facts: fail closed"""


class Prog:
    """the resolved program of one configuration"""

    def __init__(self, config):
        self.config = config
        self.d = load(config)
        self.fns = self.d["fns"]
        self.tys = self.d["tys"]
        self.adts = self.d["adts"]
        self.impls = self.d["impls"]
        self.traits = self.d["traits"]
        self._cfg = {}
        self._cg = None
        # switch values are raw bits: reinterpret them for signed discriminant types
        for f in self.fns.values():
            for body in ([f["mir"]] if "mir" in f else []) + f.get("promoted", []):
                for b in body["blocks"]:
                    t = b["t"]
                    if t["k"] == "switch":
                        ty = self.tys[t["dty"]]
                        if ty.get("k") == "int":
                            bits = ty["bits"]
                            t["targets"] = [[v - (1 << bits) if v >= (1 << (bits - 1)) else v, bb] for v, bb in t["targets"]]
        # trait method path -> list of in-crate impl fn paths
        self.impl_of_trait_item = defaultdict(list)
        for name, f in self.fns.items():
            ti = f.get("trait_item")
            if ti:
                self.impl_of_trait_item[ti].append(name)

    # ---- items -------------------------------------------------------------------------
    def fn(self, path):
        f = self.fns.get(path)
        if f is None or "mir" not in f:
            raise AnchorLost("function `%s` not found in config %s" % (path, self.config))
        return f

    def has(self, path):
        return path in self.fns and "mir" in self.fns[path]

    def find(self, pred):
        return [n for n, f in self.fns.items() if pred(n, f)]

    def value(self, path):
        f = self.fns.get(path)
        if f is None or "value" not in f:
            raise AnchorLost("constant `%s` not found / not evaluated in config %s" % (path, self.config))
        return f["value"]

    def ty(self, i):
        return self.tys[i]

    def ty_s(self, i):
        return self.tys[i]["s"]

    def loc(self, path, ln=None):
        f = self.fns.get(path, {})
        return "%s:%s" % (f.get("file", "?"), ln if ln is not None else f.get("line", "?"))

    def closures_of(self, path):
        return [n for n, f in self.fns.items() if f.get("kind") == "Closure" and n.startswith(path + "::{closure")]

    # ---- CFG ---------------------------------------------------------------------------
    def cfg(self, path):
        if path not in self._cfg:
            self._cfg[path] = CFG(self.fn(path)["mir"])
        return self._cfg[path]

    # ---- call graph --------------------------------------------------------------------
    def callees_of_site(self, t):
        """resolved in-crate/std callee paths of a call terminator (CHA for generic receivers)"""
        c = t["callee"]
        if "def" not in c:
            return []
        r = c.get("resolved")
        if r is not None:
            return [r]
        d = c["def"]
        out = []
        if d in self.fns and "mir" in self.fns[d]:
            out.append(d)  # default body of the trait method
        out.extend(self.impl_of_trait_item.get(d, []))
        return out or [d]

    def calls(self, path):
        """list of (block index, terminator, [callee paths]) for the non-cleanup blocks of a fn"""
        f = self.fn(path)
        out = []
        for i, b in enumerate(f["mir"]["blocks"]):
            if b.get("cleanup"):
                continue
            t = b["t"]
            if t["k"] == "call":
                out.append((i, t, self.callees_of_site(t)))
        return out

    def callgraph(self):
        if self._cg is None:
            cg = {}
            for name, f in self.fns.items():
                if "mir" not in f:
                    continue
                s = set()
                cfg = self.cfg(name)
                for i, t, cs in self.calls(name):
                    if i not in cfg.reach:
                        continue
                    for c in cs:
                        s.add(c)
                # closures created inside are considered called
                for i, b in enumerate(f["mir"]["blocks"]):
                    if b.get("cleanup") or i not in cfg.reach:
                        continue
                    for st in b["s"]:
                        rv = st.get("rv")
                        if rv and rv["k"] == "agg" and rv.get("ak") == "closure":
                            s.add(rv["def"])
                    # fn items passed as values (e.g. `.map(Self::f)`)
                    for op in operands_of_block(b):
                        if op.get("k") == "const" and "fn" in op:
                            s.add(op["fn"])
                cg[name] = s
            self._cg = cg
        return self._cg

    def reachable_from(self, roots, stop=lambda n: False):
        cg = self.callgraph()
        seen = {}
        dq = deque()
        for r in roots:
            if r not in seen:
                seen[r] = None
                dq.append(r)
        while dq:
            n = dq.popleft()
            if stop(n):
                continue
            for c in cg.get(n, ()):
                if c not in seen:
                    seen[c] = n
                    dq.append(c)
        return seen

    def path_to(self, seen, target):
        p = [target]
        while seen.get(p[-1]) is not None:
            p.append(seen[p[-1]])
        return list(reversed(p))


def operands_of_rvalue(rv):
    k = rv["k"]
    if k in ("use", "cast", "un", "repeat"):
        return [rv["x"]]
    if k == "bin":
        return [rv["l"], rv["r"]]
    if k == "agg":
        return list(rv["fields"])
    return []


def operands_of_block(b):
    out = []
    for st in b["s"]:
        rv = st.get("rv")
        if rv:
            out.extend(operands_of_rvalue(rv))
    t = b["t"]
    if t["k"] == "call":
        out.extend(t["args"])
        if "indirect" in t["callee"]:
            out.append(t["callee"]["indirect"])
    elif t["k"] == "switch":
        out.append(t["discr"])
    elif t["k"] == "assert":
        out.append(t["cond"])
    return out


def succs(t):
    k = t["k"]
    if k == "goto":
        return [t["target"]]
    if k == "switch":
        return [b for _, b in t["targets"]] + [t["otherwise"]]
    if k in ("call", "assert", "drop"):
        return [t["target"]] if t.get("target") is not None else []
    return []


class CFG:
    def __init__(self, mir):
        self.mir = mir
        self.blocks = mir["blocks"]
        n = len(self.blocks)
        self.succ = [[] for _ in range(n)]
        self.pred = [[] for _ in range(n)]
        for i, b in enumerate(self.blocks):
            if b.get("cleanup"):
                continue
            for s in succs(b["t"]):
                self.succ[i].append(s)
                self.pred[s].append(i)
        # reachable from entry
        self.reach = set()
        st = [0]
        while st:
            x = st.pop()
            if x in self.reach:
                continue
            self.reach.add(x)
            st.extend(self.succ[x])
        self.returns = [i for i in self.reach if self.blocks[i]["t"]["k"] == "return"]
        self._dom = None
        self._rpo = None

    def rpo(self):
        if self._rpo is None:
            seen = set()
            order = []
            stack = [(0, iter(self.succ[0]))]
            seen.add(0)
            while stack:
                node, it = stack[-1]
                adv = False
                for s in it:
                    if s not in seen:
                        seen.add(s)
                        stack.append((s, iter(self.succ[s])))
                        adv = True
                        break
                if not adv:
                    order.append(node)
                    stack.pop()
            self._rpo = list(reversed(order))
        return self._rpo

    def dominators(self):
        """immediate dominators (Cooper-Harvey-Kennedy)"""
        if self._dom is None:
            rpo = self.rpo()
            idx = {b: i for i, b in enumerate(rpo)}
            idom = {0: 0}
            changed = True
            while changed:
                changed = False
                for b in rpo[1:]:
                    ps = [p for p in self.pred[b] if p in idom]
                    if not ps:
                        continue
                    new = ps[0]
                    for p in ps[1:]:
                        a, c = p, new
                        while a != c:
                            while idx[a] > idx[c]:
                                a = idom[a]
                            while idx[c] > idx[a]:
                                c = idom[c]
                        new = a
                    if idom.get(b) != new:
                        idom[b] = new
                        changed = True
            self._dom = idom
        return self._dom

    def dominates(self, a, b):
        idom = self.dominators()
        if b not in idom:
            return False
        while True:
            if a == b:
                return True
            if b == 0:
                return False
            b = idom[b]

    def back_edges(self):
        out = []
        for b in self.reach:
            for s in self.succ[b]:
                if self.dominates(s, b):
                    out.append((b, s))
        return out

    def reaches_without(self, src, dst_set, avoid):
        """is some block of dst_set reachable from src along a path avoiding blocks in `avoid`"""
        seen = set()
        st = [src]
        while st:
            x = st.pop()
            if x in seen or x in avoid:
                continue
            seen.add(x)
            if x in dst_set:
                return True
            st.extend(self.succ[x])
        return False


# ---- MIR pretty printer (exploration / replay files) ---------------------------------------

def pp_place(p):
    s = "_%d" % p["l"]
    for e in p["p"]:
        if e == "*":
            s = "(*%s)" % s
        elif e[0] == "f":
            s = "%s.%d" % (s, e[1])
        elif e[0] == "d":
            s = "(%s as %s)" % (s, e[2] if e[2] else e[1])
        elif e[0] == "i":
            s = "%s[_%d]" % (s, e[1])
        elif e[0] == "ci":
            s = "%s[%s%d]" % (s, "-" if e[3] else "", e[1])
        else:
            s = "%s{%s}" % (s, e)
    return s


def pp_val(v, lim=60):
    s = json.dumps(v) if not isinstance(v, str) else repr(v)
    return s if len(s) <= lim else s[:lim] + "…"


def pp_op(o):
    k = o["k"]
    if k in ("copy", "move"):
        return ("" if k == "copy" else "move ") + pp_place(o["pl"])
    if k == "const":
        if "fn" in o:
            return "fn:" + o["fn"]
        s = "const"
        if "def" in o:
            s += " " + o["def"] + ("[p%d]" % o["promoted"] if "promoted" in o else "")
        if "v" in o:
            s += " " + pp_val(o["v"])
        return s
    return str(o)


def pp_rv(rv):
    k = rv["k"]
    if k == "use":
        return pp_op(rv["x"])
    if k == "bin":
        return "%s(%s, %s)" % (rv["op"], pp_op(rv["l"]), pp_op(rv["r"]))
    if k == "un":
        return "%s(%s)" % (rv["op"], pp_op(rv["x"]))
    if k == "cast":
        return "%s as #%d [%s]" % (pp_op(rv["x"]), rv["to"], rv["ck"])
    if k == "agg":
        head = rv.get("adt", rv.get("def", rv["ak"]))
        if "variant" in rv:
            head += "::" + rv["variant"]
        return "%s{%s}" % (head, ", ".join(pp_op(x) for x in rv["fields"]))
    if k == "discr":
        return "discr(%s)" % pp_place(rv["pl"])
    if k in ("ref", "rawptr"):
        return "&%s%s" % ("mut " if rv.get("mut") else "", pp_place(rv["pl"]))
    if k == "repeat":
        return "[%s; %s]" % (pp_op(rv["x"]), rv["n"])
    return str(rv)


def pp_term(t):
    k = t["k"]
    if k == "goto":
        return "goto bb%d" % t["target"]
    if k == "switch":
        return "switch %s [%s, else bb%d]" % (pp_op(t["discr"]), ", ".join("%d→bb%d" % (v, b) for v, b in t["targets"]), t["otherwise"])
    if k == "call":
        c = t["callee"]
        name = c.get("resolved") or c.get("def") or ("indirect " + pp_op(c["indirect"]))
        if c.get("resolved") is None and "def" in c:
            name = "?" + name
        return "%s = %s(%s) → %s" % (pp_place(t["dest"]), name, ", ".join(pp_op(a) for a in t["args"]),
                                    "bb%d" % t["target"] if t["target"] is not None else "!")
    if k == "assert":
        extra = ""
        if t["ak"] == "Overflow":
            extra = "%s(%s, %s)" % (t["op"], pp_op(t["l"]), pp_op(t["r"]))
        elif t["ak"] == "BoundsCheck":
            extra = "len=%s idx=%s" % (pp_op(t["len"]), pp_op(t["index"]))
        elif "l" in t:
            extra = pp_op(t["l"])
        return "assert(%s == %s) %s %s → bb%d" % (pp_op(t["cond"]), t["expected"], t["ak"], extra, t["target"])
    if k == "drop":
        return "drop(%s) → bb%d" % (pp_place(t["pl"]), t["target"])
    return k


def pp_fn(prog, path, out=sys.stdout):
    f = prog.fn(path)
    m = f["mir"]
    out.write("fn %s  [%s:%s]\n" % (path, f.get("file"), f.get("line")))
    names = {}
    for n, p in m["names"].items():
        if not p["p"]:
            names[p["l"]] = n
    for i, t in enumerate(m["locals"]):
        out.write("  let _%d: %s%s\n" % (i, prog.ty_s(t), "  // " + names[i] if i in names else ""))
    for i, b in enumerate(m["blocks"]):
        if b.get("cleanup"):
            continue
        out.write(" bb%d:\n" % i)
        for s in b["s"]:
            if s["k"] == "assign":
                out.write("    %s = %s   // %d\n" % (pp_place(s["pl"]), pp_rv(s["rv"]), s["ln"]))
            else:
                out.write("    %s\n" % json.dumps(s)[:200])
        out.write("    %s   // %d\n" % (pp_term(b["t"]), b["t"]["ln"]))


if __name__ == "__main__":
    cfgname = "default"
    args = sys.argv[1:]
    if args and args[0].startswith("--config="):
        cfgname = args.pop(0).split("=", 1)[1]
    P = Prog(cfgname)
    for a in args:
        if a.startswith("?"):
            for n in sorted(P.fns):
                if a[1:] in n:
                    print(n)
        else:
            pp_fn(P, a)
