"""E1 front end for the property modules: run the abstract interpreter over a root set, classify obligations
(discharged / justified / undischarged) and hand them to a Check."""
import os
import re

from absint import Engine
from roots import root_sets

VERIF = os.path.dirname(os.path.dirname(os.path.abspath(__file__)))
_cache = {}


def load_justifications():
    out = {}
    p = os.path.join(VERIF, "specs", "justifications.txt")
    if os.path.exists(p):
        for line in open(p):
            line = line.rstrip("\n")
            if not line or line.startswith("#"):
                continue
            m = re.match(r"^(.*?) \| (\S+) \| (.*?) :: (.*)$", line)
            if m:
                out[(m.group(1), m.group(2), m.group(3))] = m.group(4)
    return out


def run_engine(P, tier="quick", extra_roots=()):
    key = (P.config, tier, tuple(extra_roots))
    if key in _cache:
        return _cache[key]
    E_, D, I = root_sets(P)
    roots = list(E_) + [r for r in extra_roots if r not in E_]
    if tier == "thorough":
        roots += [r for r in I if r not in roots]
    eng = Engine(P, depth_limit=12 if tier == "quick" else 16)
    failed = []
    for r in roots:
        try:
            eng.analyse_root(r)
        except Exception as e:  # fail closed: reported by the caller
            failed.append((r, repr(e)))
    res = {"engine": eng, "roots": roots, "E": E_, "D": D, "I": I, "failed": failed}
    _cache[key] = res
    return res


def report(chk, P, res, rid, desc, fn_filter=None, kinds=None, floor=1):
    """one rule instance per obligation (site) in scope; undischarged ones must be justified by name"""
    eng = res["engine"]
    just = load_justifications()
    chk.rule(rid, desc, floor=floor)
    used = 0
    nj = 0
    for (fn, key), o in sorted(eng.obl.items(), key=lambda kv: (kv[0][0], kv[1].ln, kv[1].desc)):
        if fn_filter is not None and not fn_filter(fn):
            continue
        if kinds is not None and o.kind not in kinds:
            continue
        inst = "%s | %s | %s" % (fn, o.kind, o.desc)
        if not o.bad:
            chk.ok(inst, "discharged in %d context(s)" % o.ok, rid=rid)
            continue
        j = just.get((fn, o.kind, o.desc))
        if j is not None:
            nj += 1
            chk.ok(inst, "justified: " + j, rid=rid)
            continue
        chk.bad(inst, "%s obligation not discharged: %s [%s]; reached via %s" % (o.kind, o.desc, o.detail or "", o.bad[0] if o.bad else "?"),
                loc=P.loc(fn, o.ln), rid=rid)
    for r, e in res["failed"]:
        if fn_filter is None or fn_filter(r):
            chk.bad("engine-failure:" + r, "abstract interpreter failed on root %s: %s" % (r, e), rid=rid)
    chk.extra.setdefault("absint", {})[rid] = {"justified": nj, "contexts": eng.contexts, "functions": len(eng.fn_analysed), "roots": len(res["roots"])}
    return nj


if __name__ == "__main__":
    import sys
    from core import Prog
    P = Prog(sys.argv[1] if len(sys.argv) > 1 else "default")
    res = run_engine(P, sys.argv[2] if len(sys.argv) > 2 else "quick")
    just = load_justifications()
    eng = res["engine"]
    for (fn, key), o in sorted(eng.obl.items(), key=lambda kv: (kv[0][0], kv[1].ln)):
        if o.bad and (fn, o.kind, o.desc) not in just:
            print("%s | %s | %s :: TODO %s @%s" % (fn, o.kind, o.desc, (o.detail or "")[:80], o.ln))
