"""E1 front end for the property modules: run the abstract interpreter over a root set, classify obligations
(discharged / justified / undischarged) and hand them to a Check."""
import os
import re

from absint import Engine
from roots import root_sets

VERIF = os.path.dirname(os.path.dirname(os.path.abspath(__file__)))
_cache = {}
_TIMELIKE = ["naive::time::NaiveTime", "naive::datetime::NaiveDateTime", "datetime::DateTime<Tz>"]
GENERIC_ROOT_INSTANCES = {
    "<T as round::SubsecRound>::round_subsecs": _TIMELIKE,
    "<T as round::SubsecRound>::trunc_subsecs": _TIMELIKE,
}


SITES = {}


def load_justifications():
    out = {}
    p = os.path.join(VERIF, "specs", "justifications.txt")
    if os.path.exists(p):
        for line in open(p):
            line = line.rstrip("\n")
            if not line or line.startswith("#"):
                continue
            m = re.match(r"^(.*?) \| (\S+) \| (.*?) :: (.*)$", line)
            if m:
                reason = m.group(4)
                n = re.search(r" #sites=(\d+)$", reason)
                SITES[(m.group(1), m.group(2), m.group(3))] = int(n.group(1)) if n else None
                out[(m.group(1), m.group(2), m.group(3))] = reason
    return out


_IDENT = re.compile(r"(?<![A-Za-z0-9_:.])([a-z_][a-z0-9_]*)(?![A-Za-z0-9_(:])")


def norm_desc(desc):
    """the description with the names of locals abstracted (operators, callee names, constants and field numbers stay): `Sub(prevlen,len(&s))` -> `Sub(_,len(&_))`"""
    return _IDENT.sub(lambda m: m.group(1) if m.group(1) in ("as", "const", "tuple", "self", "i8", "i16", "i32", "i64", "i128", "isize", "u8", "u16", "u32", "u64", "u128", "usize", "bool", "char", "str") or m.group(1).startswith("arg") else "_", desc)


def with_renames(just, obl):
    """justifications extended to sites whose description differs from a reviewed one only in the names of locals: (fn, kind) must agree, the normalised
    descriptions must be equal, the reviewed description must no longer occur in that function, and the match must be unique"""
    out = dict(just)
    present = {(fn, o.kind, o.desc) for (fn, key), o in obl.items()}
    by = {}
    for (fn, kind, desc), reason in just.items():
        if (fn, kind, desc) not in present:
            by.setdefault((fn, kind, norm_desc(desc)), []).append((desc, reason))
    for (fn, key), o in obl.items():
        k = (fn, o.kind, o.desc)
        if k in just:
            continue
        c = by.get((fn, o.kind, norm_desc(o.desc)), [])
        if len(c) == 1:
            out[k] = c[0][1] + " [matched modulo renamed locals; reviewed as `%s`]" % c[0][0]
            SITES[k] = SITES.get((fn, o.kind, c[0][0]))
    return out


def run_engine(P, tier="quick", extra_roots=()):
    key = (P.config, tier, tuple(extra_roots))
    if key in _cache:
        return _cache[key]
    E_, D, I = root_sets(P)
    roots = list(E_) + [r for r in extra_roots if r not in E_]
    if tier == "thorough":
        roots += [r for r in I if r not in roots]
    eng = Engine(P, depth_limit=32 if tier == "quick" else 40)
    eng.docpanic = set(D)
    eng.just = load_justifications()
    from roots import deprecated
    eng.deprecated = set(n for n in D if deprecated(P, n, P.fns[n]))
    failed = []
    for r in roots:
        try:
            if r in GENERIC_ROOT_INSTANCES:
                # blanket impl over a bounded type parameter: analysed once per in-crate type that satisfies the bounds
                f = P.fn(r)
                m = f["mir"]
                for tyname in GENERIC_ROOT_INSTANCES[r]:
                    tid = next((i for i, t_ in enumerate(P.tys) if t_["s"] == tyname), None)
                    if tid is None:
                        raise RuntimeError("type %s not found for generic root %s" % (tyname, r))
                    args = tuple(("t", tid) if i == 1 else ("t", m["locals"][i]) for i in range(1, m["argc"] + 1))
                    eng.analyse(r, args, 0)
            else:
                eng.analyse_root(r)
        except Exception as e:  # fail closed: reported by the caller
            failed.append((r, repr(e)))
    res = {"engine": eng, "roots": roots, "E": E_, "D": D, "I": I, "failed": failed}
    _cache[key] = res
    return res


def report(chk, P, res, rid, desc, fn_filter=None, kinds=None, floor=1):
    """one rule instance per obligation (site) in scope; undischarged ones must be justified by name"""
    eng = res["engine"]
    just = with_renames(load_justifications(), eng.obl)
    chk.rule(rid, desc, floor=floor)
    # one rule per build configuration shares its violation keys: the same site is one finding
    key_rule = "ABSINT" if rid.split(".")[-1] in ("default", "serde", "locales", "nodefault") else None
    nj = 0
    # a justification was reviewed for the source lines that carried that description then: more lines with the same description are new sites
    lines_of = {}
    for (fn, key), o in eng.obl.items():
        if o.bad and (fn, o.kind, o.desc) in just:
            lines_of.setdefault((fn, o.kind, o.desc), set()).add(o.ln)
    for (fn, key), o in sorted(eng.obl.items(), key=lambda kv: (kv[0][0], kv[1].ln, kv[1].desc)):
        if fn_filter is not None and not fn_filter(fn):
            continue
        if kinds is not None and o.kind not in kinds:
            continue
        inst = "%s | %s | %s" % (fn, o.kind, o.desc)
        if not o.bad:
            chk.ok(inst, "discharged in %d context(s)%s" % (o.ok, ", %d inside a documented panicker" % o.doc if o.doc else ""), rid=rid)
            continue
        j = just.get((fn, o.kind, o.desc))
        if j is not None:
            allowed = SITES.get((fn, o.kind, o.desc))
            have = lines_of.get((fn, o.kind, o.desc), set())
            if allowed is not None and len(have) > allowed and o.ln == max(have):
                chk.bad(inst + " (additional site)", "%s obligation `%s` is undischarged on %d source lines of %s but its justification was reviewed for %d: a new site with the same description "
                        "(line %s) needs its own review" % (o.kind, o.desc, len(have), fn, allowed, o.ln), loc=P.loc(fn, o.ln), rid=rid, key_rule=key_rule)
                continue
            nj += 1
            chk.ok(inst, "justified: " + j, rid=rid)
            continue
        if os.environ.get("VERIF_RESIDUE"):
            with open(os.environ["VERIF_RESIDUE"], "a") as fh:
                fh.write("%s :: TODO %s @%s\n" % (inst, (o.detail or "")[:100], o.ln))
        chk.bad(inst, "%s obligation not discharged: %s [%s]; reached via %s" % (o.kind, o.desc, o.detail or "", o.bad[0] if o.bad else "?"),
                loc=P.loc(fn, o.ln), rid=rid, key_rule=key_rule)
    for r, e in res["failed"]:
        if fn_filter is None or fn_filter(r):
            chk.bad("engine-failure:" + r, "abstract interpreter failed on root %s: %s" % (r, e), rid=rid)
    chk.extra.setdefault("absint", {})[rid] = {"justified": nj, "contexts": eng.contexts, "functions": len(eng.fn_analysed), "roots": len(res["roots"]),
                                                 "depth_fallbacks_to_full_range_summary": eng.cutoffs}
    return nj


if __name__ == "__main__":
    import sys
    from core import Prog
    P = Prog(sys.argv[1] if len(sys.argv) > 1 else "default")
    res = run_engine(P, sys.argv[2] if len(sys.argv) > 2 else "quick")
    just = load_justifications()
    eng = res["engine"]
    for (fn, key), o in sorted(eng.obl.items(), key=lambda kv: (kv[0][0], kv[1].ln)):
        if o.bad and (fn, o.kind, o.desc) not in just:
            print("%s | %s | %s :: TODO %s @%s" % (fn, o.kind, o.desc, (o.detail or "")[:80], o.ln))
