"""Models of the std / core / alloc functions chrono calls: result abstraction and panic condition.
A callee without a model returns an unknown value of its result type and is counted (evidence lists them);
the callees that can panic are all modelled here."""
from absint import BOT, BOOL, TRUE, FALSE, MAXLEN, irange
from absfn import UNK, proj_of, refine_cmp
import abscall

OPT = "std::option::Option"
RES = "std::result::Result"
CF = "std::ops::ControlFlow"
ORD = "std::cmp::Ordering"


def some(x):
    return ("e", OPT, ((1, (x,)),))


NONE = ("e", OPT, ((0, ()),))


def opt(x, none=True, is_some=True):
    vs = []
    if none:
        vs.append((0, ()))
    if is_some and x != BOT:
        vs.append((1, (x,)))
    if not vs:
        return BOT
    return ("e", OPT, tuple(vs))


def res(ok=None, err=None):
    vs = []
    if ok is not None and ok != BOT:
        vs.append((0, (ok,)))
    if err is not None and err != BOT:
        vs.append((1, (err,)))
    if not vs:
        return BOT
    return ("e", RES, tuple(vs))


def build(E):
    M = {}

    def dv(F, st, a):
        """dereferenced, expanded value of an argument"""
        av = abscall.deref_val(F, st, a[0])
        return E.expand(av) if av not in (BOT,) else av

    def ival(F, st, a):
        av = abscall.deref_val(F, st, a[0])
        if av == BOT:
            return None
        if av[0] == "i":
            return av
        ty = a[1]
        if ty is not None:
            t = E.ty(ty)
            while t.get("k") == "ref":
                ty = t["inner"]
                t = E.ty(ty)
        return F.as_int(av, ty)

    def enum_parts(F, st, a):
        av = dv(F, st, a)
        if av == BOT:
            return None
        if av[0] == "e":
            return dict(av[2])
        if a[1] is not None:
            ex = E.expand(("t", a[1]))
            if ex[0] == "r":
                ex = E.expand(ex[1][1])
            if ex[0] == "e":
                return dict(ex[2])
        return None

    def dest_ty(F, t):
        d = t["dest"]
        ty = F.ltys[d["l"]]
        for e in d["p"]:
            if e != "*" and e[0] == "f":
                ty = e[2]
        return ty

    def top_dest(F, t):
        return ("t", dest_ty(F, t))

    def dest_enum_payload_ty(F, t, vidx):
        ex = E.expand(("t", dest_ty(F, t)))
        if ex[0] == "e":
            fl = dict(ex[2]).get(vidx)
            if fl:
                return fl[0]
        return UNK

    # ---- Option / Result ----------------------------------------------------------------
    def unwrap_like(kind, good, what):
        def m(F, bi, st, t, args):
            d = enum_parts(F, st, args[0])
            desc = "%s(%s)" % (what, F.d_op(t["args"][0]) if t["args"] else "?")
            if d is None:
                F.oblige(bi, "unwrap", desc, t["ln"], False, "argument is not known")
                return None
            ok = all(v == good for v in d)
            F.oblige(bi, "unwrap", desc, t["ln"], ok, "argument may be %s" % ("None" if kind == "opt" else ("Err" if good == 0 else "Ok")))
            if good in d and d[good]:
                return d[good][0]
            if good in d:
                return None
            return BOT
        return m

    M["std::option::Option::<T>::unwrap"] = unwrap_like("opt", 1, "unwrap")
    M["std::option::Option::<T>::expect"] = unwrap_like("opt", 1, "expect")
    M["std::result::Result::<T, E>::unwrap"] = unwrap_like("res", 0, "unwrap")
    M["std::result::Result::<T, E>::expect"] = unwrap_like("res", 0, "expect")
    M["std::result::Result::<T, E>::unwrap_err"] = unwrap_like("res", 1, "unwrap_err")

    def opt_branch(F, bi, st, t, args):
        d = enum_parts(F, st, args[0])
        if d is None:
            return None
        vs = []
        if 1 in d:
            vs.append((0, (d[1][0],)))           # Continue(x)
        if 0 in d:
            vs.append((1, (NONE,)))              # Break(None)
        return ("e", CF, tuple(vs)) if vs else BOT
    M["<std::option::Option<T> as std::ops::Try>::branch"] = opt_branch

    def res_branch(F, bi, st, t, args):
        d = enum_parts(F, st, args[0])
        if d is None:
            return None
        vs = []
        if 0 in d:
            vs.append((0, (d[0][0],)))
        if 1 in d:
            vs.append((1, (("e", RES, ((1, (d[1][0],)),)),)))
        return ("e", CF, tuple(vs)) if vs else BOT
    M["<std::result::Result<T, E> as std::ops::Try>::branch"] = res_branch

    def from_residual_opt(F, bi, st, t, args):
        return NONE
    M["<std::option::Option<T> as std::ops::FromResidual<std::option::Option<std::convert::Infallible>>>::from_residual"] = from_residual_opt

    def from_residual_res(F, bi, st, t, args):
        # Err(From::from(e)): the error payload type may change
        return ("e", RES, ((1, (dest_enum_payload_ty(F, t, 1),)),))
    M["<std::result::Result<T, F> as std::ops::FromResidual<std::result::Result<std::convert::Infallible, E>>>::from_residual"] = from_residual_res

    def call_closure(F, bi, st, t, fav, vals):
        return abscall.invoke(F, bi, st, t, fav, vals, None)

    def opt_map(F, bi, st, t, args):
        d = enum_parts(F, st, args[0])
        if d is None:
            abscall.analyse_closure_args(F, bi, st, t, args[1][0])
            return None
        r = BOT
        if 1 in d:
            x = call_closure(F, bi, st, t, args[1][0], [d[1][0]])
            if x is not None and x != BOT:
                r = some(x if x[0] != "unk" else dest_enum_payload_ty(F, t, 1))
        if 0 in d:
            r = E.join(r, NONE)
        return r
    M["std::option::Option::<T>::map"] = opt_map

    def opt_and_then(F, bi, st, t, args):
        d = enum_parts(F, st, args[0])
        if d is None:
            abscall.analyse_closure_args(F, bi, st, t, args[1][0])
            return None
        r = BOT
        if 1 in d:
            x = call_closure(F, bi, st, t, args[1][0], [d[1][0]])
            if x is not None and x != BOT:
                r = x if x[0] != "unk" else top_dest(F, t)
        if 0 in d:
            r = E.join(r, NONE)
        return r
    M["std::option::Option::<T>::and_then"] = opt_and_then

    def opt_filter(F, bi, st, t, args):
        d = enum_parts(F, st, args[0])
        if d is None:
            abscall.analyse_closure_args(F, bi, st, t, args[1][0])
            return None
        if 1 in d:
            call_closure(F, bi, st, t, args[1][0], [("r", ("val", d[1][0]))])
            return opt(d[1][0], True, True)
        return NONE
    M["std::option::Option::<T>::filter"] = opt_filter

    def opt_map_or(F, bi, st, t, args):
        d = enum_parts(F, st, args[0])
        if d is None:
            abscall.analyse_closure_args(F, bi, st, t, args[2][0])
            return None
        r = BOT
        if 1 in d:
            x = call_closure(F, bi, st, t, args[2][0], [d[1][0]])
            if x is not None:
                r = x if x[0] != "unk" else top_dest(F, t)
        if 0 in d:
            r = E.join(r, args[1][0])
        return r
    M["std::option::Option::<T>::map_or"] = opt_map_or

    def opt_ok_or(F, bi, st, t, args):
        d = enum_parts(F, st, args[0])
        if d is None:
            return None
        return res(d[1][0] if 1 in d else None, args[1][0] if 0 in d else None)
    M["std::option::Option::<T>::ok_or"] = opt_ok_or

    def opt_ok_or_else(F, bi, st, t, args):
        d = enum_parts(F, st, args[0])
        if d is None:
            abscall.analyse_closure_args(F, bi, st, t, args[1][0])
            return None
        e = None
        if 0 in d:
            e = call_closure(F, bi, st, t, args[1][0], [])
            if e is None or e[0] == "unk":
                e = dest_enum_payload_ty(F, t, 1)
        return res(d[1][0] if 1 in d else None, e)
    M["std::option::Option::<T>::ok_or_else"] = opt_ok_or_else

    def opt_or(F, bi, st, t, args):
        d = enum_parts(F, st, args[0])
        if d is None:
            return None
        r = BOT
        if 1 in d:
            r = some(d[1][0])
        if 0 in d:
            r = E.join(r, E.expand(args[1][0]))
        return r
    M["std::option::Option::<T>::or"] = opt_or

    def opt_or_else(F, bi, st, t, args):
        d = enum_parts(F, st, args[0])
        if d is None:
            abscall.analyse_closure_args(F, bi, st, t, args[1][0])
            return None
        r = BOT
        if 1 in d:
            r = some(d[1][0])
        if 0 in d:
            x = call_closure(F, bi, st, t, args[1][0], [])
            r = E.join(r, x if x is not None and x[0] != "unk" else top_dest(F, t))
        return r
    M["std::option::Option::<T>::or_else"] = opt_or_else

    def opt_unwrap_or(F, bi, st, t, args):
        d = enum_parts(F, st, args[0])
        if d is None:
            return None
        r = BOT
        if 1 in d:
            r = d[1][0]
        if 0 in d:
            r = E.join(r, args[1][0])
        return r
    M["std::option::Option::<T>::unwrap_or"] = opt_unwrap_or

    def opt_unwrap_or_else(F, bi, st, t, args):
        d = enum_parts(F, st, args[0])
        if d is None:
            abscall.analyse_closure_args(F, bi, st, t, args[1][0])
            return None
        r = BOT
        if 1 in d:
            r = d[1][0]
        if 0 in d:
            x = call_closure(F, bi, st, t, args[1][0], [])
            r = E.join(r, x if x is not None and x[0] != "unk" else top_dest(F, t))
        return r
    M["std::option::Option::<T>::unwrap_or_else"] = opt_unwrap_or_else

    def opt_is_some(F, bi, st, t, args):
        d = enum_parts(F, st, args[0])
        if d is None:
            return BOOL
        if set(d) == {1}:
            return TRUE
        if set(d) == {0}:
            return FALSE
        return BOOL
    M["std::option::Option::<T>::is_some"] = opt_is_some

    def opt_is_none(F, bi, st, t, args):
        r = opt_is_some(F, bi, st, t, args)
        return ("i", 1 - r[2], 1 - r[1])
    M["std::option::Option::<T>::is_none"] = opt_is_none

    def opt_as_ref(F, bi, st, t, args):
        d = enum_parts(F, st, args[0])
        if d is None:
            return None
        vs = []
        if 0 in d:
            vs.append((0, ()))
        if 1 in d:
            vs.append((1, (("r", ("val", d[1][0])),)))
        return ("e", OPT, tuple(vs))
    M["std::option::Option::<T>::as_ref"] = opt_as_ref
    M["std::option::Option::<T>::as_deref"] = lambda F, bi, st, t, args: None

    def opt_copied(F, bi, st, t, args):
        d = enum_parts(F, st, args[0])
        if d is None:
            return None
        vs = []
        if 0 in d:
            vs.append((0, ()))
        if 1 in d:
            x = abscall.deref_val(F, st, d[1][0])
            vs.append((1, (x if x[0] != "unk" else dest_enum_payload_ty(F, t, 1),)))
        return ("e", OPT, tuple(vs))
    M["std::option::Option::<&T>::copied"] = opt_copied
    M["std::option::Option::<&T>::cloned"] = opt_copied

    def res_map(F, bi, st, t, args):
        d = enum_parts(F, st, args[0])
        if d is None:
            abscall.analyse_closure_args(F, bi, st, t, args[1][0])
            return None
        ok = None
        if 0 in d:
            ok = call_closure(F, bi, st, t, args[1][0], [d[0][0]])
            if ok is None or ok[0] == "unk":
                ok = dest_enum_payload_ty(F, t, 0)
        return res(ok, d[1][0] if 1 in d else None)
    M["std::result::Result::<T, E>::map"] = res_map

    def res_map_err(F, bi, st, t, args):
        d = enum_parts(F, st, args[0])
        if d is None:
            abscall.analyse_closure_args(F, bi, st, t, args[1][0])
            return None
        er = None
        if 1 in d:
            er = call_closure(F, bi, st, t, args[1][0], [d[1][0]])
            if er is None or er[0] == "unk":
                er = dest_enum_payload_ty(F, t, 1)
        return res(d[0][0] if 0 in d else None, er)
    M["std::result::Result::<T, E>::map_err"] = res_map_err

    def res_ok(F, bi, st, t, args):
        d = enum_parts(F, st, args[0])
        if d is None:
            return None
        return opt(d[0][0] if 0 in d else BOT, 1 in d, 0 in d)
    M["std::result::Result::<T, E>::ok"] = res_ok

    def res_unwrap_or(F, bi, st, t, args):
        d = enum_parts(F, st, args[0])
        if d is None:
            return None
        r = BOT
        if 0 in d:
            r = d[0][0]
        if 1 in d:
            r = E.join(r, args[1][0])
        return r
    M["std::result::Result::<T, E>::unwrap_or"] = res_unwrap_or

    def res_unwrap_or_else(F, bi, st, t, args):
        d = enum_parts(F, st, args[0])
        if d is None:
            abscall.analyse_closure_args(F, bi, st, t, args[1][0])
            return None
        r = BOT
        if 0 in d:
            r = d[0][0]
        if 1 in d:
            x = call_closure(F, bi, st, t, args[1][0], [d[1][0]])
            r = E.join(r, x if x is not None and x[0] != "unk" else top_dest(F, t))
        return r
    M["std::result::Result::<T, E>::unwrap_or_else"] = res_unwrap_or_else

    # ---- integers --------------------------------------------------------------------------
    def int_ty_range(name):
        bits = int("".join(ch for ch in name if ch.isdigit()) or 64)
        return irange(bits, name.startswith("i"))

    def checked(op):
        def mk(tyname):
            rng = int_ty_range(tyname)

            def m(F, bi, st, t, args):
                a, b = ival(F, st, args[0]), ival(F, st, args[1])
                if a is None or b is None:
                    return opt(("i", rng[0], rng[1]))
                if op == "add":
                    lo, hi = a[1] + b[1], a[2] + b[2]
                elif op == "sub":
                    lo, hi = a[1] - b[2], a[2] - b[1]
                else:
                    c = [a[1] * b[1], a[1] * b[2], a[2] * b[1], a[2] * b[2]]
                    lo, hi = min(c), max(c)
                none = lo < rng[0] or hi > rng[1]
                lo2, hi2 = max(lo, rng[0]), min(hi, rng[1])
                return opt(("i", lo2, hi2) if lo2 <= hi2 else BOT, none, lo2 <= hi2)
            return m
        return mk

    def saturating(op):
        def mk(tyname):
            rng = int_ty_range(tyname)

            def m(F, bi, st, t, args):
                a, b = ival(F, st, args[0]), ival(F, st, args[1]) if len(args) > 1 else None
                if a is None or (len(args) > 1 and b is None):
                    return ("i", rng[0], rng[1])
                if op == "add":
                    lo, hi = a[1] + b[1], a[2] + b[2]
                elif op == "sub":
                    lo, hi = a[1] - b[2], a[2] - b[1]
                elif op == "abs":
                    lo, hi = abs_iv(a)
                return ("i", min(max(lo, rng[0]), rng[1]), max(min(hi, rng[1]), rng[0]))
            return m
        return mk

    def abs_iv(a):
        if a[1] >= 0:
            return a[1], a[2]
        if a[2] <= 0:
            return -a[2], -a[1]
        return 0, max(-a[1], a[2])

    def euclid(which):
        def mk(tyname):
            rng = int_ty_range(tyname)

            def m(F, bi, st, t, args):
                a, b = ival(F, st, args[0]), ival(F, st, args[1])
                desc = "%s_euclid(%s,%s)" % (which, F.d_op(t["args"][0]), F.d_op(t["args"][1]))
                if a is None or b is None:
                    F.oblige(bi, "div-by-zero", desc, t["ln"], False, "operands unknown")
                    return ("i", rng[0], rng[1])
                zero = b[1] <= 0 <= b[2]
                ovf = rng[0] < 0 and a[1] == rng[0] and b[1] <= -1 <= b[2]
                F.oblige(bi, "div-by-zero", desc, t["ln"], not (zero or ovf), "divisor in [%d, %d]" % (b[1], b[2]))
                mabs = max(abs(b[1]), abs(b[2]))
                if which == "rem":
                    if mabs == 0:
                        return BOT
                    hi = mabs - 1
                    if a[1] >= 0 and a[2] < hi:
                        return ("i", a[1] if a[2] < min(abs(b[1]), abs(b[2])) or False else 0, a[2])
                    return ("i", 0, hi)
                # div_euclid
                if b[1] > 0:
                    c = [fdiv(a[1], b[1]), fdiv(a[1], b[2]), fdiv(a[2], b[1]), fdiv(a[2], b[2])]
                    return ("i", min(c), max(c))
                if b[2] < 0:
                    m1 = max(abs(a[1]), abs(a[2])) + 1
                    return ("i", max(-m1, rng[0]), min(m1, rng[1]))
                m1 = max(abs(a[1]), abs(a[2])) + 1
                return ("i", max(-m1, rng[0]), min(m1, rng[1]))
            return m
        return mk

    def fdiv(x, y):
        return x // y

    def int_abs(tyname):
        rng = int_ty_range(tyname)

        def m(F, bi, st, t, args):
            a = ival(F, st, args[0])
            desc = "abs(%s)" % F.d_op(t["args"][0])
            if a is None:
                F.oblige(bi, "overflow", desc, t["ln"], False, "operand unknown")
                return ("i", 0, rng[1])
            F.oblige(bi, "overflow", desc, t["ln"], a[1] > rng[0], "operand may be %s::MIN" % tyname)
            lo, hi = abs_iv(a)
            return ("i", lo, min(hi, rng[1]))
        return m

    for tn in ("i8", "i16", "i32", "i64", "i128", "isize", "u8", "u16", "u32", "u64", "u128", "usize"):
        p = "core::num::<impl %s>::" % tn
        M[p + "checked_add"] = checked("add")(tn)
        M[p + "checked_sub"] = checked("sub")(tn)
        M[p + "checked_mul"] = checked("mul")(tn)
        M[p + "saturating_add"] = saturating("add")(tn)
        M[p + "saturating_sub"] = saturating("sub")(tn)
        M[p + "saturating_abs"] = saturating("abs")(tn)
        M[p + "rem_euclid"] = euclid("rem")(tn)
        M[p + "div_euclid"] = euclid("div")(tn)
        M[p + "abs"] = int_abs(tn)
        bits = int("".join(ch for ch in tn if ch.isdigit()) or 64)
        M[p + "count_ones"] = (lambda b: lambda F, bi, st, t, args: ("i", 0, b))(bits)
        M[p + "leading_zeros"] = M[p + "count_ones"]
        M[p + "trailing_zeros"] = M[p + "count_ones"]
        M[p + "is_ascii_digit"] = lambda F, bi, st, t, args: BOOL
        M[p + "is_ascii_alphabetic"] = lambda F, bi, st, t, args: BOOL
        M[p + "from_be_bytes"] = lambda F, bi, st, t, args: None
        M[p + "pow"] = lambda F, bi, st, t, args: None

    def conv_from(F, bi, st, t, args):
        a = ival(F, st, args[0])
        return a
    for n in ("std::convert::num::<impl std::convert::From<i32> for i64>::from", "std::convert::num::<impl std::convert::From<u32> for i64>::from",
              "std::convert::num::<impl std::convert::From<u8> for i32>::from", "std::convert::num::<impl std::convert::From<u8> for i64>::from",
              "std::convert::num::<impl std::convert::From<u32> for u64>::from", "std::convert::num::<impl std::convert::From<u8> for u32>::from",
              "std::convert::num::<impl std::convert::From<u16> for u32>::from", "std::convert::num::<impl std::convert::From<i32> for i128>::from",
              "std::convert::num::<impl std::convert::From<i64> for i128>::from", "std::convert::num::<impl std::convert::From<u8> for usize>::from",
              "std::convert::num::<impl std::convert::From<u8> for u64>::from", "std::convert::num::<impl std::convert::From<u16> for i32>::from",
              "std::convert::num::<impl std::convert::From<u32> for i128>::from"):
        M[n] = conv_from
    # every lossless integer widening of std (From<small> for big) is the identity on values; From<bool> gives 0 / 1
    _w = {"u8": 8, "u16": 16, "u32": 32, "u64": 64, "u128": 128, "usize": 64, "i8": 8, "i16": 16, "i32": 32, "i64": 64, "i128": 128, "isize": 64}
    for a_, wa in _w.items():
        for b_, wb in _w.items():
            if a_ != b_ and (wb > wa) and not (a_.startswith("i") and b_.startswith("u")):
                M.setdefault("std::convert::num::<impl std::convert::From<%s> for %s>::from" % (a_, b_), conv_from)

    def from_bool(F, bi, st, t, args):
        a = ival(F, st, args[0])
        if a is not None and 0 <= a[1] and a[2] <= 1:
            return a
        return ("i", 0, 1)
    for b_ in _w:
        M["std::convert::num::<impl std::convert::From<bool> for %s>::from" % b_] = from_bool

    def try_from(dst):
        rng = int_ty_range(dst)

        def m(F, bi, st, t, args):
            a = ival(F, st, args[0])
            if a is None:
                return res(("i", rng[0], rng[1]), dest_enum_payload_ty(F, t, 1))
            lo, hi = max(a[1], rng[0]), min(a[2], rng[1])
            err = a[1] < rng[0] or a[2] > rng[1]
            return res(("i", lo, hi) if lo <= hi else None, dest_enum_payload_ty(F, t, 1) if err else None)
        return m
    for s_ in ("i64", "u64", "i32", "u32", "usize", "isize", "i128", "u128", "u16", "i16", "u8", "i8"):
        for d_ in ("i64", "u64", "i32", "u32", "usize", "isize", "u16", "i16", "u8", "i8"):
            M["std::convert::num::<impl std::convert::TryFrom<%s> for %s>::try_from" % (s_, d_)] = try_from(d_)
            M["std::convert::num::ptr_try_from_impls::<impl std::convert::TryFrom<%s> for %s>::try_from" % (s_, d_)] = try_from(d_)

    def into_(F, bi, st, t, args):
        a = ival(F, st, args[0])
        rng = E.int_range_of_ty(dest_ty(F, t))
        if a is not None and rng is not None and a[1] >= rng[0] and a[2] <= rng[1]:
            return a
        return None
    M["<T as std::convert::Into<U>>::into"] = into_

    def minmax(which):
        def m(F, bi, st, t, args):
            a, b = ival(F, st, args[0]), ival(F, st, args[1])
            if a is None or b is None:
                return None
            if which == "min":
                return ("i", min(a[1], b[1]), min(a[2], b[2]))
            return ("i", max(a[1], b[1]), max(a[2], b[2]))
        return m
    M["std::cmp::Ord::min"] = minmax("min")
    M["std::cmp::Ord::max"] = minmax("max")
    M["std::cmp::min"] = minmax("min")
    M["std::cmp::max"] = minmax("max")

    def contains_incl(F, bi, st, t, args):
        r = dv(F, st, args[0])
        x = ival(F, st, args[1])
        if r == BOT or r[0] != "s" or x is None:
            return BOOL
        lo, hi = F.as_int(r[1][0], None), F.as_int(r[1][1], None)
        if lo is None or hi is None:
            return BOOL
        if x[1] >= lo[2] and x[2] <= hi[1]:
            return TRUE
        if x[2] < lo[1] or x[1] > hi[2]:
            return FALSE
        return BOOL
    # refinement facts for `contains` are attached in post_call below
    M["std::ops::RangeInclusive::<Idx>::contains"] = contains_incl

    def contains_excl(F, bi, st, t, args):
        r = dv(F, st, args[0])
        x = ival(F, st, args[1])
        if r == BOT or r[0] != "s" or x is None:
            return BOOL
        lo, hi = F.as_int(r[1][0], None), F.as_int(r[1][1], None)
        if lo is None or hi is None:
            return BOOL
        if x[1] >= lo[2] and x[2] < hi[1]:
            return TRUE
        if x[2] < lo[1] or x[1] >= hi[2]:
            return FALSE
        return BOOL
    M["std::ops::Range::<Idx>::contains"] = contains_excl

    def range_new(F, bi, st, t, args):
        return ("s", (args[0][0], args[1][0], FALSE))
    M["std::ops::RangeInclusive::<Idx>::new"] = range_new

    # ---- slices / strings ---------------------------------------------------------------------
    def lenval(F, st, a):
        v = dv(F, st, a)
        if v != BOT and v[0] == "l":
            return v
        return None

    def m_len(F, bi, st, t, args):
        v = lenval(F, st, args[0])
        if v is None:
            return ("i", 0, MAXLEN)
        return ("i", v[1], v[2])
    for n in ("core::slice::<impl [T]>::len", "core::str::<impl str>::len", "std::vec::Vec::<T, A>::len", "std::string::String::len"):
        M[n] = m_len

    def m_is_empty(F, bi, st, t, args):
        v = lenval(F, st, args[0])
        if v is None:
            return BOOL
        if v[1] > 0:
            return FALSE
        if v[2] == 0:
            return TRUE
        return BOOL
    for n in ("core::slice::<impl [T]>::is_empty", "core::str::<impl str>::is_empty", "std::vec::Vec::<T, A>::is_empty"):
        M[n] = m_is_empty

    def ident_ref(F, bi, st, t, args):
        v = dv(F, st, args[0])
        if v == BOT:
            return BOT
        return ("r", ("val", v))
    for n in ("core::str::<impl str>::as_bytes", "<std::vec::Vec<T, A> as std::ops::Deref>::deref", "<std::string::String as std::ops::Deref>::deref",
              "std::clone::impls::<impl std::clone::Clone for &T>::clone", "std::string::String::as_str", "std::vec::Vec::<T, A>::as_slice"):
        M[n] = ident_ref

    def shorter(F, bi, st, t, args):
        v = lenval(F, st, args[0])
        if v is None:
            return None
        return ("r", ("val", ("l", 0, v[2], v[3])))
    for n in ("core::str::<impl str>::trim_start", "core::str::<impl str>::trim_start_matches", "core::str::<impl str>::trim_matches",
              "core::str::<impl str>::trim", "core::str::<impl str>::trim_end", "std::str::Chars::<'a>::as_str"):
        M[n] = shorter

    M["std::char::methods::<impl char>::len_utf8"] = lambda F, bi, st, t, args: ("i", 1, 4)

    def index_model(kind):
        def m(F, bi, st, t, args):
            v = lenval(F, st, args[0])
            idx = E.expand(args[1][0])
            ity = E.ty(args[1][1]) if args[1][1] is not None else {}
            desc = "index(%s,%s)" % (F.d_op(t["args"][0]) if t["args"] else "?", F.d_op(t["args"][1]) if len(t["args"]) > 1 else "?")
            lo_len = v[1] if v else 0
            elem = v[3] if v else UNK
            if ity.get("k") in ("uint", "int") or idx[0] == "i":
                iv = F.as_int(idx, args[1][1])
                ok = iv is not None and iv[1] >= 0 and iv[2] < lo_len
                F.oblige(bi, "bounds", desc, t["ln"], ok, "index in %s, length >= %d" % ("[%d, %d]" % (iv[1], iv[2]) if iv else "?", lo_len))
                return ("r", ("val", elem))
            adt = ity.get("adt", "")
            rng = idx
            if rng[0] != "s":
                F.oblige(bi, "bounds", desc, t["ln"], False, "range unknown")
                return ("r", ("val", ("l", 0, v[2] if v else MAXLEN, elem)))
            f = [F.as_int(x, None) for x in rng[1]]
            hi_len = v[2] if v else MAXLEN
            if adt.endswith("RangeFrom") and f[0] is not None:
                E.index_log.setdefault((F.fpath, t["ln"], kind), []).append((f[0][1], f[0][2]))
            if adt.endswith("RangeFrom"):
                a = f[0]
                ok = a is not None and a[2] <= lo_len
                new = ("l", max(lo_len - (a[2] if a else lo_len), 0), max(hi_len - (a[1] if a else 0), 0), elem)
                detail = "start in %s, length >= %d" % ("[%d, %d]" % (a[1], a[2]) if a else "?", lo_len)
                nontrivial = not (a is not None and a[2] == 0)
            elif adt.endswith("RangeTo"):
                b = f[0]
                ok = b is not None and b[2] <= lo_len
                new = ("l", b[1] if b else 0, b[2] if b else hi_len, elem)
                detail = "end in %s, length >= %d" % ("[%d, %d]" % (b[1], b[2]) if b else "?", lo_len)
                nontrivial = True
            elif adt.endswith("RangeFull"):
                ok, new, detail, nontrivial = True, v or ("l", 0, MAXLEN, elem), "", False
            elif adt.endswith("::Range"):
                a, b = f[0], f[1]
                ok = a is not None and b is not None and a[2] <= b[1] and b[2] <= lo_len
                new = ("l", max((b[1] - a[2]), 0) if a and b else 0, max(b[2] - a[1], 0) if a and b else hi_len, elem)
                detail = "range %s..%s, length >= %d" % (a, b, lo_len)
                nontrivial = True
            else:
                ok, new, detail, nontrivial = False, ("l", 0, hi_len, elem), "unknown index type " + adt, True
            okind = "bounds" if kind != "str" else "str-index"
            if kind == "str" and ok and nontrivial:
                # the byte range is inside the string; that the offsets fall on char boundaries is a separate obligation
                okind = "str-boundary"
                ok = False
                detail = "offset is within the string, but the char boundary is not established by the interval domain; " + detail
            F.oblige(bi, okind, desc, t["ln"], ok, detail)
            return ("r", ("val", new))
        return m
    M["core::slice::index::<impl std::ops::Index<I> for [T]>::index"] = index_model("slice")
    M["std::array::<impl std::ops::Index<I> for [T; N]>::index"] = index_model("slice")
    M["<std::vec::Vec<T, A> as std::ops::Index<I>>::index"] = index_model("slice")
    M["core::str::traits::<impl std::ops::Index<I> for str>::index"] = index_model("str")
    M["core::slice::index::<impl std::ops::IndexMut<I> for [T]>::index_mut"] = index_model("slice")

    def split_at_model(kind):
        """s.split_at(mid) panics like &s[..mid] / &s[mid..]: same obligations; the tail is logged like a RangeFrom slice (progress rule)"""
        def m(F, bi, st, t, args):
            v = lenval(F, st, args[0])
            mid = F.as_int(E.expand(args[1][0]), args[1][1])
            lo_len = v[1] if v else 0
            hi_len = v[2] if v else MAXLEN
            elem = v[3] if v else UNK
            desc = "split_at(%s,%s)" % (F.d_op(t["args"][0]), F.d_op(t["args"][1]))
            ok = mid is not None and mid[1] >= 0 and mid[2] <= lo_len
            if not ok and mid is not None and mid[1] >= 0 and len(t["args"]) > 1 and F.le_len(st, t["args"][1], t["args"][0], args[0][0]):
                ok = True       # relational: the path compared mid with the length of this slice
            detail = "mid in %s, length >= %d" % ("[%d, %d]" % (mid[1], mid[2]) if mid else "?", lo_len)
            okind = "bounds" if kind != "str" else "str-index"
            if kind == "str" and ok and not (mid[1] == mid[2] == 0):
                okind, ok = "str-boundary", False
                detail = "offset is within the string, but the char boundary is not established by the interval domain; " + detail
            F.oblige(bi, okind, desc, t["ln"], ok, detail)
            if mid is not None:
                E.index_log.setdefault((F.fpath, t["ln"], kind), []).append((mid[1], mid[2]))
            head = ("l", mid[1] if mid else 0, min(mid[2], hi_len) if mid else hi_len, elem)
            tail = ("l", max(lo_len - (mid[2] if mid else lo_len), 0), max(hi_len - (mid[1] if mid else 0), 0), elem)
            return ("s", (("r", ("val", head)), ("r", ("val", tail))))
        return m
    M["core::str::<impl str>::split_at"] = split_at_model("str")
    M["core::slice::<impl [T]>::split_at"] = split_at_model("slice")

    def first_last(F, bi, st, t, args):
        v = lenval(F, st, args[0])
        if v is None:
            return None
        return opt(("r", ("val", v[3])), v[1] == 0, v[2] > 0)
    M["core::slice::<impl [T]>::first"] = first_last
    M["core::slice::<impl [T]>::last"] = first_last

    def slice_get(F, bi, st, t, args):
        v = lenval(F, st, args[0])
        if v is None:
            return None
        return opt(("r", ("val", v[3])), True, v[2] > 0)
    M["core::slice::<impl [T]>::get"] = slice_get

    def split_first(F, bi, st, t, args):
        v = lenval(F, st, args[0])
        if v is None:
            return None
        rest = ("r", ("val", ("l", max(v[1] - 1, 0), max(v[2] - 1, 0), v[3])))
        return opt(("s", (("r", ("val", v[3])), rest)), v[1] == 0, v[2] > 0)
    M["core::slice::<impl [T]>::split_first"] = split_first

    def binsearch(F, bi, st, t, args):
        v = lenval(F, st, args[0])
        hi = v[2] if v else MAXLEN
        if hi == 0:
            return res(None, ("i", 0, 0))
        return res(("i", 0, max(hi - 1, 0)), ("i", 0, hi))
    M["core::slice::<impl [T]>::binary_search"] = binsearch

    def binsearch_by_key(F, bi, st, t, args):
        abscall.analyse_closure_args(F, bi, st, t, args[2][0] if len(args) > 2 else BOT)
        return binsearch(F, bi, st, t, args)
    M["core::slice::<impl [T]>::binary_search_by_key"] = binsearch_by_key

    def array_into_iter(F, bi, st, t, args):
        v = E.expand(args[0][0])
        return v if v != BOT and v[0] == "l" else None      # the by-value array iterator is abstracted by the array itself (length, join of the elements)
    M["std::array::iter::<impl std::iter::IntoIterator for [T; N]>::into_iter"] = array_into_iter

    def array_iter_next(F, bi, st, t, args):
        v = lenval(F, st, args[0])
        if v is None:
            return None
        return opt(v[3], True, v[2] > 0)
    M["<std::array::IntoIter<T, N> as std::iter::Iterator>::next"] = array_iter_next

    def partition_point(F, bi, st, t, args):
        abscall.analyse_closure_args(F, bi, st, t, args[1][0] if len(args) > 1 else BOT)
        v = lenval(F, st, args[0])
        return ("i", 0, v[2] if v else MAXLEN)
    M["core::slice::<impl [T]>::partition_point"] = partition_point

    def copy_from_slice(F, bi, st, t, args):
        a, b = lenval(F, st, args[0]), lenval(F, st, args[1])
        ok = a is not None and b is not None and a[1] == a[2] == b[1] == b[2]
        F.oblige(bi, "bounds", "copy_from_slice(%s,%s)" % (F.d_op(t["args"][0]), F.d_op(t["args"][1])), t["ln"], ok,
                 "lengths %s vs %s" % (str(a[1:3]) if a else "?", str(b[1:3]) if b else "?"))
        abscall.havoc_mut_args(F, st, t, args)
        return ("s", ())
    M["core::slice::<impl [T]>::copy_from_slice"] = copy_from_slice

    def position(F, bi, st, t, args):
        abscall.analyse_closure_args(F, bi, st, t, args[1][0] if len(args) > 1 else BOT)
        return opt(("i", 0, MAXLEN))
    M["<std::slice::Iter<'a, T> as std::iter::Iterator>::position"] = position

    def str_find(F, bi, st, t, args):
        v = lenval(F, st, args[0])
        abscall.analyse_closure_args(F, bi, st, t, args[1][0] if len(args) > 1 else BOT)
        hi = v[2] if v else MAXLEN
        return opt(("i", 0, max(hi - 1, 0)), True, hi > 0)
    M["core::str::<impl str>::find"] = str_find

    def duration_new(F, bi, st, t, args):
        n = ival(F, st, args[1])
        s_ = ival(F, st, args[0])
        ok = n is not None and n[2] < 1_000_000_000
        if not ok and s_ is not None and n is not None:
            ok = s_[2] + n[2] // 1_000_000_000 <= (1 << 64) - 1
        F.oblige(bi, "overflow", "Duration::new(%s,%s)" % (F.d_op(t["args"][0]), F.d_op(t["args"][1])), t["ln"], ok, "nanos may carry into an overflowing seconds count")
        return None
    M["std::time::Duration::new"] = duration_new
    M["std::time::Duration::as_secs"] = lambda F, bi, st, t, args: ("i", 0, (1 << 64) - 1)
    M["std::time::Duration::subsec_nanos"] = lambda F, bi, st, t, args: ("i", 0, 999_999_999)

    def always_panic_possible(kind, what):
        def m(F, bi, st, t, args):
            F.oblige(bi, kind, what, t["ln"], False, "documented to panic on failure")
            abscall.havoc_mut_args(F, st, t, args)
            return None
        return m
    M["std::cell::RefCell::<T>::borrow_mut"] = always_panic_possible("borrow", "RefCell::borrow_mut")
    M["<std::time::SystemTime as std::ops::Add<std::time::Duration>>::add"] = always_panic_possible("overflow", "SystemTime+Duration")
    M["<std::time::SystemTime as std::ops::Sub<std::time::Duration>>::sub"] = always_panic_possible("overflow", "SystemTime-Duration")
    M["std::thread::LocalKey::<T>::with"] = None  # handled below

    def localkey_with(F, bi, st, t, args):
        # the closure runs with a reference to the thread-local value
        fav = args[1][0]
        r = abscall.invoke(F, bi, st, t, fav, [("r", ("val", UNK))], None)
        return r if r is not None and r[0] != "unk" else None
    M["std::thread::LocalKey::<T>::with"] = localkey_with

    def nonzero_get(F, bi, st, t, args):
        v = dv(F, st, args[0])
        if v != BOT and v[0] == "s" and v[1]:
            x = F.as_int(E.expand(v[1][0]) if v[1][0][0] == "t" else v[1][0], None)
            if x is None and v[1][0][0] == "s":
                x = F.as_int(v[1][0][1][0], None)
            if x is not None:
                return x
        return None
    M["std::num::NonZero::<T>::get"] = nonzero_get

    def nonzero_new_unchecked(F, bi, st, t, args):
        a = ival(F, st, args[0])
        ok = a is not None and (a[1] > 0 or a[2] < 0)
        F.oblige(bi, "invariant", "NonZero::new_unchecked(%s)" % F.d_op(t["args"][0]), t["ln"], ok, "argument in %s must not be 0" % (str(a[1:3]) if a else "?"))
        return ("s", (a,)) if a else None
    M["std::num::NonZero::<T>::new_unchecked"] = nonzero_new_unchecked

    def clone_(F, bi, st, t, args):
        v = dv(F, st, args[0])
        return v if v != BOT and v[0] != "unk" else None
    for n in ("?std::clone::Clone::clone", "std::clone::Clone::clone", "<std::option::Option<T> as std::clone::Clone>::clone", "std::clone::impls::<impl std::clone::Clone for bool>::clone"):
        M[n] = clone_

    def cmp_ord(F, bi, st, t, args):
        a, b = ival(F, st, args[0]), ival(F, st, args[1])
        if a is None or b is None:
            return None
        vs = []
        if a[1] < b[2]:
            vs.append((0, ()))
        if not (a[2] < b[1] or b[2] < a[1]):
            vs.append((1, ()))
        if a[2] > b[1]:
            vs.append((2, ()))
        return ("e", ORD, tuple(vs))
    for tn in ("i8", "i16", "i32", "i64", "isize", "u8", "u16", "u32", "u64", "usize"):
        M["std::cmp::impls::<impl std::cmp::Ord for %s>::cmp" % tn] = cmp_ord

    def partial_cmp_ord(F, bi, st, t, args):
        r = cmp_ord(F, bi, st, t, args)
        return some(r) if r is not None else None
    for tn in ("i8", "i16", "i32", "i64", "isize", "u8", "u16", "u32", "u64", "usize"):
        M["std::cmp::impls::<impl std::cmp::PartialOrd for %s>::partial_cmp" % tn] = partial_cmp_ord

    # pure, non-panicking callees whose result is simply unknown
    quiet = """
<&T as std::fmt::Display>::fmt <() as std::default::Default>::default
<i32 as std::default::Default>::default <i64 as std::default::Default>::default <u8 as std::default::Default>::default
<std::fmt::Formatter<'_> as std::fmt::Write>::write_char std::fmt::Formatter::<'a>::write_str std::fmt::Formatter::<'a>::write_fmt std::fmt::Formatter::<'a>::pad
?std::fmt::Write::write_char ?std::fmt::Write::write_str ?std::fmt::Write::write_fmt ?std::fmt::Debug::fmt ?std::fmt::Display::fmt
std::fmt::Arguments::<'a>::new std::fmt::Arguments::<'a>::from_str core::fmt::rt::Argument::<'_>::new_display core::fmt::rt::Argument::<'_>::new_debug
core::fmt::rt::Argument::<'_>::from_usize core::fmt::rt::Argument::<'_>::new_binary core::fmt::rt::Argument::<'_>::new_octal
core::str::<impl str>::chars core::str::<impl str>::bytes core::str::<impl str>::starts_with core::str::<impl str>::ends_with core::str::<impl str>::contains
core::str::traits::<impl std::cmp::PartialEq for str>::eq core::slice::ascii::<impl [u8]>::eq_ignore_ascii_case core::slice::<impl [T]>::starts_with
core::slice::<impl [T]>::iter <std::str::Chars<'a> as std::iter::Iterator>::next
<std::slice::Iter<'a, T> as std::iter::Iterator>::next <std::slice::ChunksExact<'a, T> as std::iter::Iterator>::next
<std::iter::Enumerate<I> as std::iter::Iterator>::next <std::iter::Zip<A, B> as std::iter::Iterator>::next
std::char::methods::<impl char>::is_ascii_digit std::char::methods::<impl char>::is_ascii_whitespace std::char::methods::<impl char>::is_whitespace
std::char::methods::<impl char>::to_lowercase std::iter::Iterator::enumerate std::iter::Iterator::zip std::iter::Iterator::take std::iter::Iterator::chain
std::iter::Iterator::cloned std::iter::Iterator::copied std::iter::repeat std::hint::must_use std::mem::needs_drop
std::vec::Vec::<T>::new std::string::String::new std::time::SystemTime::now std::time::SystemTime::duration_since std::time::SystemTimeError::duration
std::env::var std::fs::File::open std::fs::read std::fs::symlink_metadata std::fs::Metadata::modified <std::fs::File as std::io::Read>::read_to_end
std::path::Path::is_absolute std::path::Path::join <std::path::PathBuf as std::convert::From<&T>>::from <std::path::PathBuf as std::ops::Deref>::deref
std::str::from_utf8 std::str::from_utf8_unchecked core::str::<impl str>::parse iana_time_zone::get_timezone
std::hash::DefaultHasher::new <std::hash::DefaultHasher as std::hash::Hasher>::finish <std::hash::DefaultHasher as std::hash::Hasher>::write
std::boxed::Box::<T>::new_uninit std::boxed::box_assume_init_into_vec_unsafe std::boxed::convert::<impl std::convert::From<&str> for std::boxed::Box<str>>::from
<std::boxed::Box<str> as std::clone::Clone>::clone <std::vec::Vec<T, A> as std::clone::Clone>::clone <std::cell::RefCell<T> as std::default::Default>::default
<std::cell::RefMut<'_, T> as std::ops::DerefMut>::deref_mut <std::io::Error as std::convert::From<std::io::ErrorKind>>::from
std::thread::LocalKey::<T>::new std::thread::local_impl::LazyStorage::<T, D>::new std::thread::local_impl::LazyStorage::<T, D>::get_or_init
std::fmt::format ?std::string::ToString::to_string ?std::hash::Hash::hash ?std::borrow::Borrow::borrow ?std::convert::AsRef::as_ref
<std::option::Option<T> as std::default::Default>::default <std::option::Option<T> as std::hash::Hash>::hash <std::option::Option<T> as std::cmp::PartialEq>::eq
std::cmp::impls::<impl std::cmp::PartialEq<&B> for &A>::eq std::cmp::impls::<impl std::cmp::PartialEq<&B> for &A>::ne std::cmp::impls::<impl std::cmp::PartialEq for ()>::eq
std::cmp::PartialEq::ne ?std::cmp::PartialEq::ne std::vec::partial_eq::<impl std::cmp::PartialEq<std::vec::Vec<U, A2>> for std::vec::Vec<T, A1>>::eq
std::array::equality::<impl std::cmp::PartialEq<[U; N]> for [T; N]>::eq std::array::equality::<impl std::cmp::PartialEq<[U; N]> for &[T]>::ne
core::tuple::<impl std::cmp::PartialEq for (U, T)>::eq core::tuple::<impl std::cmp::PartialOrd for (V, U, T)>::lt
<std::num::NonZero<T> as std::cmp::Ord>::cmp <std::num::NonZero<T> as std::cmp::PartialEq>::eq <std::num::NonZero<T> as std::cmp::PartialOrd>::partial_cmp <std::num::NonZero<T> as std::hash::Hash>::hash
<std::boxed::Box<T, A> as std::hash::Hash>::hash <str as std::fmt::Debug>::fmt <std::io::Error as std::fmt::Display>::fmt <std::num::ParseIntError as std::fmt::Display>::fmt
<std::str::Utf8Error as std::fmt::Display>::fmt <std::time::SystemTimeError as std::fmt::Display>::fmt
core::slice::iter::<impl std::iter::IntoIterator for &'a [T]>::into_iter std::array::<impl std::iter::IntoIterator for &'a [T; N]>::into_iter
?std::iter::IntoIterator::into_iter ?std::iter::Iterator::next std::option::Option::<T>::get_or_insert_with
serde::de::impls::<impl serde::Deserialize<'de> for (T0, T1)>::deserialize serde::ser::impls::<impl serde::Serialize for (T0, T1)>::serialize
?serde::Deserializer::deserialize_i64 ?serde::Deserializer::deserialize_option ?serde::Deserializer::deserialize_str ?serde::Serializer::collect_str
?serde::Serializer::serialize_i64 ?serde::Serializer::serialize_none ?serde::Serializer::serialize_some ?serde::de::Error::custom ?serde::ser::Error::custom
"""
    def _tok(s):
        out, cur, depth = [], "", 0
        for ch in s:
            if ch in "<(":
                depth += 1
            elif ch in ">)":
                depth -= 1
            if ch.isspace() and depth <= 0:
                if cur:
                    out.append(cur)
                cur = ""
                depth = 0
            else:
                cur += ch
        if cur:
            out.append(cur)
        return out
    quiet = _tok(quiet)

    def quiet_model(F, bi, st, t, args):
        for av, ty in args:
            abscall.analyse_closure_args(F, bi, st, t, av)
        abscall.havoc_mut_args(F, st, t, args)
        return None
    for n in quiet:
        M.setdefault(n, quiet_model)
    for n in list(M):
        if n.startswith("core::hash::impls::") or n.startswith("std::fmt::Formatter::<'a>::debug_"):
            M[n] = quiet_model
    import re
    E.quiet_patterns = [re.compile(p) for p in (r"^core::hash::impls::", r"^std::fmt::Formatter::<'a>::debug_", r"^std::vec::Vec::<T, A>::push$",
                                                r"^std::iter::Iterator::(map|fold|any|collect|flat_map)$", r"^\?std::iter::Iterator::(map|fold)$",
                                                r"^<std::iter::(Map|FlatMap)<.*> as std::iter::Iterator>::(fold|next)$")]

    def chunks_exact(F, bi, st, t, args):
        a = ival(F, st, args[1])
        F.oblige(bi, "panic", "chunks_exact(%s,%s)" % (F.d_op(t["args"][0]), F.d_op(t["args"][1])), t["ln"], a is not None and a[1] >= 1,
                 "chunk size must not be 0")
        return None
    M["core::slice::<impl [T]>::chunks_exact"] = chunks_exact

    M["<I as std::iter::IntoIterator>::into_iter"] = lambda F, bi, st, t, args: args[0][0]      # an iterator is its own IntoIterator

    def windows(F, bi, st, t, args):
        n = ival(F, st, args[1])
        F.oblige(bi, "panic", "windows(%s,%s)" % (F.d_op(t["args"][0]), F.d_op(t["args"][1])), t["ln"], n is not None and n[1] >= 1, "window size must not be 0")
        v = lenval(F, st, args[0])
        if n is None or n[1] != n[2]:
            return None
        # the iterator is abstracted by the sequence of its items: slices of exactly n elements
        return ("l", 0, v[2] if v else MAXLEN, ("r", ("val", ("l", n[1], n[1], v[3] if v else UNK))))
    M["core::slice::<impl [T]>::windows"] = windows

    def windows_next(F, bi, st, t, args):
        v = lenval(F, st, args[0])
        if v is None:
            return None
        return opt(v[3], True, v[2] > 0)
    M["<std::slice::Windows<'a, T> as std::iter::Iterator>::next"] = windows_next

    def vec_with_capacity(F, bi, st, t, args):
        a = ival(F, st, args[0])
        E.capacity_sites.append((F.fpath, t["ln"], a))
        return None
    E.capacity_sites = []
    E.index_log = {}
    M["std::vec::Vec::<T>::with_capacity"] = vec_with_capacity
    M["std::string::String::with_capacity"] = vec_with_capacity
    return M
