"""Per-function abstract interpretation (transfer functions, branch refinement, fixpoint)."""
from absint import BOT, BOOL, TRUE, FALSE, MAXLEN, irange
from core import succs

UNK = ("unk",)
CMPS = ("Eq", "Ne", "Lt", "Le", "Gt", "Ge")
NEG = {"Lt": "Ge", "Le": "Gt", "Gt": "Le", "Ge": "Lt", "Eq": "Ne", "Ne": "Eq", "In": "NotIn", "NotIn": "In"}
FLIP = {"Lt": "Gt", "Le": "Ge", "Gt": "Lt", "Ge": "Le", "Eq": "Eq", "Ne": "Ne"}


class State:
    __slots__ = ("loc", "ver", "copy", "cmp", "dsc", "ordf", "lenof", "nz")

    def __init__(self):
        self.loc = {}
        self.ver = {}
        self.copy = {}
        self.cmp = {}
        self.dsc = {}
        self.ordf = frozenset()     # {(src_a, src_b, strict)}: a > b (strict) or a >= b
        self.lenof = {}             # int local -> src of the slice/str whose length it is
        self.nz = frozenset()       # locals whose current value is known to be non-zero

    def clone(self):
        s = State()
        s.loc = dict(self.loc)
        s.ver = dict(self.ver)
        s.copy = dict(self.copy)
        s.cmp = dict(self.cmp)
        s.dsc = dict(self.dsc)
        s.ordf = self.ordf
        s.lenof = dict(self.lenof)
        s.nz = self.nz
        return s


def proj_of(p):
    out = []
    for e in p["p"]:
        if e == "*":
            out.append(("*",))
        elif e[0] == "f":
            out.append(("f", e[1], e[2]))
        elif e[0] == "d":
            out.append(("d", e[1]))
        elif e[0] == "i":
            out.append(("i", e[1]))
        elif e[0] == "ci":
            out.append(("ci", e[1], e[3]))
        elif e[0] == "sub":
            out.append(("sub", e[1], e[2], e[3]))
        else:
            out.append(("o",))
    return tuple(out)


class Fn:
    """analysis of one function body in one context"""

    def __init__(self, E, fpath, args, depth):
        self.E = E
        self.P = E.P
        self.fpath = fpath
        self.fn = fpath
        self.f = E.P.fn(fpath)
        self.mir = self.f["mir"]
        self.blocks = self.mir["blocks"]
        self.ltys = self.mir["locals"]
        self.depth = depth
        self.args = args
        self.cfg = E.P.cfg(fpath)
        self.ret = BOT
        self.effects = {}
        self.names = {}
        for n, p in self.mir["names"].items():
            if not p["p"]:
                self.names.setdefault(p["l"], n)
        self._descr = None
        self._occ = {}
        self._thr = None
        self.cur_site = ("entry",)
        self._roundtrip = None
        self._flags = None
        self._between = {}
        self.flag_snap = {}

    # ---- boolean flags: `let ok = a < 24 && b < 60;` ... `if ok { .. }` --------------------------
    def flags(self):
        """{bool local: [(id of definition, constant it assigns or None if computed)]} for locals with at least two definitions, all plain assignments, at least one of
        them a constant (the lowering of `&&` / `||` chains and of `match` arms yielding true / false / a test, stored in a variable)"""
        if self._flags is None:
            defs = {}
            calls = set()
            for b in self.blocks:
                if b.get("cleanup"):
                    continue
                for st in b["s"]:
                    if st["k"] == "assign" and not st["pl"]["p"]:
                        defs.setdefault(st["pl"]["l"], []).append(st)
                t = b["t"]
                if t["k"] == "call" and t.get("dest") and not t["dest"]["p"]:
                    calls.add(t["dest"]["l"])
            out = {}
            for l, ds in defs.items():
                if self.E.ty(self.ltys[l]).get("k") != "bool" or len(ds) < 2 or l in calls:
                    continue
                entry = []
                for d in ds:
                    isc = d["rv"]["k"] == "use" and d["rv"]["x"]["k"] == "const" and isinstance(d["rv"]["x"].get("v"), bool)
                    entry.append((id(d), d["rv"]["x"]["v"] if isc else None))
                if any(c is not None for _, c in entry) and any(c is None for _, c in entry):
                    out[l] = entry
            self._flags = out
        return self._flags

    def flag_between(self, l, sb, did):
        """locals that may be (re)defined on some way from the definition `did` of flag l to the end of block sb (static, conservative)"""
        key = (l, sb, did)
        if key not in self._between:
            dblock = None
            after = set()
            for bi, b in enumerate(self.blocks):
                seen = False
                for st in b["s"]:
                    if id(st) == did:
                        dblock, seen = bi, True
                        continue
                    if seen and st["k"] == "assign":
                        after.add(st["pl"]["l"])
            if dblock is None:
                self._between[key] = None
                return None
            # blocks on some path dblock -> ... -> sb  (forward from dblock's successors, backward from sb)
            fwd, st_ = set(), list(self.cfg.succ[dblock])
            while st_:
                x = st_.pop()
                if x not in fwd:
                    fwd.add(x)
                    st_.extend(self.cfg.succ[x])
            bwd, st_ = set(), [sb]
            while st_:
                x = st_.pop()
                if x not in bwd:
                    bwd.add(x)
                    st_.extend(self.cfg.pred[x])
            mid = fwd & bwd
            defs = set(after)
            for x in mid:
                for st in self.blocks[x]["s"]:
                    if st["k"] == "assign":
                        defs.add(st["pl"]["l"])
                t = self.blocks[x]["t"]
                if x != sb and t["k"] == "call" and t.get("dest"):
                    defs.add(t["dest"]["l"])
            if dblock in mid:
                for st in self.blocks[dblock]["s"]:
                    if st["k"] == "assign":
                        defs.add(st["pl"]["l"])
            self._between[key] = defs
        return self._between[key]

    def flag_meet(self, s2, l, v, vals, sb=None):
        """on the edge where flag l has the value v, the state is (also) the join of the states that the definitions able to produce v left behind - a constant definition
        with that value as it is, a computed definition refined by its own comparison - for the integer locals not redefined since"""
        fl = self.flags().get(l)
        snaps = self.flag_snap.get(l)
        if fl is None or not snaps or sb is None:
            return True
        truth = (v == 1) if v is not None else (0 in vals)
        cands = []
        for did, cv in fl:
            if cv is not None and bool(cv) != truth:
                continue
            snap = snaps.get(did)
            if snap is None:
                continue            # a definition not reached (so far): contributes nothing
            red = self.flag_between(l, sb, did)
            if red is None:
                return True
            sn = snap
            if cv is None:
                if l in snap.cmp:
                    sn = snap.clone()
                    if not self.apply_cmp(sn, snap.cmp[l], truth):
                        continue    # this definition cannot yield v
            cands.append((sn, red))
        if not cands:
            return True
        keys = None
        for sn, red in cands:
            ks = {k for k, val in sn.loc.items() if k != l and val != BOT and val[0] == "i" and k not in red and s2.ver.get(k, 0) == sn.ver.get(k, 0)}
            keys = ks if keys is None else keys & ks
        for k in keys or ():
            cur = s2.loc.get(k)
            if cur is None or cur == BOT or cur[0] != "i":
                continue
            lo = min(sn.loc[k][1] for sn, _ in cands)
            hi = max(sn.loc[k][2] for sn, _ in cands)
            lo, hi = max(cur[1], lo), min(cur[2], hi)
            if lo > hi:
                return False
            s2.loc[k] = ("i", lo, hi)
        if len(cands) == 1 and len([1 for _, cv in fl if cv is None]) == 1 and all(cv is None or bool(cv) != truth for _, cv in fl):
            # only the computed definition can yield v: its comparison holds on this edge (relational facts too)
            did = [d for d, cv in fl if cv is None][0]
            snap = snaps.get(did)
            if snap is not None and l in snap.cmp:
                return self.apply_cmp(s2, snap.cmp[l], truth)
        return True

    # ---- checked narrowing: `let y = x as T; if y as U != x { reject }` ------------------------
    def roundtrip(self):
        """(ids of narrowing cast statements that are checked by a round-trip comparison, {id of the comparison statement: (local of x, T)})"""
        if self._roundtrip is None:
            import rules
            copies = rules._copies(self.mir)
            casts = {}       # dest local -> (stmt, root of source local, target type)
            for b in self.blocks:
                if b.get("cleanup"):
                    continue
                for st in b["s"]:
                    if st["k"] == "assign" and not st["pl"]["p"] and st["rv"]["k"] == "cast" and st["rv"]["ck"].startswith("IntToInt") and st["rv"]["x"]["k"] in ("copy", "move") and not st["rv"]["x"]["pl"]["p"]:
                        casts[st["pl"]["l"]] = (st, rules._root(copies, st["rv"]["x"]["pl"]["l"]), st["rv"]["to"])
            checked, cmps = set(), {}
            for b in self.blocks:
                if b.get("cleanup"):
                    continue
                for st in b["s"]:
                    if st["k"] == "assign" and st["rv"]["k"] == "bin" and st["rv"]["op"] in ("Eq", "Ne"):
                        l_, r_ = st["rv"]["l"], st["rv"]["r"]
                        if l_["k"] not in ("copy", "move") or r_["k"] not in ("copy", "move") or l_["pl"]["p"] or r_["pl"]["p"]:
                            continue
                        for back, orig in ((l_, r_), (r_, l_)):
                            zb = casts.get(rules._root(copies, back["pl"]["l"]))
                            if not zb:
                                continue
                            yb = casts.get(zb[1])
                            if not yb:
                                continue
                            x = yb[1]
                            if rules._root(copies, orig["pl"]["l"]) == x and self.ltys[x] == zb[2]:
                                checked.add(id(yb[0]))
                                cmps[id(st)] = (x, yb[2])
            self._roundtrip = (checked, cmps)
        return self._roundtrip

    # ---- descriptions for stable obligation keys ------------------------------------------
    def descr_table(self):
        if self._descr is None:
            defs = {}
            cnt = {}
            for b in self.blocks:
                if b.get("cleanup"):
                    continue
                for st in b["s"]:
                    if st["k"] == "assign" and not st["pl"]["p"]:
                        l = st["pl"]["l"]
                        cnt[l] = cnt.get(l, 0) + 1
                        defs[l] = ("rv", st["rv"])
                t = b["t"]
                if t["k"] == "call" and not t["dest"]["p"]:
                    l = t["dest"]["l"]
                    cnt[l] = cnt.get(l, 0) + 1
                    defs[l] = ("call", t)
            self._descr = {l: d for l, d in defs.items() if cnt[l] == 1}
        return self._descr

    def d_local(self, l, depth=0):
        if l in self.names:
            return self.names[l]
        if 1 <= l <= self.mir["argc"]:
            return "arg%d" % l
        d = self.descr_table().get(l)
        if d is None or depth > 3:
            return "_"
        if d[0] == "call":
            c = d[1]["callee"]
            name = (c.get("resolved") or c.get("def") or "indirect")
            short = name.split("::")[-1] if "<" not in name.split("::")[-1] else name
            return "%s(%s)" % (short, ",".join(self.d_op(a, depth + 1) for a in d[1]["args"]))
        rv = d[1]
        k = rv["k"]
        if k == "use":
            return self.d_op(rv["x"], depth + 1)
        if k == "bin":
            return "%s(%s,%s)" % (rv["op"].replace("WithOverflow", ""), self.d_op(rv["l"], depth + 1), self.d_op(rv["r"], depth + 1))
        if k == "un":
            return "%s(%s)" % (rv["op"], self.d_op(rv["x"], depth + 1))
        if k == "cast":
            return "%s as %s" % (self.d_op(rv["x"], depth + 1), self.P.ty_s(rv["to"]))
        if k in ("ref", "discr"):
            return ("&" if k == "ref" else "discr ") + self.d_place(rv["pl"], depth + 1)
        if k == "agg":
            return rv.get("variant") or rv.get("ak")
        return "_"

    def d_place(self, p, depth=0):
        s = self.d_local(p["l"], depth)
        for e in p["p"]:
            if e == "*":
                continue
            if e[0] == "f":
                s += ".%d" % e[1]
            elif e[0] == "d":
                pass
            elif e[0] == "i":
                s += "[%s]" % self.d_local(e[1], depth + 1)
            else:
                s += "[..]"
        return s

    def d_op(self, o, depth=0):
        if o["k"] in ("copy", "move"):
            return self.d_place(o["pl"], depth)
        if o["k"] == "const":
            if "fn" in o:
                return o["fn"].split("::")[-1]
            if "def" in o and "promoted" not in o:
                return o["def"].split("::")[-1]
            v = o.get("v")
            if isinstance(v, (int, bool, str)):
                return repr(v)
            return "const"
        return "_"

    def key(self, kind, desc):
        base = "%s:%s" % (kind, desc)
        return base

    def oblige(self, bi, kind, desc, ln, ok, detail=None):
        k = (bi, kind, desc)
        occ = self._occ.get(k)
        if occ is None:
            # occurrence number among identical (kind, desc) in this function, by block order
            same = sorted(b for (b, kk, dd) in list(self._occ) + [k] if kk == kind and dd == desc)
            self._occ[k] = True
        self.E.oblige(self, (kind, desc, bi), kind, desc, ln, ok, detail)

    # ---- thresholds for widening ---------------------------------------------------------
    def thresholds(self):
        if self._thr is None:
            th = {0, 1, -1}
            for b in self.blocks:
                for st in b["s"]:
                    rv = st.get("rv")
                    if rv:
                        for k in ("x", "l", "r"):
                            o = rv.get(k)
                            if o and o.get("k") == "const" and isinstance(o.get("v"), int) and not isinstance(o.get("v"), bool):
                                th.update((o["v"], o["v"] - 1, o["v"] + 1))
            for bits in (8, 16, 32, 64):
                th.update(irange(bits, True))
                th.update(irange(bits, False))
            th.add(MAXLEN)
            self._thr = sorted(th)
        return self._thr

    # ---- place access -----------------------------------------------------------------------
    def norm(self, av, tyid):
        if av[0] == "unk":
            return ("t", tyid)
        return av

    def read(self, st, l, proj, depth=0):
        """value and static type of a place"""
        av = st.loc.get(l, BOT)
        ty = self.ltys[l]
        return self.read_from(st, av, ty, proj, depth)

    def read_from(self, st, av, ty, proj, depth=0):
        E = self.E
        for i, e in enumerate(proj):
            if av == BOT:
                return BOT, ty
            if av[0] == "unk":
                av = ("t", ty)
            av = E.expand(av)
            k = e[0]
            if k == "*":
                t = E.ty(ty)
                inner = t.get("inner", ty)
                if t.get("k") == "adt" and t["adt"] == "std::boxed::Box" and t.get("args"):
                    inner = t["args"][0]
                if av[0] == "r":
                    tg = av[1]
                    if tg[0] == "val":
                        av = tg[1]
                    elif tg[0] == "loc":
                        if depth > 6:
                            av = ("t", inner)
                        else:
                            av, _ = self.read(st, tg[1], tg[2], depth + 1)
                    else:
                        av = ("t", inner)
                else:
                    av = ("t", inner)
                ty = inner
            elif k == "f":
                fty = e[2]
                if av[0] == "s" and e[1] < len(av[1]):
                    av = av[1][e[1]]
                elif av[0] == "c" and e[1] < len(av[2]):
                    av = av[2][e[1]]
                elif av[0] == "l" and av[1] == av[2] and E.ty(ty).get("k") != "array":
                    av = ("t", fty)
                else:
                    av = ("t", fty)
                ty = fty
            elif k == "d":
                if av[0] == "e":
                    d = dict(av[2])
                    if e[1] in d:
                        av = ("s", d[e[1]])
                    else:
                        return BOT, ty
                else:
                    av = UNK
            elif k in ("i", "ci"):
                t = E.ty(ty)
                ety = t.get("elem", ty)
                if av[0] == "l":
                    av = av[3]
                else:
                    av = ("t", ety)
                ty = ety
            elif k == "sub":
                if av[0] == "l":
                    av = ("l", 0, av[2], av[3])
                else:
                    av = UNK
            else:
                av = UNK
        if av != BOT and av[0] == "unk":
            av = ("t", ty)
        return av, ty

    def write(self, st, l, proj, val, depth=0):
        if not proj:
            st.loc[l] = val
            self.bump(st, l)
            return
        old = st.loc.get(l, BOT)
        new = self.upd(st, old, self.ltys[l], proj, val, depth)
        st.loc[l] = new
        self.bump(st, l)

    def bump(self, st, l):
        """local l is (re)defined at the current program point: its version becomes the definition site and every
        fact that mentions its previous value is dropped"""
        st.ver[l] = self.cur_site
        st.copy.pop(l, None)
        st.cmp.pop(l, None)
        st.dsc.pop(l, None)
        st.lenof.pop(l, None)
        if l in st.nz:
            st.nz = st.nz - {l}
        for d in (st.copy, st.dsc, st.lenof):
            dead = [k for k, v in d.items() if v[1] == l]
            for k in dead:
                del d[k]
        dead = [k for k, v in st.cmp.items() if (v[1] is not None and v[1][1] == l) or (v[2] is not None and v[2][1] == l)]
        for k in dead:
            del st.cmp[k]
        if st.ordf:
            st.ordf = frozenset(f for f in st.ordf if f[0][1] != l and f[1][1] != l)

    def upd(self, st, av, ty, proj, val, depth):
        E = self.E
        if not proj:
            return val
        e = proj[0]
        if av == BOT or av[0] == "unk":
            av = ("t", ty)
        av = E.expand(av)
        k = e[0]
        if k == "*":
            t = E.ty(ty)
            inner = t.get("inner", ty)
            if av[0] == "r":
                tg = av[1]
                if tg[0] == "val":
                    return ("r", ("val", self.upd(st, tg[1], inner, proj[1:], val, depth)))
                if tg[0] == "loc" and depth < 6:
                    self.write(st, tg[1], tg[2] + tuple(proj[1:]), val, depth + 1)
                    return av
            return av
        if k == "f":
            if av[0] == "s" and e[1] < len(av[1]):
                fs = list(av[1])
                fs[e[1]] = self.upd(st, fs[e[1]], e[2], proj[1:], val, depth)
                return ("s", tuple(fs))
            return UNK
        if k == "d":
            if av[0] == "e":
                d = dict(av[2])
                fields = d.get(e[1])
                if fields is None:
                    # variant not known: build from type
                    ex = E.expand(("t", ty))
                    if ex[0] == "e":
                        fields = dict(ex[2]).get(e[1])
                if fields is not None:
                    inner = self.upd(st, ("s", fields), ty, proj[1:], val, depth)
                    if inner[0] == "s":
                        return ("e", av[1], ((e[1], inner[1]),))
            return UNK
        if k in ("i", "ci"):
            t = E.ty(ty)
            ety = t.get("elem", ty)
            if av[0] == "l":
                ne = self.upd(st, av[3], ety, proj[1:], val, depth)
                return ("l", av[1], av[2], E.join(av[3], ne))
            return UNK
        return UNK

    # ---- operands --------------------------------------------------------------------------
    def const_av(self, v, tyid):
        E = self.E
        t = E.ty(tyid) if tyid is not None else {}
        k = t.get("k")
        if isinstance(v, bool):
            return ("i", int(v), int(v))
        if isinstance(v, int):
            if k in ("int", "uint", "bool", "char"):
                return ("i", v, v)
            return ("i", v, v)
        if isinstance(v, dict) and "char" in v:
            return ("i", v["char"], v["char"])
        if isinstance(v, dict) and "static" in v:
            sf = self.P.fns.get(v["static"])
            if sf is not None and "value" in sf:
                inner = t.get("inner") if k in ("ref", "ptr") else sf.get("ty")
                val = self.const_av(sf["value"], inner)
                return ("r", ("val", val)) if k in ("ref", "ptr") else val
            return ("t", tyid) if tyid is not None else UNK
        if k in ("ref", "ptr"):
            return ("r", ("val", self.const_av(v, t["inner"])))
        if isinstance(v, str):
            n = len(v.encode("utf-8"))
            bs = v.encode("utf-8")
            el = ("i", min(bs), max(bs)) if bs else BOT
            return ("l", n, n, el)
        if isinstance(v, list):
            ety = t.get("elem")
            el = BOT
            for x in v[:4096]:
                el = E.join(el, self.const_av(x, ety))
            return ("l", len(v), len(v), el)
        if isinstance(v, dict):
            if "tuple" in v:
                es = t.get("elems", [])
                return ("s", tuple(self.const_av(x, es[i] if i < len(es) else tyid) for i, x in enumerate(v["tuple"])))
            if "adt" in v and "fields" in v:
                adt = v["adt"]
                d = self.P.adts.get(adt)
                ex = None
                if "vidx" in v:
                    ex = E.expand(("t", tyid))
                    ftys = []
                    if ex[0] == "e":
                        fl = dict(ex[2]).get(v["vidx"], ())
                        ftys = [x[1] if x[0] == "t" else None for x in fl]
                    vals = list(v["fields"].values())
                    fs = tuple(self.const_av(x, ftys[i] if i < len(ftys) else None) for i, x in enumerate(vals))
                    return ("e", adt, ((v["vidx"], fs),))
                ftys = []
                if d is not None:
                    ftys = [f["ty"] for f in d["variants"][0]["fields"]]
                elif adt == "std::num::NonZero" and t.get("args"):
                    return ("s", (self._leaf_int(v),))
                vals = list(v["fields"].values())
                return ("s", tuple(self.const_av(x, ftys[i] if i < len(ftys) else None) for i, x in enumerate(vals)))
        return ("t", tyid) if tyid is not None else UNK

    def _leaf_int(self, v):
        while isinstance(v, dict):
            if "fields" in v:
                v = list(v["fields"].values())[0]
            else:
                break
        if isinstance(v, int):
            return ("i", v, v)
        return UNK

    def operand(self, st, o):
        """(av, tyid)"""
        k = o["k"]
        if k in ("copy", "move"):
            return self.read(st, o["pl"]["l"], proj_of(o["pl"]))
        if k == "const":
            ty = o["ty"]
            if "fn" in o:
                return ("fn", o["fn"]), ty
            t = self.E.ty(ty)
            if t.get("k") == "closure":
                return ("c", t["def"], ()), ty
            if "v" in o:
                try:
                    return self.const_av(o["v"], ty), ty
                except Exception:
                    return ("t", ty), ty
            return ("t", ty), ty
        return UNK, None

    def as_int(self, av, ty):
        """interval view of a value (None if not integral)"""
        if av == BOT:
            return None
        if av[0] == "i":
            return av
        if av[0] in ("t", "unk"):
            if ty is None and av[0] == "t":
                ty = av[1]
            if ty is not None:
                r = self.E.int_range_of_ty(ty)
                if r is not None:
                    return ("i", r[0], r[1])
        return None

    # ---- export values across frames ------------------------------------------------------
    def export(self, st, av, depth=0):
        if av == BOT:
            return av
        k = av[0]
        if k == "r":
            tg = av[1]
            if tg[0] == "loc":
                if depth > 4:
                    return ("r", ("val", UNK))
                v, ty = self.read(st, tg[1], tg[2])
                return ("r", ("val", self.export(st, v, depth + 1)))
            if tg[0] == "val":
                return ("r", ("val", self.export(st, tg[1], depth + 1)))
            return av
        if k == "s":
            return ("s", tuple(self.export(st, x, depth + 1) for x in av[1]))
        if k == "e":
            return ("e", av[1], tuple((v, tuple(self.export(st, x, depth + 1) for x in fs)) for v, fs in av[2]))
        if k == "l":
            return ("l", av[1], av[2], self.export(st, av[3], depth + 1))
        if k == "c":
            return ("c", av[1], tuple(self.export(st, x, depth + 1) for x in av[2]))
        return av

    # ---- fixpoint ----------------------------------------------------------------------------
    def run(self):
        E = self.E
        st0 = State()
        for i, a in enumerate(self.args):
            st0.loc[i + 1] = a
        ins = {0: st0}
        edges = {}
        visits = {}
        heads = {h for _, h in self.cfg.back_edges()}
        rpo = self.cfg.rpo()
        order = {b: i for i, b in enumerate(rpo)}
        preds = self.cfg.pred
        work = {0}
        steps = 0
        while work:
            b = min(work, key=lambda x: order.get(x, 1 << 30))
            work.discard(b)
            steps += 1
            if steps > 30000:
                raise RuntimeError("absint: no convergence in " + self.fpath)
            st = ins[b].clone()
            outs = self.block(b, st)
            for k in [k for k in edges if k[0] == b]:
                del edges[k]
            touched = []
            for succ, s2 in outs:
                if s2 is None:
                    continue
                k = (b, succ)
                if k in edges:
                    edges[k] = self.merge(edges[k], s2, False, succ)[0]
                else:
                    edges[k] = s2
                if succ not in touched:
                    touched.append(succ)
            for succ in touched:
                sts = [edges[(p, succ)] for p in dict.fromkeys(preds[succ]) if (p, succ) in edges]
                new = sts[0]
                for s2 in sts[1:]:
                    new = self.merge(new, s2, False, succ)[0]
                old = ins.get(succ)
                if old is None:
                    ins[succ] = new
                    work.add(succ)
                    continue
                if succ in heads:
                    visits[succ] = visits.get(succ, 0) + 1
                    wid = visits[succ] > 3
                    th = self.thresholds() if wid else None
                    loc = {}
                    for l in set(old.loc) | set(new.loc):
                        x, y = old.loc.get(l, BOT), new.loc.get(l, BOT)
                        loc[l] = x if x == y else (E.widen(x, y, th) if wid else E.join(x, y))
                    new = new.clone()
                    new.loc = loc
                if not self.same_state(old, new):
                    ins[succ] = new
                    work.add(succ)
        return self.ret, self.effects

    def same_state(self, a, b):
        return (a.loc == b.loc and a.copy == b.copy and a.cmp == b.cmp and a.dsc == b.dsc and a.lenof == b.lenof
                and a.ordf == b.ordf and a.nz == b.nz)

    def merge(self, a, b, wid, at=None):
        E = self.E
        changed = False
        out = State()
        keys = set(a.loc) | set(b.loc)
        th = self.thresholds() if wid else None
        for l in keys:
            x = a.loc.get(l, BOT)
            y = b.loc.get(l, BOT)
            if x == y:
                out.loc[l] = x
                continue
            j = E.widen(x, y, th) if wid else E.join(x, y)
            out.loc[l] = j
            if j != x:
                changed = True
        # versions: keep a's; facts only if identical in both
        out.ver = dict(a.ver)
        for l in set(a.ver) | set(b.ver):
            if a.ver.get(l, 0) != b.ver.get(l, 0):
                out.ver[l] = ("phi", at)
        for name in ("copy", "cmp", "dsc", "lenof"):
            da, db = getattr(a, name), getattr(b, name)
            d = {}
            for l, v in da.items():
                if db.get(l) == v and self._fact_valid(out, v, a):
                    d[l] = v
            if len(d) != len(da):
                changed = changed or False
            if len(d) != len(da):
                changed = True
            setattr(out, name, d)
        out.nz = a.nz & b.nz
        if out.nz != a.nz:
            changed = True
        phi = {l for l, v in out.ver.items() if isinstance(v, tuple) and v and v[0] == "phi" and v[1] == at and a.ver.get(l, 0) != b.ver.get(l, 0)}
        if phi and (a.ordf or b.ordf):
            # an order fact about a local that is defined on both incoming edges holds for the merged value if it holds on each edge for that edge's value
            def rekey(facts, st_):
                outf = set()
                for (x, y, strict) in facts:
                    x2 = (x[0], x[1], x[2], out.ver[x[1]]) if x[1] in phi and st_.ver.get(x[1], 0) == x[3] and x[0] == "pl" else x
                    y2 = (y[0], y[1], y[2], out.ver[y[1]]) if y[1] in phi and st_.ver.get(y[1], 0) == y[3] and y[0] == "pl" else y
                    outf.add((x2, y2, strict))
                return outf
            ra, rb = rekey(a.ordf, a), rekey(b.ordf, b)
            both = set()
            for (x, y, strict) in ra:
                if (x, y, strict) in rb or (strict is False and (x, y, True) in rb):
                    both.add((x, y, strict))
                elif strict and (x, y, False) in rb:
                    both.add((x, y, False))
            out.ordf = frozenset(f for f in both if self._fact_valid(out, f, a))
        else:
            out.ordf = frozenset(f for f in (a.ordf & b.ordf) if self._fact_valid(out, f, a))
        if out.ordf != a.ordf:
            changed = True
        return out, changed

    def _fact_valid(self, out, fact, a):
        # facts carry (local, version) pairs; they stay valid only if the versions are unchanged in the merged state
        for x in _fact_locals(fact):
            if out.ver.get(x[0], 0) != x[1]:
                return False
        return True

    # ---- one block -----------------------------------------------------------------------------
    def block(self, bi, st):
        blk = self.blocks[bi]
        for si, s in enumerate(blk["s"]):
            self.cur_site = (bi, si)
            if s["k"] == "assign":
                self.assign(bi, st, s)
            elif s["k"] == "setdiscr":
                pl = s["pl"]
                av, ty = self.read(st, pl["l"], proj_of(pl))
                ex = self.E.expand(av if av != BOT else ("t", ty))
                if ex[0] == "e":
                    d = dict(ex[2])
                    fl = d.get(s["vidx"])
                    if fl is None:
                        full = self.E.expand(("t", ty))
                        fl = dict(full[2]).get(s["vidx"], ()) if full[0] == "e" else ()
                    self.write(st, pl["l"], proj_of(pl), ("e", ex[1], ((s["vidx"], fl),)))
        self.cur_site = (bi, "t")
        return self.term(bi, st, blk["t"])

    def assign(self, bi, st, s):
        pl = s["pl"]
        rv = s["rv"]
        val, facts = self.rvalue(bi, st, rv, s)
        proj = proj_of(pl)
        keep_nz = False
        if not proj and rv["k"] in ("use", "cast") and rv["x"]["k"] in ("copy", "move") and not rv["x"]["pl"]["p"] and rv["x"]["pl"]["l"] in st.nz:
            if rv["k"] == "use":
                keep_nz = True
            elif rv["ck"].startswith("IntToInt"):
                a = self.E.int_range_of_ty(self.ltys[rv["x"]["pl"]["l"]])
                b = self.E.int_range_of_ty(rv["to"])
                keep_nz = a is not None and b is not None and b[0] <= a[0] and b[1] >= a[1]
        len_facts = self._len_facts_for(st, rv) if st.ordf and not proj else None
        self.write(st, pl["l"], proj, val)
        if len_facts:
            dst = ("pl", pl["l"], (), st.ver.get(pl["l"], 0))
            for x, strict, fld in len_facts:
                d2 = dst if fld is None else ("pl", pl["l"], fld, st.ver.get(pl["l"], 0))
                st.ordf = st.ordf | {(x, d2, strict)}
        if keep_nz:
            st.nz = st.nz | {pl["l"]}
        if not proj and facts:
            kind, f = facts
            getattr(st, kind)[pl["l"]] = f
        if not proj and pl["l"] in self.flags() and any(d == id(s) for d, _ in self.flags()[pl["l"]]):
            self.flag_snap.setdefault(pl["l"], {})[id(s)] = st.clone()

    def src_of(self, st, o):
        """source descriptor of an operand for later refinement: ('pl', local, proj, ver) or None"""
        if o["k"] in ("copy", "move"):
            l = o["pl"]["l"]
            proj = proj_of(o["pl"])
            if not proj and l in st.copy:
                return st.copy[l]
            return ("pl", l, proj, st.ver.get(l, 0))
        return None

    def rvalue(self, bi, st, rv, s):
        E = self.E
        k = rv["k"]
        if k == "use":
            av, ty = self.operand(st, rv["x"])
            facts = None
            src = self.src_of(st, rv["x"])
            if src is not None:
                facts = ("copy", src)
                # propagate comparison/discriminant facts through plain copies of temporaries
                o = rv["x"]
                if not o["pl"]["p"]:
                    l = o["pl"]["l"]
                    if l in st.cmp:
                        facts = ("cmp", st.cmp[l])
                    elif l in st.dsc:
                        facts = ("dsc", st.dsc[l])
                    elif l in st.lenof:
                        facts = ("lenof", st.lenof[l])
            return av, facts
        if k == "bin":
            return self.binop(bi, st, rv, s)
        if k == "un":
            av, ty = self.operand(st, rv["x"])
            op = rv["op"]
            iv = self.as_int(av, ty)
            if op == "Neg" and iv:
                r = E.int_range_of_ty(ty) or (-(1 << 127), 1 << 127)
                lo, hi = -iv[2], -iv[1]
                if lo < r[0] or hi > r[1]:
                    return ("i", r[0], r[1]), None
                return ("i", lo, hi), None
            if op == "Not" and iv:
                t = E.ty(ty)
                if t.get("k") == "bool":
                    facts = None
                    o = rv["x"]
                    if o["k"] in ("copy", "move") and not o["pl"]["p"] and o["pl"]["l"] in st.cmp:
                        c = st.cmp[o["pl"]["l"]]
                        facts = ("cmp", (NEG[c[0]],) + c[1:])
                    return ("i", 1 - iv[2], 1 - iv[1]), facts
                if t.get("k") == "int":
                    return ("i", -iv[2] - 1, -iv[1] - 1), None
                if t.get("k") == "uint":
                    m = (1 << t["bits"]) - 1
                    return ("i", m - iv[2], m - iv[1]), None
            if op == "PtrMetadata":
                facts = None
                src = self.slice_src(st, rv["x"], av)
                if src is not None:
                    facts = ("lenof", src)
                a = E.expand(av)
                if a[0] == "r":
                    tg = a[1]
                    v = None
                    if tg[0] == "val":
                        v = E.expand(tg[1])
                    elif tg[0] == "loc":
                        v, _ = self.read(st, tg[1], tg[2])
                        v = E.expand(v) if v != BOT else v
                    if v is not None and v != BOT and v[0] == "l":
                        return ("i", v[1], v[2]), facts
                return ("i", 0, MAXLEN), facts
            return UNK, None
        if k == "cast":
            return self.cast(bi, st, rv, s), None
        if k == "agg":
            return self.aggregate(bi, st, rv, s), None
        if k == "discr":
            pl = rv["pl"]
            av, ty = self.read(st, pl["l"], proj_of(pl))
            if av == BOT:
                return BOT, None
            ex = E.expand(av)
            src = ("pl", pl["l"], proj_of(pl), st.ver.get(pl["l"], 0))
            if ex[0] == "e":
                ds = [E.discr_value(ex[1], v) for v, _ in ex[2]]
                if not ds:
                    return BOT, None
                return ("i", min(ds), max(ds)), ("dsc", src)
            return ("i", 0, 1 << 31), ("dsc", src)
        if k in ("ref", "rawptr"):
            pl = rv["pl"]
            return ("r", ("loc", pl["l"], proj_of(pl))), None
        if k == "repeat":
            av, ty = self.operand(st, rv["x"])
            n = rv.get("n")
            return ("l", n if n is not None else 0, n if n is not None else MAXLEN, av), None
        return UNK, None

    # ---- arithmetic ------------------------------------------------------------------------------
    def binop(self, bi, st, rv, s):
        E = self.E
        op = rv["op"]
        a, ta = self.operand(st, rv["l"])
        b, tb = self.operand(st, rv["r"])
        if a == BOT or b == BOT:
            return BOT, None
        ia, ib = self.as_int(a, ta), self.as_int(b, tb)
        if op in CMPS:
            rt = self.roundtrip()[1].get(id(s))
            if rt is not None:
                rng = E.int_range_of_ty(rt[1])
                if rng is not None:
                    x = rt[0]
                    return BOOL, ("cmp", ("In" if op == "Eq" else "NotIn", ("pl", x, (), st.ver.get(x, 0)), None, None, ("i", rng[0], rng[1])))
            facts = ("cmp", (op, self.src_of(st, rv["l"]), self.src_of(st, rv["r"]),
                             ia if rv["l"]["k"] == "const" else None, ib if rv["r"]["k"] == "const" else None))
            if op in ("Lt", "Le", "Gt", "Ge") and st.ordf:
                r = self.decide_by_order(st, op, rv["l"], rv["r"])
                if r is not None:
                    return r, facts
            if op in ("Eq", "Ne"):
                for o1, i2 in ((rv["l"], ib), (rv["r"], ia)):
                    if o1["k"] in ("copy", "move") and not o1["pl"]["p"] and o1["pl"]["l"] in st.nz and i2 and i2[1] == i2[2] == 0:
                        return (FALSE if op == "Eq" else TRUE), facts
            if ia and ib:
                return cmp_iv(op, ia, ib), facts
            return BOOL, facts
        wo = op.endswith("WithOverflow")
        base = op[:-12] if wo else op
        rng = E.int_range_of_ty(ta) if ta is not None else None
        if not (ia and ib) or rng is None:
            if base in ("Offset",):
                return UNK, None
            res = ("i", rng[0], rng[1]) if rng else UNK
            return (("s", (res, BOOL)) if wo else res), None
        exact = arith(base, ia, ib, rng, E.ty(ta))
        if base == "Sub" and exact is not None and exact[0] < 0 and st.ordf:
            sa, sb = self.src_of(st, rv["l"]), self.src_of(st, rv["r"])
            if sa is not None and sb is not None:
                for (x, y, strict) in st.ordf:
                    if x == sa and y == sb and st.ver.get(x[1], 0) == x[3] and st.ver.get(y[1], 0) == y[3]:
                        exact = (max(exact[0], 1 if strict else 0), max(exact[1], 1 if strict else 0))
                        break
        if base == "Add" and E.ty(ta).get("k") == "uint" and E.ty(ta).get("bits") == 8:
            # digit rule: b'0' + x must stay a decimal digit
            for c, other, oo in ((ia, ib, rv["r"]), (ib, ia, rv["l"])):
                if c[1] == c[2] == 48 and (rv["l"] if c is ia else rv["r"])["k"] == "const":
                    ok = 0 <= other[1] and other[2] <= 9
                    self.oblige(bi, "digit", "b'0'+%s" % self.d_op(oo), s["ln"], ok,
                                "operand in [%d, %d], a single decimal digit needs [0, 9]" % (other[1], other[2]))
        if exact is None:
            res = ("i", rng[0], rng[1])
            fl = BOOL
        else:
            lo, hi = exact
            if lo >= rng[0] and hi <= rng[1]:
                res = ("i", lo, hi)
                fl = FALSE
            else:
                if wo:
                    lo2, hi2 = max(lo, rng[0]), min(hi, rng[1])
                    res = ("i", lo2, hi2) if lo2 <= hi2 else ("i", rng[0], rng[1])
                else:
                    res = ("i", rng[0], rng[1])
                fl = BOOL if not (hi < rng[0] or lo > rng[1]) else TRUE
        if wo:
            return ("s", (res, fl)), None
        return res, None

    def _same_value(self, st, s1, s2):
        """two sources denote the same runtime value: identical, or both are the length of the same slice"""
        if s1 == s2 or (s1 is not None and s2 is not None and _ns(s1) == _ns(s2)):
            return True
        def len_src(s):
            if s is not None and s[0] == "len":
                return ("pl",) + tuple(s[1:])        # pseudo-source: "the length of this slice" (order facts produced by binary_search & co)
            if s is not None and not s[2] and st.ver.get(s[1], 0) == s[3]:
                return st.lenof.get(s[1])
            return None
        a, b = len_src(s1), len_src(s2)
        return a is not None and a == b and st.ver.get(a[1], 0) == a[3]

    def decide_by_order(self, st, op, lo_, ro_):
        sa, sb = self.own_src(st, lo_), self.own_src(st, ro_)
        if sa is None or sb is None:
            return None
        for (x, y, strict) in st.ordf:       # x > y (strict) or x >= y
            if st.ver.get(x[1], 0) != x[3] or st.ver.get(y[1], 0) != y[3]:
                continue
            for xs in (x, self._orig(st, x)):
                for ys in (y, self._orig(st, y)):
                    # a op b with a ~ y, b ~ x  (i.e. b > a)
                    if any(self._same_value(st, sa2, ys) for sa2 in (sa, self._orig(st, sa))) and any(self._same_value(st, sb2, xs) for sb2 in (sb, self._orig(st, sb))):
                        if op == "Lt" and strict:
                            return TRUE
                        if op == "Le":
                            return TRUE
                        if op == "Ge" and strict:
                            return FALSE
                        if op == "Gt":
                            return FALSE
                    if any(self._same_value(st, sa2, xs) for sa2 in (sa, self._orig(st, sa))) and any(self._same_value(st, sb2, ys) for sb2 in (sb, self._orig(st, sb))):
                        if op == "Gt" and strict:
                            return TRUE
                        if op == "Ge":
                            return TRUE
                        if op == "Le" and strict:
                            return FALSE
                        if op == "Lt":
                            return FALSE
        return None

    def le_len(self, st, operand, slice_operand, slice_av, strict=False):
        """the path has established  operand <= len(slice)  (strict: <) through a comparison of the operand with a local that holds the length of that very slice"""
        if not st.ordf:
            return False
        ssrc = self.slice_src(st, slice_operand, slice_av)
        osrc = self.own_src(st, operand)
        if ssrc is None or osrc is None:
            return False
        mine = (osrc, self._orig(st, osrc))
        for (x, y, st_) in st.ordf:      # x > y (strict) or x >= y
            if strict and not st_:
                continue
            if st.ver.get(x[1], 0) != x[3] or st.ver.get(y[1], 0) != y[3] or x[2]:
                continue
            ls = st.lenof.get(x[1])
            if ls is None:
                o = self._orig(st, x)
                ls = st.lenof.get(o[1]) if o is not None and not o[2] and st.ver.get(o[1], 0) == o[3] else None
            if ls is None or ls != ssrc or st.ver.get(ls[1], 0) != ls[3]:
                continue
            if any(m == y or m == self._orig(st, y) for m in mine):
                return True
        return False

    def _len_facts_for(self, st, rv):
        """order facts `len(S) >(=) v` that carry over to the value an rvalue defines: a plain copy / move keeps them; `v + c` weakens / `v - c` strengthens them by the
        constant (checked operations: the result is field 0 of the (value, overflowed) pair, used only after the overflow assert). Returns [(len pseudo-source, strict, dest proj)]"""
        out = []

        def facts_on(o):
            s0 = self.own_src(st, o)
            if s0 is None:
                return []
            cands = (s0, self._orig(st, s0))
            res = []
            for (x, y, strict) in st.ordf:
                if x[0] != "len" or st.ver.get(x[1], 0) != x[3] or st.ver.get(y[1], 0) != y[3]:
                    continue
                if any(_ns(c) == _ns(y) for c in cands):
                    res.append((x, strict))
            return res
        k = rv["k"]
        if k == "use" and rv["x"]["k"] in ("copy", "move"):
            for x, strict in facts_on(rv["x"]):
                out.append((x, strict, None))
        elif k == "bin" and rv["op"] in ("AddWithOverflow", "SubWithOverflow", "Add", "Sub") and rv["r"]["k"] == "const" and isinstance(rv["r"].get("v"), int) and rv["l"]["k"] in ("copy", "move"):
            c = rv["r"]["v"]
            wo = rv["op"].endswith("WithOverflow")
            if not wo:
                return out      # unchecked arithmetic may wrap: no transfer
            fld = (("f", 0, None),)
            for x, strict in facts_on(rv["l"]):
                if rv["op"].startswith("Sub") and c >= 0:
                    out.append((x, strict or c >= 1, fld))
                elif rv["op"].startswith("Add") and c == 0:
                    out.append((x, strict, fld))
                elif rv["op"].startswith("Add") and c == 1 and strict:
                    out.append((x, False, fld))
        return out

    def own_src(self, st, o):
        if o["k"] in ("copy", "move"):
            l = o["pl"]["l"]
            return ("pl", l, proj_of(o["pl"]), st.ver.get(l, 0))
        return None

    def _orig(self, st, s):
        """origin of a plain copy"""
        if s is not None and not s[2] and s[1] in st.copy and st.ver.get(s[1], 0) == s[3]:
            return st.copy[s[1]]
        return s

    def slice_src(self, st, operand, av):
        """canonical source place of the slice/str a reference operand points to (through reborrows and plain copies)"""
        if av is not None and av != BOT and av[0] == "r" and av[1][0] == "loc":
            l, proj = av[1][1], tuple(av[1][2])
            ver = st.ver.get(l, 0)
            if l in st.copy and proj and proj[0] == ("*",):
                o = st.copy[l]
                if st.ver.get(o[1], 0) == o[3]:
                    return ("pl", o[1], tuple(o[2]) + proj, o[3])
            return ("pl", l, proj, ver)
        if operand is not None and operand["k"] in ("copy", "move"):
            src = self.src_of(st, operand)
            if src is not None:
                return ("pl", src[1], tuple(src[2]) + (("*",),), src[3])
        return None

    def cast(self, bi, st, rv, s):
        E = self.E
        av, ty = self.operand(st, rv["x"])
        to = rv["to"]
        ck = rv["ck"]
        if av == BOT:
            return BOT
        if ck.startswith("IntToInt"):
            iv = self.as_int(av, ty)
            rng = E.int_range_of_ty(to)
            if iv is None or rng is None:
                return ("t", to)
            if iv[1] >= rng[0] and iv[2] <= rng[1]:
                return iv
            src_t = E.ty(ty) if ty is not None else {}
            if id(s) in self.roundtrip()[0]:
                # a narrowing whose result is cast back and compared with the original: the comparison decides, not the cast
                return ("i", rng[0], rng[1])
            # enum discriminant / bool / char sources are never lossy in practice; report integers only
            if src_t.get("k") in ("int", "uint") and not s.get("x"):
                self.oblige(bi, "lossy-cast", "%s as %s" % (self.d_op(rv["x"]), E.ty(to)["s"]), s["ln"], False,
                            "operand in [%d, %d] does not fit %s" % (iv[1], iv[2], E.ty(to)["s"]))
            return ("i", rng[0], rng[1])
        if ck.startswith("PointerCoercion") or ck.startswith("PtrToPtr") or ck.startswith("Transmute") or ck.startswith("Pointer"):
            ex = E.expand(av)
            if ex[0] == "r":
                return ex
            if ex[0] in ("c", "fn"):
                return ex
            return ("t", to)
        if ck.startswith("IntToFloat") or ck.startswith("FloatToInt") or ck.startswith("FloatToFloat"):
            return ("t", to)
        return ("t", to)

    def aggregate(self, bi, st, rv, s):
        E = self.E
        fs = []
        for x in rv["fields"]:
            av, ty = self.operand(st, x)
            if av == BOT:
                return BOT
            fs.append(av)
        ak = rv["ak"]
        if ak == "adt":
            adt = rv["adt"]
            d = self.P.adts.get(adt)
            if adt in E.inv.box and d is not None and d["kind"] == "Struct" and not s.get("x"):
                box = E.inv.box[adt]
                for i, f in enumerate(d["variants"][0]["fields"]):
                    if f["name"] in box and i < len(fs):
                        lo, hi = box[f["name"]]
                        iv = self.as_int(fs[i], f["ty"])
                        ok = iv is not None and iv[1] >= lo and iv[2] <= hi
                        self.oblige(bi, "invariant", "%s.%s=%s" % (adt.split("::")[-1], f["name"], self.d_op(rv["fields"][i])), s["ln"], ok,
                                    "field %s in %s, invariant [%d, %d]" % (f["name"], ("[%d, %d]" % (iv[1], iv[2])) if iv else "?", lo, hi))
                        if iv is not None:
                            fs[i] = ("i", max(iv[1], lo), min(iv[2], hi)) if max(iv[1], lo) <= min(iv[2], hi) else ("i", lo, hi)
            if d is not None and d["kind"] == "Enum" or adt in __import__("absint").STD_ENUMS:
                return ("e", adt, ((rv["vidx"], tuple(fs)),))
            if d is None and rv.get("variant") and rv["vidx"] > 0:
                return ("e", adt, ((rv["vidx"], tuple(fs)),))
            return ("s", tuple(fs))
        if ak == "tuple":
            return ("s", tuple(fs))
        if ak == "array":
            el = BOT
            for x in fs:
                el = E.join(el, x)
            return ("l", len(fs), len(fs), el)
        if ak == "closure":
            return ("c", rv["def"], tuple(fs))
        return UNK

    # ---- refinement -----------------------------------------------------------------------------
    def refine_src(self, st, src, iv):
        """narrow the place described by src (if still valid) to interval iv; returns False if empty"""
        if src is None:
            return True
        _, l, proj, ver = src
        if st.ver.get(l, 0) != ver:
            return True
        cur, ty = self.read(st, l, proj)
        ci = self.as_int(cur, ty)
        if ci is None:
            return True
        lo, hi = max(ci[1], iv[1]), min(ci[2], iv[2])
        if lo > hi:
            return False
        if (lo, hi) != (ci[1], ci[2]):
            saved = (dict(st.copy), dict(st.cmp), dict(st.dsc), dict(st.ver), dict(st.lenof), st.nz, st.ordf)
            self.write(st, l, proj, ("i", lo, hi))
            # refinement is not a redefinition: restore facts and versions
            st.copy, st.cmp, st.dsc, st.ver, st.lenof, st.nz, st.ordf = saved
            if not proj and l in st.lenof:
                self.refine_len(st, st.lenof[l], lo, hi)
        # every local that is a plain copy of the same origin holds the same runtime value
        for l2, s2 in st.copy.items():
            if s2 == src:
                c2 = st.loc.get(l2)
                i2 = self.as_int(c2, self.ltys[l2]) if c2 is not None else None
                if i2 is not None:
                    a, b = max(i2[1], lo), min(i2[2], hi)
                    if a > b:
                        return False
                    st.loc[l2] = ("i", a, b)
                    if l2 in st.lenof:
                        self.refine_len(st, st.lenof[l2], a, b)
        return True

    def refine_len(self, st, src, lo, hi):
        _, l, proj, ver = src
        if st.ver.get(l, 0) != ver:
            return
        cur, ty = self.read(st, l, proj)
        if cur == BOT:
            return
        ex = self.E.expand(cur)
        if ex[0] != "l":
            return
        nlo, nhi = max(ex[1], lo), min(ex[2], hi)
        if nlo > nhi:
            return
        if (nlo, nhi) != (ex[1], ex[2]):
            saved = (dict(st.copy), dict(st.cmp), dict(st.dsc), dict(st.ver), dict(st.lenof), st.nz, st.ordf)
            self.write(st, l, proj, ("l", nlo, nhi, ex[3]))
            st.copy, st.cmp, st.dsc, st.ver, st.lenof, st.nz, st.ordf = saved

    def apply_cmp(self, st, fact, truth):
        """refine by comparison fact; returns False if the branch is infeasible"""
        op, ls, rs, lc, rc = fact
        if not truth:
            op = NEG[op]
        if op in ("In", "NotIn"):
            xa = self._src_iv(st, ls, None)
            if xa is None:
                return True
            lo, hi = rc[1], rc[2]
            if op == "In":
                nl, nh = max(xa[1], lo), min(xa[2], hi)
            else:
                nl, nh = xa[1], xa[2]
                if nl >= lo:
                    nl = max(nl, hi + 1)
                if nh <= hi:
                    nh = min(nh, lo - 1)
            if nl > nh:
                return False
            return self.refine_src(st, ls, ("i", nl, nh))
        if ls is not None and rs is not None and op in ("Lt", "Le", "Gt", "Ge"):
            if op in ("Gt", "Ge"):
                st.ordf = st.ordf | {(ls, rs, op == "Gt")}
            else:
                st.ordf = st.ordf | {(rs, ls, op == "Lt")}
        if op == "Ne":
            for src, c in ((ls, rc), (rs, lc)):
                if src is not None and c is not None and c[1] == c[2] == 0:
                    nzl = {l2 for l2, s2 in st.copy.items() if s2 == src}
                    if not src[2]:
                        nzl.add(src[1])
                    st.nz = st.nz | nzl
        la = self._src_iv(st, ls, lc)
        ra = self._src_iv(st, rs, rc)
        if la is None or ra is None:
            return True
        nl, nr = refine_cmp(op, la, ra)
        if nl is None or nr is None:
            return False
        ok = self.refine_src(st, ls, nl) and self.refine_src(st, rs, nr)
        return ok

    def _src_iv(self, st, src, c):
        if src is None:
            return c
        _, l, proj, ver = src
        if st.ver.get(l, 0) != ver:
            return None
        cur, ty = self.read(st, l, proj)
        return self.as_int(cur, ty)

    def refine_local_copies(self, st, l, iv):
        """refine local l and the place it was copied from"""
        cur = st.loc.get(l)
        ci = self.as_int(cur, self.ltys[l]) if cur is not None else None
        if ci is not None:
            lo, hi = max(ci[1], iv[1]), min(ci[2], iv[2])
            if lo > hi:
                return False
            st.loc[l] = ("i", lo, hi)
            if l in st.lenof:
                self.refine_len(st, st.lenof[l], lo, hi)
        if l in st.copy:
            return self.refine_src(st, st.copy[l], iv)
        return True

    # ---- terminators -------------------------------------------------------------------------------
    def term(self, bi, st, t):
        E = self.E
        k = t["k"]
        if k == "goto":
            return [(t["target"], st)]
        if k == "drop":
            return [(t["target"], st)]
        if k == "return":
            rv = st.loc.get(0, BOT)
            self.ret = E.join(self.ret, self.export(st, rv))
            for i in range(len(self.args)):
                a = st.loc.get(i + 1, BOT)
                if a != BOT and a[0] == "r":
                    v, _ = self.read(st, i + 1, (("*",),))
                    self.effects[i] = E.join(self.effects.get(i, BOT), self.export(st, v))
            return []
        if k in ("unreachable", "resume", "terminate", "other"):
            return []
        if k == "switch":
            return self.switch(bi, st, t)
        if k == "assert":
            return self.assert_(bi, st, t)
        if k == "call":
            import abscall
            return abscall.call(self, bi, st, t)
        return []

    def switch(self, bi, st, t):
        E = self.E
        d = t["discr"]
        av, ty = self.operand(st, d)
        if av == BOT:
            return []
        iv = self.as_int(av, ty)
        outs = []
        l = d["pl"]["l"] if d["k"] in ("copy", "move") and not d["pl"]["p"] else None
        vals = [v for v, _ in t["targets"]]
        edges = [(v, b) for v, b in t["targets"]] + [(None, t["otherwise"])]
        for v, b in edges:
            if iv is not None:
                if v is not None and (v < iv[1] or v > iv[2]):
                    continue
                if v is None:
                    # feasible only if some value in iv is not listed
                    if iv[2] - iv[1] < 64 and all(x in vals for x in range(iv[1], iv[2] + 1)):
                        continue
            s2 = st.clone()
            feasible = True
            if l is not None:
                if l in st.cmp and E.ty(ty).get("k") == "bool":
                    truth = (v == 1) if v is not None else (0 in vals)
                    feasible = self.apply_cmp(s2, st.cmp[l], truth)
                    if feasible:
                        s2.loc[l] = ("i", int(truth), int(truth))
                elif l in st.dsc:
                    feasible = self.refine_discr(s2, st.dsc[l], v, vals)
                    if feasible and v is not None:
                        s2.loc[l] = ("i", v, v)
                elif self.root_flag(st, l) is not None and self.root_flag(st, l) in self.flag_snap:
                    feasible = self.flag_meet(s2, self.root_flag(st, l), v, vals, bi)
                    if feasible and v is not None:
                        s2.loc[l] = ("i", v, v)
                else:
                    if v is not None:
                        feasible = self.refine_local_copies(s2, l, ("i", v, v))
                    elif iv is not None:
                        lo, hi = iv[1], iv[2]
                        while lo in vals and lo <= hi:
                            lo += 1
                        while hi in vals and hi >= lo:
                            hi -= 1
                        if lo > hi:
                            feasible = False
                        else:
                            feasible = self.refine_local_copies(s2, l, ("i", lo, hi))
            if feasible:
                outs.append((b, s2))
        return outs

    def root_flag(self, st, l):
        """the flag local that l is (a plain copy of)"""
        if l in self.flags():
            return l
        c = st.copy.get(l)
        if c is not None and not c[2] and c[1] in self.flags() and st.ver.get(c[1], 0) == c[3]:
            return c[1]
        return None

    def refine_discr(self, st, src, v, vals):
        E = self.E
        _, l, proj, ver = src
        if st.ver.get(l, 0) != ver:
            return True
        cur, ty = self.read(st, l, proj)
        if cur == BOT:
            return False
        ex = E.expand(cur)
        if ex[0] != "e":
            return True
        keep = []
        for vi, fs in ex[2]:
            dv = E.discr_value(ex[1], vi)
            if (v is not None and dv == v) or (v is None and dv not in vals):
                keep.append((vi, fs))
        if not keep:
            return False
        if len(keep) != len(ex[2]) or ex != cur:
            saved = (dict(st.copy), dict(st.cmp), dict(st.dsc), dict(st.ver), dict(st.lenof), st.nz, st.ordf)
            self.write(st, l, proj, ("e", ex[1], tuple(keep)))
            st.copy, st.cmp, st.dsc, st.ver, st.lenof, st.nz, st.ordf = saved
        return True

    def assert_(self, bi, st, t):
        E = self.E
        ak = t["ak"]
        cond, cty = self.operand(st, t["cond"])
        ci = self.as_int(cond, cty) or BOOL
        want = 1 if t["expected"] else 0
        may_fail = not (ci[1] == ci[2] == want)
        if ak in ("Overflow", "OverflowNeg", "DivisionByZero", "RemainderByZero", "BoundsCheck"):
            if ak == "Overflow":
                desc = "%s(%s,%s)" % (t["op"], self.d_op(t["l"]), self.d_op(t["r"]))
                kind = "overflow"
            elif ak == "OverflowNeg":
                desc, kind = "Neg(%s)" % self.d_op(t["l"]), "overflow"
            elif ak in ("DivisionByZero", "RemainderByZero"):
                desc, kind = "%s(%s)" % (ak, self.d_op(t["l"])), "div-by-zero"
            else:
                desc, kind = "index(%s)" % self.d_op(t["index"]), "bounds"
            detail = None
            if may_fail:
                detail = self.assert_detail(st, t)
                # bounds checks: decide from len/index intervals directly
                if ak == "BoundsCheck":
                    ln, lt = self.operand(st, t["len"])
                    ix, it = self.operand(st, t["index"])
                    li, ii = self.as_int(ln, lt), self.as_int(ix, it)
                    if li and ii and ii[2] < li[1] and ii[1] >= 0:
                        may_fail = False
            if not t.get("x") or may_fail:
                self.oblige(bi, kind, desc, t["ln"], not may_fail, detail)
        s2 = st
        d = t["cond"]
        if d["k"] in ("copy", "move"):
            l = d["pl"]["l"]
            proj = proj_of(d["pl"])
            if not proj and l in st.cmp:
                if not self.apply_cmp(s2, st.cmp[l], bool(want)):
                    return []
            elif proj and proj[-1][0] == "f":
                # overflow flag of a checked arithmetic tuple: value already clipped
                pass
        if ci[1] == ci[2] and ci[1] != want:
            return []
        return [(t["target"], s2)]

    def assert_detail(self, st, t):
        parts = []
        for k in ("l", "r", "len", "index"):
            if k in t:
                av, ty = self.operand(st, t[k])
                iv = self.as_int(av, ty)
                parts.append("%s in %s" % (self.d_op(t[k]), "[%d, %d]" % (iv[1], iv[2]) if iv else "?"))
        return ", ".join(parts)


def _ns(s):
    """a source with the type ids of its field projections dropped (facts produced by models do not know them)"""
    if not isinstance(s, tuple) or len(s) != 4:
        return s
    return (s[0], s[1], tuple((e[0], e[1]) if isinstance(e, tuple) and e and e[0] == "f" else e for e in s[2]), s[3])


def _fact_locals(fact):
    out = []
    if isinstance(fact, tuple):
        if len(fact) == 4 and fact[0] in ("pl", "len"):
            out.append((fact[1], fact[3]))
        else:
            for x in fact:
                if isinstance(x, tuple):
                    out.extend(_fact_locals(x))
    return out


def cmp_iv(op, a, b):
    if op == "Eq":
        if a[1] == a[2] == b[1] == b[2]:
            return TRUE
        if a[2] < b[1] or b[2] < a[1]:
            return FALSE
        return BOOL
    if op == "Ne":
        r = cmp_iv("Eq", a, b)
        return ("i", 1 - r[2], 1 - r[1])
    if op == "Lt":
        if a[2] < b[1]:
            return TRUE
        if a[1] >= b[2]:
            return FALSE
        return BOOL
    if op == "Le":
        if a[2] <= b[1]:
            return TRUE
        if a[1] > b[2]:
            return FALSE
        return BOOL
    if op == "Gt":
        return cmp_iv("Lt", b, a)
    if op == "Ge":
        return cmp_iv("Le", b, a)
    return BOOL


def refine_cmp(op, a, b):
    """intervals of a and b under `a op b`; None if infeasible"""
    al, ah, bl, bh = a[1], a[2], b[1], b[2]
    if op == "Eq":
        lo, hi = max(al, bl), min(ah, bh)
        if lo > hi:
            return None, None
        return ("i", lo, hi), ("i", lo, hi)
    if op == "Ne":
        if al == ah == bl == bh:
            return None, None
        if bl == bh:
            if al == bl:
                al += 1
            if ah == bl:
                ah -= 1
        if al == ah:
            if bl == al:
                bl += 1
            if bh == al:
                bh -= 1
        if al > ah or bl > bh:
            return None, None
        return ("i", al, ah), ("i", bl, bh)
    if op == "Lt":
        ah = min(ah, bh - 1)
        bl = max(bl, al + 1)
    elif op == "Le":
        ah = min(ah, bh)
        bl = max(bl, al)
    elif op == "Gt":
        al = max(al, bl + 1)
        bh = min(bh, ah - 1)
    elif op == "Ge":
        al = max(al, bl)
        bh = min(bh, ah)
    if al > ah or bl > bh:
        return None, None
    return ("i", al, ah), ("i", bl, bh)


def arith(op, a, b, rng, t):
    """exact result interval of `a op b` over the integers (None = unknown)"""
    al, ah, bl, bh = a[1], a[2], b[1], b[2]
    if op == "Add":
        return al + bl, ah + bh
    if op == "Sub":
        return al - bh, ah - bl
    if op == "Mul":
        c = [al * bl, al * bh, ah * bl, ah * bh]
        return min(c), max(c)
    if op == "Div":
        if bl <= 0 <= bh:
            if bl == 0 and bh > 0:
                bl = 1
            elif bh == 0 and bl < 0:
                bh = -1
            else:
                m = max(abs(al), abs(ah))
                return -m, m
        c = [_tdiv(x, y) for x in (al, ah) for y in (bl, bh)]
        return min(c), max(c)
    if op == "Rem":
        m = max(abs(bl), abs(bh))
        if m == 0:
            return None
        lo = 0 if al >= 0 else -(m - 1)
        hi = 0 if ah <= 0 else (m - 1)
        if al >= 0:
            hi = min(hi, ah)
        if ah <= 0:
            lo = max(lo, al)
        return lo, hi
    if op == "BitAnd":
        if al >= 0 and bl >= 0:
            return 0, min(ah, bh)
        if bl >= 0:
            return 0, bh
        if al >= 0:
            return 0, ah
        return rng
    if op in ("BitOr", "BitXor"):
        if al >= 0 and bl >= 0 and op == "BitOr":
            return max(al, bl), _max_or(al, ah, bl, bh)
        if al >= 0 and bl >= 0:
            m = max(ah, bh)
            p = 1
            while p <= m:
                p <<= 1
            return (max(al, bl) if op == "BitOr" else 0), p - 1
        if op == "BitOr" and t.get("k") == "int":
            # sign bit may be set: result between the more negative operand bound and -1 / max
            lo = min(al, bl, 0) if (al < 0 or bl < 0) else 0
            p = 1
            m = max(abs(ah), abs(bh), abs(al), abs(bl))
            while p <= m:
                p <<= 1
            return max(-p, rng[0]), min(p - 1, rng[1])
        return rng
    if op == "Shl":
        if bl == bh and 0 <= bl < 128:
            return al << bl, ah << bl
        if bl >= 0 and bh < 128 and al >= 0:
            return al << bl, ah << bh
        return rng
    if op == "Shr":
        if bl >= 0 and bh < 128:
            c = [al >> bl, al >> bh, ah >> bl, ah >> bh]
            return min(c), max(c)
        return rng
    return None


def _max_or(a, b, c, d):
    """max of x|y for a<=x<=b, c<=y<=d (Hacker's Delight 4-3)"""
    m = 1
    while m <= max(b, d):
        m <<= 1
    m >>= 1
    while m:
        if b & d & m:
            t = (b - m) | (m - 1)
            if t >= a:
                b = t
                break
            t = (d - m) | (m - 1)
            if t >= c:
                d = t
                break
        m >>= 1
    return b | d


def _tdiv(x, y):
    q = abs(x) // abs(y)
    return q if (x >= 0) == (y >= 0) else -q


def run(E, fpath, args, depth):
    fn = Fn(E, fpath, args, depth)
    return fn.run()
