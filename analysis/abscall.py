"""Call handling of the abstract interpreter: crate-local callees (context-sensitive), closures, std models."""
from absint import BOT, BOOL, TRUE, FALSE, MAXLEN
from absfn import UNK, proj_of

FN_TRAIT = ("std::ops::Fn::call", "std::ops::FnMut::call_mut", "std::ops::FnOnce::call_once")
PANIC_FNS = ("core::panicking::", "std::rt::begin_panic", "core::option::expect_failed", "core::result::unwrap_failed",
             "std::process::abort", "core::slice::index::slice_")

# crate-local helpers whose panic site is attributed to their call site
CRATE_EXPECT = ("expect",)


# callee -> [(variant index of the payload or None for a plain integer result, strict)]: the payload is < (strict) or <= the length of the slice argument
LEN_BOUNDED = {
    "core::slice::<impl [T]>::binary_search": [(0, True), (1, False)],
    "core::slice::<impl [T]>::binary_search_by_key": [(0, True), (1, False)],
    "core::slice::<impl [T]>::binary_search_by": [(0, True), (1, False)],
    "core::slice::<impl [T]>::partition_point": [(None, False)],
}


def str_of_arg(F, st, a):
    if a["k"] == "const" and isinstance(a.get("v"), str):
        return a["v"]
    return None


def call(F, bi, st, t):
    E = F.E
    P = F.P
    c = t["callee"]
    args = []
    for a in t["args"]:
        av, ty = F.operand(st, a)
        if av == BOT:
            return []
        args.append((av, ty))
    dest = t["dest"]
    target = t["target"]
    dty = F.ltys[dest["l"]]
    for e in dest["p"]:
        if e != "*" and e[0] == "f":
            dty = e[2]
    name = c.get("resolved") or c.get("def")
    ret = None
    handled = False

    if "indirect" in c:
        cav, _ = F.operand(st, c["indirect"])
        ret = invoke(F, bi, st, t, cav, [a for a, _ in args], [a for a in t["args"]])
        handled = True
    elif c.get("def") in FN_TRAIT or (c.get("resolved") is None and c.get("def", "").startswith("std::ops::Fn")):
        cav = args[0][0]
        cav = deref_val(F, st, cav)
        tup = E.expand(args[1][0]) if len(args) > 1 else ("s", ())
        targs = list(tup[1]) if tup[0] == "s" else []
        ret = invoke(F, bi, st, t, cav, targs, None)
        handled = True
    elif name is not None and any(name.startswith(p) for p in PANIC_FNS) or (target is None and name is not None and not P.has(name)):
        msg = None
        for a in t["args"]:
            msg = msg or str_of_arg(F, st, a)
        short = name.split("::")[-1]
        if not t.get("x") or True:
            F.oblige(bi, "panic", "%s(%s)" % (short, (msg or "")[:60]), t["ln"], False, "panicking call is reachable")
        return []

    if not handled:
        cands = P.callees_of_site(t)
        in_crate = [x for x in cands if P.has(x)]
        resolved = c.get("resolved")
        if resolved is not None and P.has(resolved):
            short = resolved
            if resolved in CRATE_EXPECT:
                ret = model_expect(F, bi, st, t, args)
            else:
                ret = invoke_fn(F, bi, st, t, resolved, args)
            handled = True
        elif resolved is None and in_crate:
            # generic receiver: every type-compatible in-crate implementation is analysed; foreign ones are assumed well-behaved
            r = BOT
            targs = [(F.export(st, a), ty) for a, ty in args]
            in_crate = [fn for fn in in_crate if compatible(F, fn, targs)]
            for fn in in_crate:
                st_copy = st.clone()
                x = invoke_fn(F, bi, st_copy, t, fn, args)
                if x is not None:
                    r = E.join(r, x)
            havoc_mut_args(F, st, t, args)
            # the receiver is a concrete in-crate type: the (type-filtered) in-crate implementations are the only callees
            recv = adt_of_av(F, targs[0][0], targs[0][1]) if targs else None
            if in_crate and recv is not None and recv in P.adts and r != BOT and r[0] != "unk":
                ret = r
            else:
                ret = ("t", dty)
            handled = True
    if not handled:
        m = E.std.get(name)
        if m is None and c.get("resolved") is None and c.get("def"):
            m = E.std.get("?" + c["def"])
        if m is not None:
            ret = m(F, bi, st, t, args)
            if ret is None:
                ret = ("t", dty)
        else:
            E.unmodelled[name or "?"] += 1
            # closures handed to an unmodelled callee: their bodies still carry obligations
            for av, ty in args:
                analyse_closure_args(F, bi, st, t, av)
            havoc_mut_args(F, st, t, args)
            ret = ("t", dty)
    if ret == BOT or target is None:
        return []
    if ret is not None and ret[0] == "unk":
        ret = ("t", dty)
    F.write(st, dest["l"], proj_of(dest), ret)
    if name in ("core::slice::<impl [T]>::len", "core::str::<impl str>::len") and not dest["p"] and len(args) == 1:
        src = F.slice_src(st, t["args"][0], args[0][0])
        if src is not None:
            st.lenof[dest["l"]] = src
    if name in LEN_BOUNDED and not dest["p"] and args:
        # results that are positions in a slice: order facts against the length of that very slice (pseudo-source `len`)
        src = F.slice_src(st, t["args"][0], args[0][0])
        if src is not None:
            X = ("len",) + tuple(src[1:])
            D, ver = dest["l"], st.ver.get(dest["l"], 0)
            for vidx, strict in LEN_BOUNDED[name]:
                proj = () if vidx is None else (("d", vidx), ("f", 0, None))
                st.ordf = st.ordf | {(X, ("pl", D, proj, ver), strict)}
    if name is not None and name.endswith(("::checked_sub", "::checked_add")) and name.startswith("core::num::<impl u") and not dest["p"] and len(args) == 2 and st.ordf:
        c = F.as_int(args[1][0], args[1][1])
        if c is not None and c[1] == c[2]:
            k = c[1]
            s0 = F.own_src(st, t["args"][0])
            if s0 is not None:
                import absfn as _af
                cands = (s0, F._orig(st, s0))
                D, ver = dest["l"], st.ver.get(dest["l"], 0)
                some = ("pl", D, (("d", 1), ("f", 0, None)), ver)
                add = set()
                for (x, y, strict) in st.ordf:
                    if x[0] != "len" or st.ver.get(x[1], 0) != x[3] or st.ver.get(y[1], 0) != y[3]:
                        continue
                    if any(_af._ns(cc) == _af._ns(y) for cc in cands):
                        if name.endswith("checked_sub") and k >= 0:
                            add.add((x, some, strict or k >= 1))
                        elif name.endswith("checked_add") and k == 0:
                            add.add((x, some, strict))
                        elif name.endswith("checked_add") and k == 1 and strict:
                            add.add((x, some, False))
                if add:
                    st.ordf = st.ordf | add
    if name in ("std::ops::RangeInclusive::<Idx>::contains", "std::ops::Range::<Idx>::contains") and not dest["p"] and len(args) == 2:
        rng = deref_val(F, st, args[0][0])
        x = args[1][0]
        if rng != BOT and rng[0] == "s" and x[0] == "r" and x[1][0] == "loc":
            lo, hi = F.as_int(rng[1][0], None), F.as_int(rng[1][1], None)
            if lo is not None and hi is not None and lo[1] == lo[2] and hi[1] == hi[2]:
                top_ = hi[1] if "Inclusive" in name else hi[1] - 1
                l = x[1][1]
                st.cmp[dest["l"]] = ("In", ("pl", l, x[1][2], st.ver.get(l, 0)), None, None, ("i", lo[1], top_))
    return [(target, st)]


def deref_val(F, st, av):
    E = F.E
    n = 0
    while n < 4:
        av = E.expand(av)
        if av[0] == "r":
            tg = av[1]
            if tg[0] == "val":
                av = tg[1]
            elif tg[0] == "loc":
                av, _ = F.read(st, tg[1], tg[2])
            else:
                return UNK
        else:
            return av
        n += 1
    return av


def is_mut_ref_ty(E, tyid):
    if tyid is None:
        return False
    t = E.ty(tyid)
    return t.get("k") == "ref" and t.get("mut")


def havoc_mut_args(F, st, t, args):
    """values reachable through &mut arguments are unknown after an unanalysed call"""
    E = F.E
    for (av, ty), a in zip(args, t["args"]):
        if is_mut_ref_ty(E, ty):
            write_back(F, st, a, av, ("t", E.ty(ty)["inner"]))


def write_back(F, st, operand, av, newval):
    if av == BOT:
        return
    if av[0] == "r":
        tg = av[1]
        if tg[0] == "loc":
            F.write(st, tg[1], tg[2], newval)
            return
    if operand is not None and operand["k"] in ("copy", "move"):
        pl = operand["pl"]
        F.write(st, pl["l"], proj_of(pl) + (("*",),), newval)


def invoke_fn(F, bi, st, t, fn, args, extra_first=None):
    E = F.E
    P = F.P
    avs = [F.export(st, a) for a, _ in args]
    if extra_first is not None:
        avs = [extra_first] + avs
    f = P.fn(fn)
    m = f["mir"]
    if len(avs) != m["argc"]:
        # arity mismatch (rust-call ABI etc.): fall back to unknown arguments
        avs = [("t", m["locals"][i + 1]) for i in range(m["argc"])]
    avs = [coerce(E, a, m["locals"][i + 1]) for i, a in enumerate(avs)]
    res = E.analyse(fn, tuple(avs), F.depth + 1)
    if res is None:
        return None
    cha_deprecated = fn in E.deprecated and t["callee"].get("resolved") is None if t is not None else False
    # (a provided trait method instantiated at a deprecated type is that type's API: not charged)
    if fn in E.docpanic and t is not None and not cha_deprecated and not any(x in E.docpanic for x in E.callstack):
        # entering a documented panicker from code that is not one: its panic condition must be excluded here
        F.oblige(bi, "doc-panic", "%s(%s)" % (fn, ",".join(F.d_op(a) for a in t["args"])), t["ln"], E.last_fails == 0,
                 "the callee is documented to panic and %d obligation(s) below it are not discharged for these arguments" % E.last_fails)
    ret, eff = res
    # write effects on &mut parameters back to the caller's places
    for i, (av, ty) in enumerate(args):
        j = i + (1 if extra_first is not None else 0)
        pty = m["locals"][j + 1]
        if is_mut_ref_ty(E, pty) and j in eff and t is not None and i < len(t["args"]):
            ev = eff[j]
            if ev[0] == "unk":
                ev = ("t", E.ty(pty)["inner"])
            write_back(F, st, t["args"][i], av, ev)
    return ret


def adt_of_ty(E, ty):
    n = 0
    while ty is not None and n < 4:
        t = E.ty(ty)
        if t.get("k") in ("ref", "ptr"):
            ty = t["inner"]
            n += 1
            continue
        if t.get("k") == "adt":
            return t["adt"]
        if t.get("k") in ("int", "uint", "bool", "char", "str", "tuple", "slice", "array", "float"):
            return t["s"]
        return None
    return None


def adt_of_av(F, av, ty, depth=0):
    E = F.E
    if av == BOT or depth > 3:
        return None
    if av[0] == "t":
        return adt_of_ty(E, av[1])
    if av[0] == "r" and av[1][0] == "val":
        return adt_of_av(F, av[1][1], None, depth + 1)
    if av[0] == "e":
        return av[1]
    return adt_of_ty(E, ty) if ty is not None else None


# bounds on associated types that narrow class-hierarchy resolution (src/offset/mod.rs: `type Offset: Offset;` in trait TimeZone)
ASSOC_BOUNDS = {"<Tz as offset::TimeZone>::Offset": "offset::Offset"}
_implementors = {}


def implementors(P, trait):
    if trait not in _implementors:
        _implementors[trait] = set(P.ty(i["self_ty"]).get("adt") for i in P.impls if i.get("trait") == trait)
    return _implementors[trait]


def assoc_bound_of(E, av, ty, depth=0):
    """bound trait of an abstract value whose static type is (a reference to) a bounded associated type"""
    if av is not None and av != BOT and av[0] == "t":
        ty = av[1]
    elif av is not None and av != BOT and av[0] == "r" and av[1][0] == "val" and depth < 3:
        return assoc_bound_of(E, av[1][1], None, depth + 1)
    n = 0
    while ty is not None and n < 4:
        t = E.ty(ty)
        if t.get("k") in ("ref", "ptr"):
            ty = t["inner"]
            n += 1
            continue
        return ASSOC_BOUNDS.get(t["s"])
    return None


def compatible(F, fn, args):
    E = F.E
    m = F.P.fn(fn)["mir"]
    if args:
        b = assoc_bound_of(E, args[0][0], args[0][1])
        if b is not None:
            p = adt_of_ty(E, m["locals"][1])
            if p is not None and p not in implementors(F.P, b):
                return False
    for i, (av, ty) in enumerate(args):
        if i >= m["argc"]:
            break
        a = adt_of_av(F, av, ty)
        p = adt_of_ty(E, m["locals"][i + 1])
        if a is not None and p is not None and a != p:
            return False
    return True


def coerce(E, av, pty, depth=0):
    """an argument whose abstract value carries no usable type (generic / associated type / unknown) takes the
    callee's declared parameter type (and with it the type invariants)"""
    if av == BOT or depth > 3:
        return av
    if av[0] == "unk":
        return ("t", pty)
    if av[0] == "t":
        k = E.ty(av[1]).get("k")
        if k in ("alias", "param", "other", "dyn") and E.ty(pty).get("k") not in ("alias", "param", "other", "dyn"):
            return ("t", pty)
        return av
    if av[0] == "r" and av[1][0] == "val":
        pt = E.ty(pty)
        if pt.get("k") in ("ref", "ptr"):
            return ("r", ("val", coerce(E, av[1][1], pt["inner"], depth + 1)))
    return av


def invoke(F, bi, st, t, cav, argvals, operands):
    """call a closure / fn item value with already evaluated argument values"""
    E = F.E
    P = F.P
    cav = E.expand(cav) if cav != BOT else cav
    if cav == BOT:
        return BOT
    if cav[0] == "fn":
        fn = cav[1]
        if P.has(fn):
            return invoke_fn(F, bi, st, None, fn, [(a, None) for a in argvals])
        # enum variant / tuple struct constructor used as a function value
        head, _, var = fn.rpartition("::")
        adt = P.adts.get(head)
        if adt is not None:
            for vi, v in enumerate(adt["variants"]):
                if v["name"] == var:
                    if adt["kind"] == "Enum":
                        return ("e", head, ((vi, tuple(argvals)),))
                    return ("s", tuple(argvals))
        if fn in ("std::option::Option::Some",):
            return ("e", "std::option::Option", ((1, tuple(argvals)),))
        if fn in ("std::result::Result::Ok", "std::result::Result::Err"):
            return ("e", "std::result::Result", ((0 if fn.endswith("Ok") else 1, tuple(argvals)),))
        m = E.std.get(fn)
        if m is not None:
            r = m(F, bi, st, {"args": [], "ln": t["ln"], "callee": {"def": fn}, "dest": t["dest"]}, [(a, None) for a in argvals])
            return r if r is not None else UNK
        E.unmodelled[fn] += 1
        return UNK
    if cav[0] == "c":
        fn = cav[1]
        if not P.has(fn):
            return UNK
        f = P.fn(fn)
        m = f["mir"]
        envty = E.ty(m["locals"][1]) if m["argc"] >= 1 else {}
        env = F.export(st, cav)
        if envty.get("k") == "ref":
            env = ("r", ("val", env))
        return invoke_fn(F, bi, st, None, fn, [(a, None) for a in argvals], extra_first=env)
    return UNK


def analyse_closure_args(F, bi, st, t, av, depth=0):
    """a closure value that escapes into unanalysed code: analyse its body with unknown arguments"""
    E = F.E
    P = F.P
    if av == BOT or depth > 3:
        return
    if av[0] == "c" and P.has(av[1]):
        f = P.fn(av[1])
        m = f["mir"]
        n = m["argc"] - 1
        invoke(F, bi, st, t, av, [("t", m["locals"][i + 2]) for i in range(n)], None)
    elif av[0] == "fn" and P.has(av[1]):
        f = P.fn(av[1])
        m = f["mir"]
        invoke(F, bi, st, t, av, [("t", m["locals"][i + 1]) for i in range(m["argc"])], None)
    elif av[0] == "r":
        analyse_closure_args(F, bi, st, t, deref_val(F, st, av), depth + 1)
    elif av[0] == "s":
        for x in av[1]:
            analyse_closure_args(F, bi, st, t, x, depth + 1)


def model_expect(F, bi, st, t, args):
    """crate::expect(opt, msg): Option::expect usable in const context"""
    E = F.E
    av = E.expand(args[0][0])
    if av[0] != "e":
        F.oblige(bi, "unwrap", "expect(%s)" % F.d_op(t["args"][0]), t["ln"], False, "argument is not known to be Some")
        ex = E.expand(("t", args[0][1])) if args[0][1] is not None else av
        if ex[0] == "e":
            d = dict(ex[2])
            return d.get(1, (UNK,))[0] if d.get(1) else UNK
        return UNK
    d = dict(av[2])
    ok = 0 not in d
    F.oblige(bi, "unwrap", "expect(%s)" % F.d_op(t["args"][0]), t["ln"], ok, "argument may be None")
    if 1 in d and d[1]:
        return d[1][0]
    return BOT
