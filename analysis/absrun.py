"""driver for E1: analyse a set of root functions and report obligations"""
import sys, time
from core import Prog
from absint import Engine


def analyse(P, roots, **kw):
    E = Engine(P, **kw)
    for r in roots:
        if P.has(r):
            E.analyse_root(r)
    return E


if __name__ == "__main__":
    cfg = "default"
    args = sys.argv[1:]
    P = Prog(cfg)
    t0 = time.time()
    roots = []
    for a in args:
        roots += [n for n in P.fns if a in n and P.has(n)] if not P.has(a) else [a]
    E = analyse(P, roots)
    bad = [o for o in E.obl.values() if o.bad]
    ok = [o for o in E.obl.values() if not o.bad]
    print("roots %d, contexts %d, functions %d, obligations %d, undischarged %d, %.1fs" % (len(roots), E.contexts, len(E.fn_analysed), len(E.obl), len(bad), time.time() - t0))
    for o in sorted(bad, key=lambda o: (o.fn, o.ln)):
        print("  %s:%s %s %s :: %s" % (o.fn, o.ln, o.kind, o.desc, o.detail))
    if E.unmodelled:
        print("unmodelled:", dict(E.unmodelled))
