"""Def-use expression reconstruction over MIR paths (no solver, no execution).

For a function, enumerates the acyclic CFG paths from a start block to return (bounded) and, along
each path, rebuilds the expression tree ("term") of every value from its definitions: constants,
arguments, aggregates, operators, casts and calls with their argument terms. Rules then pattern-match
on these terms (which field is copied where, which constant divides what, which callee produced the
result, which literal is written in which order).

Terms (tuples):
  ('const', value)                      value: int/bool/str/decoded tree
  ('named', defpath, value|None)        named constant operand
  ('fn', path)
  ('arg', i)                            i-th MIR argument (1-based local index)
  ('field', t, idx)  ('as', t, variant) ('deref', t) ('ref', t) ('index', t, i)
  ('agg', kind, head, variant, (fields...))   kind: adt|tuple|array|closure
  ('bin', op, l, r)  ('un', op, x)  ('cast', x, to_ty_str)  ('discr', t)
  ('call', callee, (args...), site)     site = (block, line)
  ('undef', local)
"""
from core import succs


class Path:
    __slots__ = ("conds", "ret", "calls", "blocks", "end", "env")

    def __init__(self):
        self.conds = []
        self.ret = None
        self.calls = []
        self.blocks = []
        self.end = None
        self.env = None


class TooManyPaths(Exception):
    pass


def subst_args(t, mapping):
    """replace ('arg', i) leaves of a term by mapping[i]"""
    if isinstance(t, tuple):
        if len(t) == 2 and t[0] == "arg" and isinstance(t[1], int):
            return mapping.get(t[1], t)
        return tuple(subst_args(x, mapping) for x in t)
    return t


_inline_cache = {}


class Sym:
    def __init__(self, prog, fpath):
        self.prog = prog
        self.fpath = fpath
        self.f = prog.fn(fpath)
        self.mir = self.f["mir"]
        self.blocks = self.mir["blocks"]
        self.argc = self.mir["argc"]

    # ---- term construction ------------------------------------------------------------
    def read_local(self, env, l):
        if l in env:
            return env[l]
        if 1 <= l <= self.argc:
            return ("arg", l)
        return ("undef", l)

    def proj(self, t, e):
        if e == "*":
            if t[0] == "ref":
                return t[1]
            if t[0] == "upd" and t[2] == "*":
                return t[3]            # read after write through the same reference
            return ("deref", t)
        k = e[0]
        if k == "f" and t[0] == "upd" and isinstance(t[2], tuple) and t[2][0] == "f":
            if t[2][1] == e[1]:
                return t[3]
            return self.proj(t[1], e)
        if k == "f":
            if t[0] == "agg" and t[1] in ("adt", "tuple", "closure") and e[1] < len(t[4]):
                return t[4][e[1]]
            return ("field", t, e[1])
        if k == "d":
            if t[0] == "agg":
                return t
            return ("as", t, e[2] if e[2] is not None else e[1])
        if k == "i":
            return ("index", t, ("local", e[1]))
        if k == "ci":
            if t[0] == "agg" and t[1] == "array" and not e[3] and e[1] < len(t[4]):
                return t[4][e[1]]
            return ("index", t, ("const", e[1]))
        return ("proj", t, str(e))

    def place(self, env, p):
        t = self.read_local(env, p["l"])
        for e in p["p"]:
            if e != "*" and e[0] == "i":
                t = ("index", t, self.read_local(env, e[1]))
            else:
                t = self.proj(t, e)
        return t

    def operand(self, env, o):
        k = o["k"]
        if k in ("copy", "move"):
            return self.place(env, o["pl"])
        if k == "const":
            if "fn" in o:
                return ("fn", o["fn"])
            if "def" in o and "promoted" not in o:
                return ("named", o["def"], _freeze(o.get("v")))
            return ("const", _freeze(o.get("v")))
        return ("other", str(o))

    def rvalue(self, env, rv):
        k = rv["k"]
        if k == "use":
            return self.operand(env, rv["x"])
        if k == "bin":
            return ("bin", rv["op"], self.operand(env, rv["l"]), self.operand(env, rv["r"]))
        if k == "un":
            return ("un", rv["op"], self.operand(env, rv["x"]))
        if k == "cast":
            return ("cast", self.operand(env, rv["x"]), self.prog.ty_s(rv["to"]), rv["ck"])
        if k == "agg":
            fields = tuple(self.operand(env, x) for x in rv["fields"])
            ak = rv["ak"]
            if ak == "adt":
                return ("agg", "adt", rv["adt"], rv["variant"], fields, rv["vidx"])
            if ak == "closure":
                return ("agg", "closure", rv["def"], None, fields, None)
            return ("agg", ak, None, None, fields, None)
        if k == "discr":
            return ("discr", self.place(env, rv["pl"]))
        if k in ("ref", "rawptr"):
            return ("ref", self.place(env, rv["pl"]))
        if k == "repeat":
            return ("repeat", self.operand(env, rv["x"]), rv["n"])
        if k == "tlref":
            return ("tlref", rv["def"])
        return ("other", str(rv)[:80])

    def assign(self, env, pl, term):
        if not pl["p"]:
            env[pl["l"]] = term
            return
        # field write: rebuild an aggregate-with-update term
        base = self.read_local(env, pl["l"])
        env[pl["l"]] = self._upd(base, pl["p"], term)

    def _upd(self, base, proj, term):
        if not proj:
            return term
        e = proj[0]
        if e == "*":
            if base[0] == "ref":
                return ("ref", self._upd(base[1], proj[1:], term))
            return ("upd", base, "*", self._upd(("deref", base), proj[1:], term))
        if e[0] == "f" and base[0] == "agg" and base[1] in ("adt", "tuple", "closure") and e[1] < len(base[4]):
            fs = list(base[4])
            fs[e[1]] = self._upd(fs[e[1]], proj[1:], term)
            return base[:4] + (tuple(fs),) + base[5:]
        key = ("f", e[1]) if e[0] == "f" else str(e)
        return ("upd", base, key, self._upd(self.proj(base, e), proj[1:], term))

    def _known_switch_value(self, d):
        if d[0] == "const" and isinstance(d[1], (int, bool)):
            return int(d[1])
        if d[0] == "discr" and d[1][0] == "call" and isinstance(d[1][1], str) and self.prog.has(d[1][1]):
            # a trivial constructor function (single straight-line path returning an aggregate)
            cache = self.prog.__dict__.setdefault("_ctor_cache", {})
            name = d[1][1]
            if name not in cache:
                cache[name] = None
                try:
                    ps = [p for p in Sym(self.prog, name).paths(max_paths=4) if p.end[0] == "return"]
                    if len(ps) == 1 and not [c for c in ps[0].conds if c[0][0] == "switch"] and ps[0].ret[0] == "agg" and ps[0].ret[1] == "adt":
                        cache[name] = ps[0].ret
                except Exception:
                    pass
            r = cache[name]
            if r is not None:
                d = ("discr", r)
        if d[0] == "discr" and d[1][0] == "agg" and d[1][1] == "adt":
            adt = self.prog.adts.get(d[1][2])
            vidx = d[1][5]
            if adt is not None:
                return adt["variants"][vidx]["discr"]
            return vidx
        return None

    # ---- path enumeration -------------------------------------------------------------
    def paths(self, start=0, env=None, stop_blocks=(), max_paths=4000, max_len=400, switch_filter=None):
        """enumerate acyclic paths from `start`; a path ends at return, at a block in stop_blocks,
        at a diverging call/unreachable, or when it would revisit a block (end='loop')."""
        out = []
        self._count = 0

        def walk(b, env, path, onpath):
            while True:
                if len(out) > max_paths:
                    raise TooManyPaths(self.fpath)
                if b in stop_blocks and path.blocks:
                    path.end = ("stop", b)
                    path.env = env
                    out.append(path)
                    return
                if b in onpath or len(path.blocks) > max_len:
                    path.end = ("loop", b)
                    path.env = env
                    out.append(path)
                    return
                onpath = onpath | {b}
                path.blocks.append(b)
                blk = self.blocks[b]
                for st in blk["s"]:
                    if st["k"] == "assign":
                        val = self.rvalue(env, st["rv"])
                        if val[0] == "bin" and val[1].endswith("WithOverflow") and not st["pl"]["p"]:
                            # keep the operand type of a checked operation (the destination is `(T, bool)`): the folder needs it to compute the overflow flag
                            ts = self.prog.ty_s(self.mir["locals"][st["pl"]["l"]])
                            if ts.startswith("(") and ts.endswith(", bool)"):
                                val = val + (ts[1:-7],)
                        self.assign(env, st["pl"], val)
                    elif st["k"] == "setdiscr":
                        self.assign(env, st["pl"], ("setdiscr", self.place(env, st["pl"]), st["vidx"]))
                t = blk["t"]
                k = t["k"]
                if k == "goto":
                    b = t["target"]
                    continue
                if k == "return":
                    path.ret = self.read_local(env, 0)
                    path.end = ("return", b)
                    path.env = env
                    out.append(path)
                    return
                if k in ("unreachable", "resume", "terminate", "other"):
                    path.end = (k, b)
                    path.env = env
                    out.append(path)
                    return
                if k == "drop":
                    b = t["target"]
                    continue
                if k == "assert":
                    path.conds.append((("assert", t["ak"], t.get("op")), self.operand(env, t["cond"]), t["expected"], b))
                    b = t["target"]
                    continue
                if k == "call":
                    c = t["callee"]
                    name = c.get("resolved") or c.get("def")
                    if name is None:
                        name = ("indirect", self.operand(env, c["indirect"]))
                    args = tuple(self.operand(env, a) for a in t["args"])
                    term = ("call", name, args, (b, t["ln"]))
                    # `?` on a value whose variant is known (an inlined helper's Ok(..) / Err(..)): fold to the ControlFlow value
                    if isinstance(name, str) and name.endswith("as std::ops::Try>::branch") and len(args) == 1 and args[0][0] == "agg" and args[0][1] == "adt" \
                            and args[0][3] in ("Ok", "Some", "Err", "None") and t["target"] is not None:
                        a0 = args[0]
                        if a0[3] in ("Ok", "Some"):
                            folded = ("agg", "adt", "std::ops::ControlFlow", "Continue", (a0[4][0],), 0)
                        else:
                            folded = ("agg", "adt", "std::ops::ControlFlow", "Break", (a0,), 1)
                        self.assign(env, t["dest"], folded)
                        b = t["target"]
                        continue
                    # a private helper that did not exist in the reviewed tree (extracted by a refactoring) is looked through:
                    # the caller's paths fork over the helper's return paths, with the helper's conditions, calls and result substituted
                    if isinstance(name, str) and t["target"] is not None and getattr(self, "_inline_depth", 0) < 2:
                        import rules
                        if rules.is_new_helper(self.prog, name):
                            key = (self.prog.config, name)
                            if key not in _inline_cache:
                                sub = Sym(self.prog, name)
                                sub._inline_depth = getattr(self, "_inline_depth", 0) + 1
                                try:
                                    _inline_cache[key] = [sp for sp in sub.paths(max_paths=48) if sp.end[0] == "return"]
                                except TooManyPaths:
                                    _inline_cache[key] = None
                            sps = _inline_cache[key]
                            if sps:
                                mapping = {i + 1: a for i, a in enumerate(args)}
                                for sp in sps:
                                    p2 = Path()
                                    p2.conds = list(path.conds) + [(c[0], subst_args(c[1], mapping), c[2], ("inl", name, c[3])) for c in sp.conds]
                                    p2.calls = list(path.calls) + [subst_args(c, mapping) for c in sp.calls]
                                    p2.blocks = list(path.blocks)
                                    env2 = dict(env)
                                    r2 = subst_args(sp.ret, mapping)
                                    if r2[0] == "call" and isinstance(r2[1], str) and r2[1].endswith("::from_residual"):
                                        # the helper propagated a failure with `?`: its result is the failing variant
                                        if "FromResidual<std::option::Option" in r2[1]:
                                            r2 = ("agg", "adt", "std::option::Option", "None", (), 0)
                                        elif "FromResidual<std::result::Result" in r2[1]:
                                            r2 = ("agg", "adt", "std::result::Result", "Err", (r2,), 1)
                                    self.assign(env2, t["dest"], r2)
                                    walk(t["target"], env2, p2, onpath)
                                return
                    path.calls.append(term)
                    self.assign(env, t["dest"], term)
                    if t["target"] is None:
                        path.end = ("diverge", b)
                        path.env = env
                        out.append(path)
                        return
                    b = t["target"]
                    continue
                if k == "switch":
                    d = self.operand(env, t["discr"])
                    # constant-fold on known discriminants
                    known = self._known_switch_value(d)
                    edges = [(v, tb) for v, tb in t["targets"]] + [("else", t["otherwise"])]
                    if known is not None:
                        tb = None
                        for v, x in t["targets"]:
                            if v == known:
                                tb = x
                        if tb is None:
                            tb = t["otherwise"]
                        b = tb
                        continue
                    if switch_filter is not None:
                        edges = switch_filter(b, d, edges)
                    vals = [v for v, _ in t["targets"]]
                    # a discriminant already decided on this path (identical term: same value, same call instance) keeps its value:
                    # contradictory combinations are infeasible and not enumerated
                    for pk, pd, pv, pb in path.conds:
                        if pk == ("switch",) and pd == d and not (isinstance(d, tuple) and d and d[0] == "const"):
                            if isinstance(pv, tuple) and pv and pv[0] == "else":
                                edges = [(v, tb) for v, tb in edges if v == "else" or v not in pv[1]]
                            else:
                                keep = [(v, tb) for v, tb in edges if v == pv]
                                edges = keep if keep else [(v, tb) for v, tb in edges if v == "else"]
                            break
                    first = True
                    for v, tb in edges:
                        p2 = Path()
                        p2.conds = list(path.conds)
                        p2.conds.append((("switch",), d, v if v != "else" else ("else", tuple(vals)), b))
                        p2.calls = list(path.calls)
                        p2.blocks = list(path.blocks)
                        walk(tb, dict(env), p2, onpath)
                    return
                raise AssertionError("unknown terminator " + k)

        p = Path()
        walk(start, dict(env or {}), p, frozenset())
        return out




def _freeze(v):
    if isinstance(v, dict):
        return tuple((k, _freeze(x)) for k, x in v.items())
    if isinstance(v, list):
        return tuple(_freeze(x) for x in v)
    return v


def thaw(v):
    if isinstance(v, tuple):
        if all(isinstance(x, tuple) and len(x) == 2 and isinstance(x[0], str) for x in v) and v:
            return {k: thaw(x) for k, x in v}
        return [thaw(x) for x in v]
    return v


def const_of(t):
    """integer/str/bool constant value of a term, looking through named consts and int casts"""
    if t[0] == "const":
        return t[1]
    if t[0] == "named":
        return t[2]
    if t[0] == "cast" and t[3].startswith("IntToInt"):
        return const_of(t[1])
    if t[0] == "field":
        base = const_of(t[1])
        if isinstance(base, tuple):
            d = dict(base) if all(isinstance(x, tuple) and len(x) == 2 for x in base) else None
            if d and "fields" in d:
                fs = list(d["fields"])
                if t[2] < len(fs):
                    return fs[t[2]][1]
            if d and "tuple" in d and t[2] < len(d["tuple"]):
                return d["tuple"][t[2]]
    if t[0] in ("ref", "deref"):
        return const_of(t[1])
    return None


def strip(t):
    """look through refs/derefs/copies-for-deref/int-to-int casts"""
    while True:
        if t[0] in ("ref", "deref"):
            t = t[1]
        else:
            return t


def walk_terms(t):
    yield t
    if isinstance(t, tuple):
        for x in t[1:]:
            if isinstance(x, tuple) and x and isinstance(x[0], str):
                yield from walk_terms(x)
            elif isinstance(x, tuple):
                for y in x:
                    if isinstance(y, tuple) and y and isinstance(y[0], str):
                        yield from walk_terms(y)


def pp(t, depth=0):
    if not isinstance(t, tuple):
        return repr(t)
    if depth > 8:
        return "…"
    k = t[0]
    if k == "const":
        s = repr(t[1])
        return s if len(s) < 50 else s[:50] + "…"
    if k == "named":
        return t[1].split("::")[-1]
    if k == "fn":
        return "fn " + t[1]
    if k == "arg":
        return "arg%d" % t[1]
    if k == "field":
        return "%s.%s" % (pp(t[1], depth + 1), t[2])
    if k == "as":
        return "(%s as %s)" % (pp(t[1], depth + 1), t[2])
    if k == "deref":
        return "*" + pp(t[1], depth + 1)
    if k == "ref":
        return "&" + pp(t[1], depth + 1)
    if k == "agg":
        head = (t[2] or t[1]).split("::")[-1]
        if t[3]:
            head += "::" + t[3]
        return "%s(%s)" % (head, ", ".join(pp(x, depth + 1) for x in t[4]))
    if k == "bin":
        return "%s(%s, %s)" % (t[1], pp(t[2], depth + 1), pp(t[3], depth + 1))
    if k == "un":
        return "%s(%s)" % (t[1], pp(t[2], depth + 1))
    if k == "cast":
        return "(%s as %s)" % (pp(t[1], depth + 1), t[2])
    if k == "discr":
        return "discr(%s)" % pp(t[1], depth + 1)
    if k == "call":
        name = t[1] if isinstance(t[1], str) else "indirect"
        return "%s(%s)" % (name.split("::")[-1] if "<" not in name else name, ", ".join(pp(x, depth + 1) for x in t[2]))
    if k == "index":
        return "%s[%s]" % (pp(t[1], depth + 1), pp(t[2], depth + 1))
    return "%s(…)" % k
