"""E3 runner: the compile-fail witnesses of /verif/witness (type-level lemma: invariant-carrying types are closed)."""
import os
import re
import shutil
import subprocess

from facts import VERIF, REPO, CACHE


def run():
    """returns (passed, failed, [(name, kind, ok)], raw tail)"""
    import fcntl
    os.makedirs(CACHE, exist_ok=True)
    lock = open(os.path.join(CACHE, "lock_witness"), "w")
    fcntl.flock(lock, fcntl.LOCK_EX)
    # a private copy of the witness crate whose path dependency names the tree under analysis
    wdir = os.path.join(CACHE, "witness_src")
    shutil.rmtree(wdir, ignore_errors=True)
    os.makedirs(os.path.join(wdir, "src"))
    man = open(os.path.join(VERIF, "witness", "Cargo.toml")).read()
    if 'path = "/repo"' not in man:
        raise RuntimeError("witness/Cargo.toml: path dependency on /repo not found")
    open(os.path.join(wdir, "Cargo.toml"), "w").write(man.replace('path = "/repo"', 'path = "%s"' % REPO))
    shutil.copyfile(os.path.join(VERIF, "witness", "src", "lib.rs"), os.path.join(wdir, "src", "lib.rs"))
    if os.path.exists(os.path.join(REPO, "Cargo.lock")):
        shutil.copyfile(os.path.join(REPO, "Cargo.lock"), os.path.join(wdir, "Cargo.lock"))
    elif os.path.exists("/repo/Cargo.lock"):
        shutil.copyfile("/repo/Cargo.lock", os.path.join(wdir, "Cargo.lock"))
    env = dict(os.environ, CARGO_NET_OFFLINE="true", CARGO_TARGET_DIR=os.path.join(CACHE, "witness_target"))
    cmd = ["cargo", "+nightly", "test", "--doc", "--offline"]
    r = subprocess.run(cmd, cwd=wdir, env=env, stdout=subprocess.PIPE, stderr=subprocess.STDOUT, text=True)
    tests = []
    for m in re.finditer(r"^test src/lib.rs - (\S+) \(line (\d+)\) - (compile fail|compile) \.\.\. (\w+)", r.stdout, re.M):
        tests.append((m.group(1) + ":" + m.group(2), m.group(3), m.group(4) == "ok"))
    m = re.search(r"test result: \w+\. (\d+) passed; (\d+) failed", r.stdout)
    passed, failed = (int(m.group(1)), int(m.group(2))) if m else (0, -1)
    return passed, failed, tests, r.stdout[-1500:]
