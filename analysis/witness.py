"""E3 runner: the compile-fail witnesses of /verif/witness (type-level lemma: invariant-carrying types are closed)."""
import os
import re
import shutil
import subprocess

from facts import VERIF, REPO, CACHE


def run():
    """returns (passed, failed, [(name, kind, ok)], raw tail)"""
    wdir = os.path.join(VERIF, "witness")
    shutil.copyfile(os.path.join(REPO, "Cargo.lock"), os.path.join(wdir, "Cargo.lock"))
    env = dict(os.environ, CARGO_NET_OFFLINE="true", CARGO_TARGET_DIR=os.path.join(CACHE, "witness_target"))
    cmd = ["cargo", "+nightly", "test", "--doc", "--offline"]
    if REPO != "/repo":
        cmd += ["--config", "patch.crates-io.chrono.path='%s'" % REPO]
    r = subprocess.run(cmd, cwd=wdir, env=env, stdout=subprocess.PIPE, stderr=subprocess.STDOUT, text=True)
    tests = []
    for m in re.finditer(r"^test src/lib.rs - (\S+) \(line (\d+)\) - (compile fail|compile) \.\.\. (\w+)", r.stdout, re.M):
        tests.append((m.group(1) + ":" + m.group(2), m.group(3), m.group(4) == "ok"))
    m = re.search(r"test result: \w+\. (\d+) passed; (\d+) failed", r.stdout)
    passed, failed = (int(m.group(1)), int(m.group(2))) if m else (0, -1)
    return passed, failed, tests, r.stdout[-1500:]
