"""Root sets (DESIGN section 2): E = fallible public entry points, D = documented panickers, I = other public fns."""

FALLIBLE_ADTS = ("std::option::Option", "std::result::Result", "offset::LocalResult")
DEPRECATED_MODULES = ("date::",)
EXTRA_E = (
    "datetime::DateTime::<Tz>::to_rfc3339", "datetime::DateTime::<Tz>::to_rfc3339_opts",
)


def is_public_api(P, n, f):
    if f.get("kind") not in ("Fn", "AssocFn"):
        return False
    if not f.get("reachable"):
        return False
    if "trait" in f:
        return True      # methods of trait impls on reachable types
    return bool(f.get("pub"))


_src = {}


def doc_above(P, f):
    """doc comment text above an item (source scan; the driver's attribute view misses docs on some items)"""
    import os
    from facts import REPO
    path = os.path.join(REPO, f.get("file", ""))
    if path not in _src:
        try:
            _src[path] = open(path, encoding="utf-8").read().split("\n")
        except OSError:
            _src[path] = []
    lines = _src[path]
    i = f.get("line", 1) - 2
    out = []
    while i >= 0:
        s = lines[i].strip()
        if s.startswith("///") or s.startswith("#[") or s.startswith("//") or s == "" and out and False:
            out.append(s)
            i -= 1
        elif s.endswith(")]") or s.endswith(","):
            i -= 1      # continuation of a multi-line attribute
            if len(out) > 400:
                break
        else:
            break
    return "\n".join(out)


OPERATOR_TRAITS = ("std::ops::Add", "std::ops::Sub", "std::ops::AddAssign", "std::ops::SubAssign", "std::ops::Mul", "std::ops::Div", "std::ops::Neg")


def documented_panicker(P, n, f):
    if f.get("doc_panics"):
        return True
    if f.get("trait") in OPERATOR_TRAITS or f.get("trait") == "std::iter::Sum":
        return True       # operator arithmetic panics on overflow (documented on the checked forms and in the crate docs)
    return "# Panics" in doc_above(P, f)


def deprecated(P, n, f):
    if f.get("deprecated") or f.get("impl_deprecated"):
        return True
    if f.get("file", "").endswith("src/date.rs"):
        return True
    # operations on the deprecated `Date<Tz>` type defined elsewhere (MappedLocalTime<Date<Tz>>::and_*)
    tys = [P.ty_s(i) for i in f.get("inputs", [])] + [f.get("impl") or ""]
    return any("date::Date<" in (x or "") for x in tys)


def fallible(P, f):
    r = f.get("ret")
    if r is None:
        return False
    t = P.ty(r)
    return t.get("k") == "adt" and t["adt"] in FALLIBLE_ADTS


def is_fmt_result(P, f):
    r = f.get("ret")
    if r is None:
        return False
    return P.ty_s(r) in ("std::result::Result<(), std::fmt::Error>",)


def root_sets(P):
    E, D, I = [], [], []
    for n, f in P.fns.items():
        if "mir" not in f or not is_public_api(P, n, f):
            continue
        if deprecated(P, n, f):
            D.append(n)
            continue
        if documented_panicker(P, n, f):
            D.append(n)
            continue
        if f.get("derived"):
            continue
        if n in EXTRA_E:
            E.append(n)
        elif fallible(P, f) and not is_fmt_result(P, f):
            E.append(n)
        else:
            I.append(n)
    return sorted(E), sorted(D), sorted(I)
