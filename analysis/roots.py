"""Root sets (DESIGN section 2): E = fallible public entry points, D = documented panickers, I = other public fns."""

FALLIBLE_ADTS = ("std::option::Option", "std::result::Result", "offset::LocalResult")
DEPRECATED_MODULES = ("date::",)
EXTRA_E = (
    "datetime::DateTime::<Tz>::to_rfc3339", "datetime::DateTime::<Tz>::to_rfc3339_opts",
)


def is_public_api(P, n, f):
    if f.get("kind") not in ("Fn", "AssocFn"):
        return False
    if not f.get("reachable"):
        return False
    if "trait" in f:
        return True      # methods of trait impls on reachable types
    return bool(f.get("pub"))


def deprecated(P, n, f):
    if f.get("deprecated") or f.get("impl_deprecated"):
        return True
    if f.get("file", "").endswith("src/date.rs"):
        return True
    return False


def fallible(P, f):
    r = f.get("ret")
    if r is None:
        return False
    t = P.ty(r)
    return t.get("k") == "adt" and t["adt"] in FALLIBLE_ADTS


def is_fmt_result(P, f):
    r = f.get("ret")
    if r is None:
        return False
    return P.ty_s(r) in ("std::result::Result<(), std::fmt::Error>",)


def root_sets(P):
    E, D, I = [], [], []
    for n, f in P.fns.items():
        if "mir" not in f or not is_public_api(P, n, f):
            continue
        if deprecated(P, n, f):
            D.append(n)
            continue
        if f.get("doc_panics"):
            D.append(n)
            continue
        if f.get("derived"):
            continue
        if n in EXTRA_E:
            E.append(n)
        elif fallible(P, f) and not is_fmt_result(P, f):
            E.append(n)
        else:
            I.append(n)
    return sorted(E), sorted(D), sorted(I)
