"""default-locale name tables of format::locales (the writer side)"""
from core import AnchorLost
from sym import Sym, const_of


def _const_list(t):
    while t[0] in ("cast", "ref", "deref"):
        t = t[1]
    c = const_of(t)
    if isinstance(c, tuple):
        return list(c)
    return None


def default_tables(P):
    out = {}
    for name in ("short_months", "long_months", "short_weekdays", "long_weekdays", "am_pm"):
        fn = "format::locales::unlocalized::" + name
        r = [p.ret for p in Sym(P, fn).paths() if p.end[0] == "return"]
        v = _const_list(r[0]) if len(r) == 1 else None
        if v is None:
            raise AnchorLost("default locale table " + name)
        out[name] = v
    return out
