import sys, time, collections
from core import Prog
from roots import root_sets
from absint import Engine
cfg = sys.argv[1] if len(sys.argv) > 1 else 'default'
P=Prog(cfg)
E_,D,I=root_sets(P)
En=Engine(P)
for r in E_: En.analyse_root(r)
bad=[o for o in En.obl.values() if o.bad]
print("roots %d contexts %d functions %d obligations %d undischarged %d"%(len(E_),En.contexts,len(En.fn_analysed),len(En.obl),len(bad)))
print(collections.Counter(o.kind for o in bad))
flt = sys.argv[2] if len(sys.argv) > 2 else ''
for o in sorted(bad, key=lambda o:(o.fn,o.ln)):
    if flt in o.kind or flt in o.fn:
        print("%s:%s %s %s :: %s"%(o.fn.replace('naive::','n::').replace('format::','f::'),o.ln,o.kind,o.desc,(o.detail or '')[:90]))
print('unmodelled', dict(En.unmodelled))
