//! E3 — compile-fail witnesses for the type-level lemma behind the invariant reasoning of E1:
//! *all fields of the invariant-carrying types are private and their raw constructors are not nameable from outside
//! the crate*, so no code outside chrono can build or mutate such a value. Every witness has a compiling twin
//! (`no_run`: nothing of chrono is executed) that differs only in the offending line, so that a witness which
//! fails for the wrong reason is noticed. Run with `cargo +nightly test --doc --offline` (error codes are only
//! honoured on nightly).

/// NaiveDate: the packed field cannot be named or written from outside.
/// ```compile_fail,E0616
/// let d = chrono::NaiveDate::from_ymd_opt(2024, 1, 1).unwrap();
/// let _ = d.yof;
/// ```
/// ```no_run
/// let d = chrono::NaiveDate::from_ymd_opt(2024, 1, 1).unwrap();
/// let _ = d;
/// ```
pub struct NaiveDateYof;

/// NaiveDate cannot be built with a struct literal.
/// ```compile_fail,E0451
/// let nz = core::num::NonZeroI32::new(1).unwrap();
/// let _ = chrono::NaiveDate { yof: nz };
/// ```
/// ```no_run
/// let nz = core::num::NonZeroI32::new(1).unwrap();
/// let _ = nz;
/// ```
pub struct NaiveDateLiteral;

/// NaiveTime { secs, frac } is closed.
/// ```compile_fail,E0451
/// let _ = chrono::NaiveTime { secs: 90_000, frac: 0 };
/// ```
/// ```compile_fail,E0616
/// let t = chrono::NaiveTime::from_hms_opt(1, 2, 3).unwrap();
/// let _ = t.frac;
/// ```
/// ```no_run
/// let t = chrono::NaiveTime::from_hms_opt(1, 2, 3).unwrap();
/// let _ = t;
/// ```
pub struct NaiveTimeFields;

/// NaiveDateTime { date, time } is closed.
/// ```compile_fail,E0451
/// let d = chrono::NaiveDate::from_ymd_opt(2024, 1, 1).unwrap();
/// let t = chrono::NaiveTime::from_hms_opt(1, 2, 3).unwrap();
/// let _ = chrono::NaiveDateTime { date: d, time: t };
/// ```
/// ```no_run
/// let d = chrono::NaiveDate::from_ymd_opt(2024, 1, 1).unwrap();
/// let t = chrono::NaiveTime::from_hms_opt(1, 2, 3).unwrap();
/// let _ = chrono::NaiveDateTime::new(d, t);
/// ```
pub struct NaiveDateTimeFields;

/// DateTime: the stored UTC value and the offset cannot be assigned from outside.
/// ```compile_fail,E0616
/// let mut dt = chrono::DateTime::<chrono::Utc>::UNIX_EPOCH;
/// dt.datetime = chrono::NaiveDateTime::MAX;
/// ```
/// ```compile_fail,E0616
/// let dt = chrono::DateTime::<chrono::Utc>::UNIX_EPOCH;
/// let _ = dt.offset;
/// ```
/// ```no_run
/// let mut dt = chrono::DateTime::<chrono::Utc>::UNIX_EPOCH;
/// dt = chrono::DateTime::<chrono::Utc>::MAX_UTC;
/// let _ = dt;
/// ```
pub struct DateTimeFields;

/// TimeDelta { secs, nanos } is closed.
/// ```compile_fail,E0451
/// let _ = chrono::TimeDelta { secs: i64::MAX, nanos: 0 };
/// ```
/// ```compile_fail,E0616
/// let d = chrono::TimeDelta::zero();
/// let _ = d.nanos;
/// ```
/// ```no_run
/// let d = chrono::TimeDelta::zero();
/// let _ = d;
/// ```
pub struct TimeDeltaFields;

/// FixedOffset { local_minus_utc } is closed.
/// ```compile_fail,E0451
/// let _ = chrono::FixedOffset { local_minus_utc: 1_000_000 };
/// ```
/// ```no_run
/// let _ = chrono::FixedOffset::east_opt(3600);
/// ```
pub struct FixedOffsetFields;

/// WeekdaySet(u8) cannot be built from raw bits.
/// ```compile_fail,E0423
/// let _ = chrono::WeekdaySet(0xff);
/// ```
/// ```no_run
/// let _ = chrono::WeekdaySet::ALL;
/// ```
pub struct WeekdaySetBits;

/// IsoWeek { ywf } is closed.
/// ```compile_fail,E0616
/// let w = chrono::Datelike::iso_week(&chrono::NaiveDate::MIN);
/// let _ = w.ywf;
/// ```
/// ```no_run
/// let w = chrono::Datelike::iso_week(&chrono::NaiveDate::MIN);
/// let _ = w;
/// ```
pub struct IsoWeekFields;

/// The raw constructors are not nameable: NaiveDate::from_yof is private.
/// ```compile_fail,E0624
/// let _ = chrono::NaiveDate::from_yof(1 << 13 | 1 << 4 | 0o15);
/// ```
/// ```no_run
/// let _ = chrono::NaiveDate::from_yo_opt(1, 1);
/// ```
pub struct FromYofPrivate;

/// The tz_info module (TZif reader) is not reachable from outside; its types cannot be forged.
/// ```compile_fail,E0603
/// use chrono::offset::local::tz_info::TimeZone;
/// ```
/// ```compile_fail,E0603
/// use chrono::naive::internals::Mdf;
/// ```
/// ```no_run
/// use chrono::offset::Local;
/// let _ = Local;
/// ```
pub struct PrivateModules;

/// Positive twin for the deliberate opposite: `Parsed` has public fields, so it carries no invariant and every
/// read of a `Parsed` field is analysed at full type range.
/// ```no_run
/// let mut p = chrono::format::Parsed::new();
/// p.month = Some(u32::MAX);
/// p.hour_mod_12 = Some(4_000_000_000);
/// p.offset = Some(i32::MIN);
/// let _ = p.to_naive_date();
/// ```
pub struct ParsedIsOpen;

/// One write witness per remaining invariant field (a single field made `pub` must be noticed).
/// ```compile_fail,E0616
/// let mut d = chrono::TimeDelta::zero();
/// d.secs = i64::MAX;
/// ```
/// ```compile_fail,E0616
/// let mut t = chrono::NaiveTime::MIN;
/// t.secs = 90_000;
/// ```
/// ```compile_fail,E0616
/// let mut dt = chrono::NaiveDateTime::MIN;
/// dt.date = chrono::NaiveDate::MAX;
/// ```
/// ```compile_fail,E0616
/// let mut dt = chrono::NaiveDateTime::MIN;
/// dt.time = chrono::NaiveTime::MIN;
/// ```
/// ```compile_fail,E0616
/// let mut o = chrono::FixedOffset::east_opt(0).unwrap();
/// o.local_minus_utc = 1_000_000;
/// ```
/// ```compile_fail,E0616
/// let mut s = chrono::WeekdaySet::EMPTY;
/// s.0 = 0xff;
/// ```
/// ```compile_fail,E0616
/// let mut d = chrono::TimeDelta::zero();
/// d.nanos = -1;
/// ```
/// ```no_run
/// let mut d = chrono::TimeDelta::zero();
/// let mut t = chrono::NaiveTime::MIN;
/// let mut dt = chrono::NaiveDateTime::MIN;
/// let mut o = chrono::FixedOffset::east_opt(0).unwrap();
/// let mut s = chrono::WeekdaySet::EMPTY;
/// d = chrono::TimeDelta::MAX;
/// t = chrono::NaiveTime::from_hms_opt(1, 2, 3).unwrap();
/// dt = chrono::NaiveDateTime::MAX;
/// o = chrono::FixedOffset::west_opt(3600).unwrap();
/// s = chrono::WeekdaySet::ALL;
/// let _ = (d, t, dt, o, s);
/// ```
pub struct FieldWrites;
